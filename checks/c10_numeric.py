"""C10, numeric part.  Cases (broadcast patterns, operations, parameters) come from the TLC dump of MVNOps.tla; every case is run
on real MultivariateNormals with seeded, well-conditioned float64 covariances in every representation and compared with
reference formulas computed here from a Cholesky factor of the expanded covariance.
Operation cases carry a scalar as <<num, den, spelling>> (spell()) and a history flag `warm` (the operand's Cholesky factor was
needed before the operation); every result is compared on mean, covariance and log_prob (both paths), whatever the first two say."""
import math
import os

from harness import core, tlc

PID = "C10"
NOSHAPE = [-1]


def write_ops(workdir, name, part, bcast, dims, variant="pinned"):
    os.makedirs(workdir, exist_ok=True)
    mod = "MC_MVNOps_" + name
    with open(os.path.join(workdir, mod + ".tla"), "w") as f:
        f.write("---- MODULE %s ----\nEXTENDS MVNOps\nDimsDef == {%s}\n====\n" % (mod, ", ".join(map(str, dims))))
    cfg = os.path.join(workdir, mod + ".cfg")
    tlc.write_cfg(cfg, spec="Spec", constants={"Part": part, "Bcast": bool(bcast), "Dims": "<- DimsDef", "Variant": variant},
                  invariants=["LogProbShapeOK", "OpsOK"])      # + ASSUME BcastDefOK, WarmNeutral, AlphabetOK (constant level, checked once)
    return os.path.join(workdir, mod + ".tla"), cfg


def tlc_jobs(wd, thorough):
    jobs, meta = [], []
    for bcast, variant in ((False, "pinned"), (True, "pinned"), (True, "fixed")):
        name = ("bcast" if bcast else "plain") + ("_fixed" if variant == "fixed" else "")
        # quick: the broadcast representations (mean batch != covariance batch) over dims {2} only; size-1 dimensions of the
        # plain representations stay in
        mod, cfg = write_ops(os.path.join(wd, "mc"), name, "both", bcast, (1, 2) if thorough or not bcast else (2,), variant)
        jobs.append(((mod, cfg), dict(name=PID + "/ops_" + name, timeout=1800, dump=(variant == "pinned"), check=False, workers=2, heap="2g", extra=["-continue"])))
        meta.append(dict(bcast=bcast, name=name, variant=variant))
    return jobs, meta


# ---------------------------------------------------------------------------------------------------------------
def prod(s):
    p = 1
    for x in s:
        p *= x
    return p


def ref_logpdf(torch, y, m, C):
    L = torch.linalg.cholesky(C)
    diff = (y - m).unsqueeze(-1)
    bs = torch.broadcast_shapes(diff.shape[:-2], L.shape[:-2])
    z = torch.linalg.solve_triangular(L.expand(*bs, *L.shape[-2:]), diff.expand(*bs, *diff.shape[-2:]), upper=False).squeeze(-1)
    return -0.5 * (z * z).sum(-1) - torch.log(torch.diagonal(L, dim1=-1, dim2=-2)).sum(-1) - 0.5 * m.shape[-1] * math.log(2 * math.pi)


def ref_kl(torch, mp, Sp, mq, Sq):
    n = mp.shape[-1]
    Lq = torch.linalg.cholesky(Sq)
    Lp = torch.linalg.cholesky(Sp)
    A = torch.linalg.solve_triangular(Lq, Lp, upper=False)                      # Lq^-1 Lp
    dz = torch.linalg.solve_triangular(Lq, (mq - mp).unsqueeze(-1), upper=False).squeeze(-1)
    logdet = lambda L: 2 * torch.log(torch.diagonal(L, dim1=-1, dim2=-2)).sum(-1)
    return 0.5 * ((A * A).sum((-1, -2)) + (dz * dz).sum(-1) - n + logdet(Lq) - logdet(Lp))


def make_params(torch, n, mb, cb, rep, seed):
    """mean (mb + n), covariance (cb + n x n) [+ root], well conditioned: eigenvalues within [0.5, ~6]."""
    gen = torch.Generator().manual_seed(seed)
    mean = torch.randn(*mb, n, generator=gen, dtype=torch.float64)
    R = None
    if rep == "diag":
        C = torch.diag_embed(0.5 + 2 * torch.rand(*cb, n, generator=gen, dtype=torch.float64))
    elif rep == "root":
        k = n + 1
        R = torch.cat([torch.eye(n, dtype=torch.float64).expand(*cb, n, n), torch.zeros(*cb, n, 1, dtype=torch.float64)], -1) \
            + 0.35 * torch.randn(*cb, n, k, generator=gen, dtype=torch.float64)
        C = R @ R.transpose(-1, -2)
    elif rep.startswith("root-"):
        # root form with a SQUARE root of the given kind (MVNReads.tla, Reps): R R^T = C whatever the kind is
        from checks import c10_reads
        A = torch.randn(*cb, n, n, generator=gen, dtype=torch.float64)
        R = c10_reads.square_root_of(torch, A @ A.transpose(-1, -2) / n + torch.eye(n, dtype=torch.float64), rep[len("root-"):], gen)
        C = R @ R.transpose(-1, -2)
    else:
        A = torch.randn(*cb, n, n, generator=gen, dtype=torch.float64)
        C = A @ A.transpose(-1, -2) / n + torch.eye(n, dtype=torch.float64)
    ev = torch.linalg.eigvalsh(C)
    if float(ev.min()) <= 0.05 or float(ev.max() / ev.min()) > 1e3:
        return make_params(torch, n, mb, cb, rep, seed + 7919)
    return mean, C, R


def construct(torch, mean, C, R, rep):
    from gpytorch.distributions import MultivariateNormal
    from linear_operator import to_linear_operator
    from linear_operator.operators import DiagLinearOperator, RootLinearOperator
    if rep == "dense":
        cov = C.clone()
    elif rep == "lazy":
        cov = to_linear_operator(C.clone())
    elif rep == "diag":
        cov = DiagLinearOperator(torch.diagonal(C, dim1=-1, dim2=-2).clone())
    else:
        cov = RootLinearOperator(R.clone())
    return MultivariateNormal(mean.clone(), cov)


ROOT_KINDS = ("sym", "rot", "upper", "lower")        # kinds of square root of a root-form covariance
SPELLINGS = {0: "int", 1: "float", 2: "tensor0", 3: "bool", 4: "numpy", 5: "omitted"}
SCALAR_OPS = ("add_scalar", "radd_scalar", "mul", "div", "rmul", "add_jitter")


def spell(torch, param):
    """The Python object for a scalar case <<num, den, spelling>> of MVNOps.tla, and its value as a float."""
    num, den, sp = int(param[0]), int(param[1]), int(param[2])
    c = num / den
    if sp == 0:
        if den != 1:
            raise core.Machinery("int spelling of the non-integer %d/%d" % (num, den))
        return num, c
    if sp == 1:
        return float(c), c
    if sp == 2:
        return torch.tensor(c, dtype=torch.float64), c
    if sp == 3:
        if den != 1 or num not in (0, 1):
            raise core.Machinery("bool spelling of %d/%d" % (num, den))
        return bool(num), c
    if sp == 4:
        import numpy
        return numpy.float64(c), c
    if sp == 5:
        return None, c
    raise core.Machinery("unknown scalar spelling %r" % (sp,))


def show_param(op, param):
    if op in SCALAR_OPS:
        return "%s %s/%s" % (SPELLINGS[int(param[2])], param[0], param[1]) if param[1] != 1 else "%s %s" % (SPELLINGS[int(param[2])], param[0])
    return str(param)


def relation(mb, cb):
    if list(mb) == list(cb):
        return "same"
    if len(mb) < len(cb):
        return "mean-rank<cov-rank"
    if len(mb) > len(cb):
        return "mean-rank>cov-rank"
    return "same-rank"


def dist_view(torch, r):
    """(batch shape, mean expanded, covariance expanded) of a distribution object - the observation of the replay."""
    bs = tuple(r.batch_shape)
    n = r.event_shape[-1]
    return bs, torch.broadcast_to(r.mean, bs + (n,)), torch.broadcast_to(r.covariance_matrix, bs + (n, n))


def _numeric_worker(item):
    torch = core.setup_torch()
    import gpytorch
    from gpytorch.distributions import Delta, MultivariateNormal
    n, mb, cb, rep, seed = item["n"], tuple(item["mb"]), tuple(item["cb"]), item["rep"], item["seed"]
    only = item.get("only")
    db = tuple(torch.broadcast_shapes(mb, cb))
    bc = list(mb) != list(cb)
    rn = rep + ("-bcast" if bc else "")
    rel = relation(mb, cb)
    desc = "n=%d mean batch=%s cov batch=%s %s" % (n, list(mb), list(cb), rep)
    mean, C, R = make_params(torch, n, mb, cb, rep, seed)
    M = mean.expand(*db, n)
    S = C.expand(*db, n, n)
    out = []

    cur = [None]

    def emit(op, cell, ok, detail, key, nontrivial=None, sample=False):
        r = dict(key=[op, n, list(mb), list(cb), rep] + list(key), ok=bool(ok), nontrivial=bool(db) if nontrivial is None else bool(nontrivial),
                 sig="C10/%s/%s/%s" % (op, rn, cell), detail="%s: %s" % (desc, detail),
                 case=dict(kind="numeric", n=n, mb=list(mb), cb=list(cb), rep=rep, seed=seed, only=cur[0]))
        if sample:
            r["sample"] = dict(case=desc, op=op, args=key)
        out.append(r)

    def want(group, key):
        """group of comparisons selected (all of them unless a replay asks for one)"""
        if only is None or (only[0] == group and only[1:] == list(key)):
            cur[0] = [group] + list(key)
            return True
        return False

    def fresh():
        return construct(torch, mean, C, R, rep)

    ok, d0 = core.guarded(fresh)
    if not ok:
        emit("construct", "raises", False, d0, [])
        return out
    if tuple(d0.batch_shape) != db or tuple(d0.event_shape) != (n,):
        emit("construct", "shape", False, "batch_shape %s event_shape %s, expected %s %s" % (list(d0.batch_shape), list(d0.event_shape), list(db), [n]), [])
        return out

    # ---- log_prob: every broadcastable value batch, both paths
    for vb in item["vbs"]:
        vb = tuple(vb)
        gen = torch.Generator().manual_seed(seed + 17 + prod(vb) + 10 * len(vb))
        Y = torch.randn(*vb, n, generator=gen, dtype=torch.float64)
        ref = ref_logpdf(torch, Y, M, S)
        for fast in (True, False):
            key = [list(vb), fast]
            if not want("log_prob", key):
                continue
            d = fresh()
            with gpytorch.settings.fast_computations(log_prob=fast):
                ok, lp = core.guarded(lambda: d.log_prob(Y))
            path = "fast" if fast else "cholesky"
            cell = "%s/%s" % (path, rel)
            if not ok:
                emit("log_prob", cell + "/raises", False, "log_prob(value of batch shape %s) raised %s (fast_computations.log_prob=%s)" % (list(vb), lp, fast), key, nontrivial=bool(db or vb))
                continue
            good, why = core.close(lp, ref, 1e-7, 1e-9)
            emit("log_prob", cell + ("" if good else "/value"), good, "log_prob(value batch %s, fast=%s) = %s, Gaussian log density = %s: %s" % (
                list(vb), fast, lp.reshape(-1)[:3].tolist(), ref.reshape(-1)[:3].tolist(), why), key, nontrivial=bool(db or vb), sample=(fast and len(vb) == 2))

    # ---- variance, stddev, confidence_region
    if want("moments", []):
        d = fresh()
        ok, v = core.guarded(lambda: (d.variance, d.stddev, d.confidence_region()))
        if not ok:
            emit("variance", rel + "/raises", False, v, [])
        else:
            dg = torch.diagonal(S, dim1=-1, dim2=-2)
            good, why = core.close(v[0], dg, 1e-7, 1e-9)
            emit("variance", rel, good, "variance is not diag(covariance): " + why, [])
            good, why = core.close(v[1], dg.sqrt(), 1e-7, 1e-9)
            emit("stddev", rel, good, "stddev is not sqrt(diag): " + why, [])
            g1, w1 = core.close(v[2][0], M - 2 * dg.sqrt(), 1e-7, 1e-9)
            g2, w2 = core.close(v[2][1], M + 2 * dg.sqrt(), 1e-7, 1e-9)
            emit("confidence_region", rel, g1 and g2, "confidence_region is not mean -/+ 2 stddev: %s %s" % (w1, w2), [])
            # reading them again (and after confidence_region, which works on stddev in place) gives the same answers
            ok, v2 = core.guarded(lambda: (d.confidence_region(), d.variance, d.stddev, d.mean, d.covariance_matrix))
            if not ok:
                emit("variance", rel + "/reread/raises", False, v2, [])
            else:
                checks = [core.close(v2[0][0], M - 2 * dg.sqrt(), 1e-7, 1e-9), core.close(v2[0][1], M + 2 * dg.sqrt(), 1e-7, 1e-9), core.close(v2[1], dg, 1e-7, 1e-9),
                          core.close(v2[2], dg.sqrt(), 1e-7, 1e-9), core.close(torch.broadcast_to(v2[3], M.shape), M, 1e-7, 1e-9),
                          core.close(torch.broadcast_to(v2[4], S.shape), S, 1e-7, 1e-9)]
                emit("variance", rel + "/reread", all(g for g, _ in checks),
                     "second confidence_region / variance / stddev / mean / covariance_matrix differ from the first: " + " ".join(w for g, w in checks if not g), [])

    # ---- rsample(base_samples = unit vectors): mean + R e with R R^T = covariance
    if want("rsample", []):
        d = fresh()
        ok, k = core.guarded(lambda: tuple(d.base_sample_shape))
        kk = R.shape[-1] if R is not None else n
        if not ok or k != (kk,):
            emit("rsample", rel + "/base_sample_shape", False, "base_sample_shape is %s, expected %s" % (k, [kk]), [])
        else:
            E = torch.eye(kk, dtype=torch.float64).reshape(kk, *([1] * len(db)), kk).expand(kk, *db, kk).contiguous()
            ok, smp = core.guarded(lambda: d.rsample(base_samples=E))
            if not ok:
                emit("rsample", rel + "/raises", False, "rsample(base_samples=unit vectors of shape %s) raised %s" % (list(E.shape), smp), [])
            elif tuple(smp.shape) != (kk,) + db + (n,):
                emit("rsample", rel + "/shape", False, "rsample(base_samples of shape %s) has shape %s" % (list(E.shape), list(smp.shape)), [])
            else:
                Rr = (smp - M).movedim(0, -1)              # (..., n, kk): column j = response to base sample e_j
                good, why = core.close(Rr @ Rr.transpose(-1, -2), S, 1e-7, 1e-9)
                emit("rsample", rel, good, "rsample(base_samples=e) - mean = R e with R R^T != covariance: " + why, [])
            for ss in ((), (1,), (3,), (2, 1)):
                ok, smp = core.guarded(lambda: (d.rsample(torch.Size(ss)), d.get_base_samples(torch.Size(ss)) if ss else d.get_base_samples()))
                good = ok and tuple(smp[0].shape) == ss + db + (n,) and bool(torch.isfinite(smp[0]).all()) and tuple(smp[1].shape) == ss + db + (kk,)
                emit("rsample", rel + "/sample-shape", good, "rsample(Size(%s)) / get_base_samples(Size(%s)) -> %s, expected shapes %s / %s" % (
                    list(ss), list(ss), smp if not ok else (list(smp[0].shape), list(smp[1].shape)), list(ss + db + (n,)), list(ss + db + (kk,))), [list(ss)])
            ok, bs = core.guarded(lambda: d.get_base_samples(torch.Size([3])))
            good = ok and tuple(bs.shape) == (3,) + db + (kk,)
            emit("get_base_samples", rel, good, "get_base_samples(Size([3])) -> %s, expected shape %s" % (bs if not ok else list(bs.shape), [3] + list(db) + [kk]), [])
            if good:
                ok, s2 = core.guarded(lambda: d.rsample(torch.Size([3]), base_samples=bs))
                if ok and tuple(s2.shape) == (3,) + db + (n,):
                    # linear in the base samples: equals mean + R bs with the R recovered above
                    ok3, smp2 = core.guarded(lambda: fresh().rsample(base_samples=E))
                    if ok3 and tuple(smp2.shape) == (kk,) + db + (n,):
                        Rr = (smp2 - M).movedim(0, -1)
                        wantS = M + (Rr.unsqueeze(0) @ bs.unsqueeze(-1)).squeeze(-1)
                        good, why = core.close(s2, wantS, 1e-7, 1e-9)
                        emit("rsample", rel + "/own-base-samples", good, "rsample(base_samples=get_base_samples()) is not mean + R e: " + why, [])
                else:
                    emit("rsample", rel + "/own-base-samples", False, "rsample(Size([3]), base_samples=get_base_samples(Size([3]))) -> %s" % (s2 if not ok else list(s2.shape)), [])

    # ---- KL
    for qname, (qmb, qcb, qrep) in (("self", (mb, cb, rep)), ("same-object", (mb, cb, rep)), ("same-batch-dense", (db, db, "dense")), ("unbatched-lazy", ((), (), "lazy")), ("batch2-diag", ((2,), (2,), "diag"))):
        if not want("kl", [qname]):
            continue
        try:
            ob = tuple(torch.broadcast_shapes(db, tuple(torch.broadcast_shapes(qmb, qcb))))
        except RuntimeError:
            continue
        if qname in ("self", "same-object"):
            qm, qC, qR = mean, C, R
        else:
            qm, qC, qR = make_params(torch, n, qmb, qcb, qrep, seed + 101)
        p = fresh()
        q = p if qname == "same-object" else construct(torch, qm, qC, qR, qrep)
        ok, kl = core.guarded(lambda: torch.distributions.kl_divergence(p, q))
        ref = ref_kl(torch, M.expand(*ob, n), S.expand(*ob, n, n), qm.expand(*ob, n), qC.expand(*ob, n, n))
        cell = "%s/%s" % (qname, rel)
        if not ok:
            emit("kl", cell + "/raises", False, "kl_divergence(p, q=%s) raised %s" % (qname, kl), [qname])
            continue
        if qname in ("self", "same-object"):
            good, why = core.close(kl, torch.zeros(ob, dtype=torch.float64), 0, 1e-9)
            emit("kl", cell, good, "KL(p || p) = %s, expected 0: %s" % (kl.reshape(-1)[:3].tolist(), why), [qname])
        else:
            good, why = core.close(kl, ref, 1e-7, 1e-9)
            emit("kl", cell, good, "KL(p || %s) = %s, closed form %s: %s" % (qname, kl.reshape(-1)[:3].tolist(), ref.reshape(-1)[:3].tolist(), why), [qname])
    if want("kl_delta", []):
        gen = torch.Generator().manual_seed(seed + 5)
        v = torch.randn(*db, n, generator=gen, dtype=torch.float64)
        ok, kl = core.guarded(lambda: torch.distributions.kl_divergence(Delta(v, event_dim=1), fresh()))
        if not ok:
            emit("kl_delta", rel + "/raises", False, "kl_divergence(Delta(v), q) raised %s" % kl, [])
        else:
            good, why = core.close(kl, -ref_logpdf(torch, v, M, S), 1e-7, 1e-9)
            emit("kl_delta", rel, good, "KL(Delta(v) || q) is not -log q(v): " + why, [])

    # ---- arithmetic / reshaping operations: cases of MVNOps.tla
    for oc in item["ops"]:
        op, param, warm = oc["op"], oc["param"], bool(oc.get("warm"))
        key = [param, warm]
        if only is not None and (only[0] != "__op__" or only[1] != oc):
            continue
        cur[0] = ["__op__", oc]
        d = fresh()
        experr = oc["experr"]
        optional, degenerate = bool(oc.get("optional")), bool(oc.get("degenerate"))
        eb = tuple(oc["expect"]) if not experr else None
        ps = show_param(op, param)
        hist = "after a Cholesky-path log_prob, " if warm else ""
        cell = rel + ("/warm" if warm else "")
        nt = bool(db) or op in ("expand", "unsqueeze", "add_mvn")
        am = ac = 1e-9          # absolute tolerances of mean / covariance: scaled with the result for the 0-adjacent scalars
        if warm:
            # history: the Cholesky factor of the operand was needed once (a lazy distribution caches it from then on)
            gen = torch.Generator().manual_seed(seed + 55)
            Y0 = torch.randn(*db, n, generator=gen, dtype=torch.float64)
            with gpytorch.settings.fast_computations(log_prob=False):
                ok, lp0 = core.guarded(lambda: d.log_prob(Y0))
            if not ok:
                emit(op, cell + "/raises", False, "log_prob on the Cholesky path (history of the case) raised %s" % lp0, key, nontrivial=nt)
                continue
        if op in SCALAR_OPS:
            k, c = spell(torch, param)
            if op == "add_scalar":
                fn, rm, rS = (lambda: d + k), M + c, S
            elif op == "radd_scalar":
                fn, rm, rS = (lambda: k + d), M + c, S
            elif op == "mul":
                fn, rm, rS = (lambda: d * k), M * c, S * c * c
            elif op == "rmul":
                fn, rm, rS = (lambda: k * d), M * c, S * c * c
            elif op == "div":
                fn, rm, rS = (lambda: d / k), M / c, S / (c * c)
            else:
                fn = (lambda: d.add_jitter()) if k is None else (lambda: d.add_jitter(k))
                rm, rS = M, S + c * torch.eye(n, dtype=torch.float64)
            if op in ("mul", "rmul", "div") and c != 0:
                sc = min(1.0, abs(c) if op != "div" else 1.0 / abs(c))
                am, ac = 1e-9 * sc, 1e-9 * sc * sc
        elif op == "expand":
            B = tuple(param)
            fn = lambda: d.expand(torch.Size(B))
            if not experr:
                rm, rS = M.expand(*B, n), S.expand(*B, n, n)
        elif op == "unsqueeze":
            fn = lambda: d.unsqueeze(int(param))
            if not experr:
                kdim = int(param) if param >= 0 else len(db) + int(param) + 1
                rm, rS = M.unsqueeze(kdim), S.unsqueeze(kdim)
        elif op == "add_mvn":
            qmb, qcb = tuple(param[0]), tuple(param[1])
            qm, qC, qR = make_params(torch, n, qmb, qcb, rep, seed + 303)
            q = construct(torch, qm, qC, qR, rep)
            fn = lambda: d + q
            if not experr:
                rm = M + qm.expand(*torch.broadcast_shapes(qmb, qcb), n)
                rS = S + qC.expand(*torch.broadcast_shapes(qmb, qcb), n, n)
        else:
            raise core.Machinery("unknown operation %r in the TLC dump" % (op,))
        ok, r = core.guarded(fn)
        if experr:
            emit(op, cell + ("" if not ok else "/accepts-invalid"), not ok, "%s%s(%s) is invalid for batch shape %s but returned %s" % (hist, op, ps, list(db), type(r).__name__), key, nontrivial=nt)
            continue
        if not ok:
            if optional:
                # a spelling / operand order the library may refuse: refusing is fine, answering wrongly is not
                emit(op, cell + "/rejected", True, "%s(%s) rejected: %s" % (op, ps, r), key, nontrivial=False)
            else:
                emit(op, cell + "/raises", False, "%s%s(%s) raised %s" % (hist, op, ps, r), key, nontrivial=nt)
            continue
        ok2, view = core.guarded(lambda: dist_view(torch, r))
        if not ok2:
            emit(op, cell + "/raises", False, "result of %s%s(%s) cannot be evaluated: %s" % (hist, op, ps, view), key, nontrivial=nt)
            continue
        bs, rmean, rcov = view
        if bs != eb:
            emit(op, cell + "/batch-shape", False, "%s%s(%s): batch_shape %s, expected %s" % (hist, op, ps, list(bs), list(eb)), key, nontrivial=nt)
            continue
        # mean AND covariance AND (below) log_prob of every result, whatever the other two say: a short-cut that returns the
        # operand, a reused factor, a stale cache each show in a different one
        g1, w1 = core.close(rmean, rm, 1e-7, am)
        g2, w2 = core.close(rcov, rS, 1e-7, ac)
        emit(op, cell + ("" if g1 and g2 else ("/mean" if not g1 else "/covariance")), g1 and g2,
             "%s%s(%s): mean %s covariance %s" % (hist, op, ps, w1 or "ok", w2 or "ok"), key, nontrivial=nt, sample=(op == "unsqueeze" and len(db) == 2 and param == 1 and not warm))
        if degenerate:
            continue          # covariance 0: no density to compare
        dgr = torch.diagonal(rS, dim1=-1, dim2=-2)
        if float(dgr.min()) > 1e-4:        # (settings.min_variance clamps below 1e-6: the 0-adjacent products are not compared)
            okv, var = core.guarded(lambda: torch.broadcast_to(r.variance, bs + (n,)))
            g3, w3 = (False, var) if not okv else core.close(var, dgr, 1e-7, 1e-9)
            if not g3:
                emit(op, cell + "/variance", False, "%s%s(%s).variance: %s" % (hist, op, ps, w3), key, nontrivial=nt)
        # the resulting distribution is the distribution it claims to be: log_prob on both paths at values drawn around the
        # EXPECTED distribution (a derived object may carry a reused Cholesky factor that mean / covariance do not show)
        gen = torch.Generator().manual_seed(seed + 77)
        try:
            Lr = torch.linalg.cholesky(rS)
        except Exception as e:
            raise core.Machinery("expected covariance of %s(%s) is not positive definite: %s" % (op, ps, rS))
        Y = rm + (Lr @ (1.2 * torch.randn(*bs, n, 1, generator=gen, dtype=torch.float64))).squeeze(-1)
        ref = ref_logpdf(torch, Y, rm, rS)
        for fast in (True, False):
            with gpytorch.settings.fast_computations(log_prob=fast):
                ok, lp = core.guarded(lambda: r.log_prob(Y))
            good, why = (False, lp) if not ok else core.close(lp, ref, 1e-7, 1e-9)
            emit(op, cell + "/then-log_prob-" + ("fast" if fast else "cholesky"), good, "%s%s(%s).log_prob: %s" % (hist, op, ps, why), key + [fast], nontrivial=nt)
    return out


def check_alphabet(ck, configs):
    """Vacuity guard on the replay side: the cases read from the dump really contain the special scalars in every spelling
    (the spec states the same as invariant AlphabetOK) and both histories."""
    for cfgk, e in configs.items():
        have = set((o["op"], tuple(o["param"]), o["warm"]) for o in e["ops"] if o["op"] in SCALAR_OPS)
        warms = (False, True) if cfgk[2] else (False,)          # a dense distribution always has its factor: no history to tell apart
        need = [(op, (v, 1, sp), w) for op in ("mul", "div") for v in (1, -1) for sp in (0, 1, 2, 4) for w in warms]
        need += [(op, (0, 1, sp), w) for op in ("add_scalar", "radd_scalar", "add_jitter") for sp in (0, 1) for w in warms]
        missing = [x for x in need if x not in have]
        if e["ops"] and missing:
            ck.vacuous("MVNOps cases of configuration %s lack the special scalar cases %s" % (cfgk, missing[:4]))


def run(ck, meta, results):
    thorough = ck.tier == "thorough"
    configs = {}          # (mb, cb, lazy) -> dict(vbs=[], ops=[])
    tlc_pred = {}
    for m, res in zip(meta, results):
        ck.add_tlc(res, "MVNOps " + m["name"])
        if res.rc != 0 and res.violation is None:
            raise tlc.TLCError("TLC failed on MVNOps %s:\n%s" % (m["name"], res.stdout[-1500:]))
        if m["bcast"]:
            tlc_pred[m["variant"]] = (res.violation or {}).get("name"), res.stdout.count("is violated")
        elif res.violation is not None:
            ck.model_drift("MVNOps.tla (model of the current code) violates %s on %s (%d violation reports): a prediction, decided by the replay" % (
                res.violation["name"], m["name"], res.stdout.count("is violated")))
        if m["variant"] != "pinned":
            continue
        states = res.states()
        if not states:
            ck.vacuous("MVNOps run %s generated no case" % m["name"])
        ck.section("numeric-gen", runs=1, cases=len(states))
        for st in states:
            c = st["c"]
            cfgk = (tuple(c["mb"]), tuple(c["cb"]), bool(c["lazy"]))
            e = configs.setdefault(cfgk, dict(vbs=[], ops=[]))
            if c["kind"] == "logprob":
                if list(c["expect"]) == NOSHAPE:
                    raise core.Machinery("non-broadcastable log_prob case in the dump")
                e["vbs"].append(list(c["vb"]))
            else:
                p = c["param"]
                if c["op"] == "add_mvn":
                    p = [list(p[0]), list(p[1])]
                elif isinstance(p, tuple):
                    p = list(p)
                e["ops"].append(dict(op=c["op"], param=p, warm=bool(c["warm"]), experr=bool(c["experr"]), expect=list(c["expect"]),
                                     optional=bool(c["optional"]), degenerate=bool(c["degenerate"])))
    check_alphabet(ck, configs)
    items = []
    nlazy = 0
    for (mb, cb, lazy), e in sorted(configs.items()):
        # root form: the n x (n+1) root everywhere, and one kind of SQUARE root per configuration in rotation (every kind on
        # every configuration in the thorough tier); MVNReads.tla runs every kind against every Cholesky-path quantity
        nk = len(ROOT_KINDS)
        nlazy += 1 if lazy else 0
        kinds = tuple(ROOT_KINDS[(2 * nlazy + j) % nk] for j in range(2)) if thorough else (ROOT_KINDS[nlazy % nk],)
        for rep in (("lazy", "diag", "root") + tuple("root-" + k for k in kinds) if lazy else ("dense",)):
            for n in ((1, 2, 3) if thorough else (3, 1)):
                if rep.startswith("root-") and n != 3:
                    continue            # (the kinds differ from n = 2 on; one size keeps the tier's cost)
                seed = ck.seed * 100003 + 31 * len(items) + 1
                items.append(dict(n=n, mb=list(mb), cb=list(cb), rep=rep, seed=seed, vbs=sorted(e["vbs"]), ops=sorted(e["ops"], key=repr)))
    res = core.pmap(_numeric_worker, items, chunksize=1)
    ck.absorb(res)
    failed = [r for r in res if not r.get("ok", True)]
    ck.section("numeric-replay", configs=len(items), cases=len(res), failed=len(failed))
    from checks import c10
    c10.report_variant(ck, "MVNOps.tla", tlc_pred["pinned"], tlc_pred["fixed"], sum(1 for r in failed if "-bcast/" in r["sig"]),
                       "distributions whose mean and covariance batch shapes differ (broadcast representation)")


def replay(rep):
    case = rep["case"]
    item = dict(n=case["n"], mb=case["mb"], cb=case["cb"], rep=case["rep"], seed=case["seed"], only=case["only"], vbs=[], ops=[])
    op = case["only"][0]
    if op == "log_prob":
        item["vbs"] = [case["only"][1]]
    elif op == "__op__":
        item["ops"] = [case["only"][1]]        # the operation case as generated by TLC (inputs and declarative expectation)
    res = _numeric_worker(item)
    rc = 0
    for r in res:
        if not r["ok"]:
            print("VIOLATION property=C10 replay=- :: %s :: %s" % (r["sig"], r["detail"]))
            rc = 1
    if not res:
        print("MACHINERY-FAILURE replay selected no case")
        return 2
    if rc == 0:
        print("replay passed")
    return rc
