"""C08 - batch mode = independent replicas (no cross-talk between batch elements).
Spec: Batch.tla (+ Shapes.tla).  TLC enumerates every (parameter batch P, data batch D1, data batch D2) of rank 0..2 over
sizes {1,2,3}, checks the broadcasting algebra and the code-shaped parameter alignments, and dumps for every broadcastable
triple every output element b with its replica indices; the replay compares element b of the batched object with the
non-batched replica (parameter slice p applied to data slices d1, d2)."""
import os
import zlib
from concurrent.futures import ThreadPoolExecutor

from harness import core, tlc

LEVEL = "model_checking"
PID = "C08"

NPTS, MPTS, DFEAT, NCO = 4, 3, 2, 3          # rows of x1 / x2, feature dimension, "coinciding" number of rows (an axis size)
NTRAIN, NTEST, NIND, NUM_DATA = 5, 3, 3, 17
KTOL = (1e-10, 1e-10)                        # kernels / means / likelihood: rtol, atol
MTOL = (1e-7, 1e-9)                          # posterior / mll / elbo

# Site families of Batch.tla whose REPAIRED arithmetic the model should transcribe.  Empty = the arithmetic of the pinned commit, for
# which TLC predicts failures (MODEL-DRIFT lines) that the replay confirms.  When a fix lands in /repo add its family here so that the
# model follows the code: "rq_alpha" (RQKernel.forward), "const_kernel" (ConstantKernel.forward), "call_diag" (Kernel.__call__ diag
# heuristic), "multitask" (MultitaskKernel.forward repeat).
REPAIRED = set(filter(None, os.environ.get("VERIF_C08_REPAIRED", "rq_alpha,const_kernel,call_diag").split(",")))  # fix: commits for RQ alpha and ConstantKernel are in /repo

SITES = ["lengthscale_x1", "lengthscale_x2", "outputscale_full", "outputscale_diag", "rq_alpha_full", "rq_alpha_diag",
         "constant_mean", "linear_mean_weights", "linear_mean_bias", "noise", "const_kernel_full", "const_kernel_diag",
         "var_inducing_values", "multitask_task_covar", "call_diag", "call_diag_nco", "call_diag_ignored"]


# =============================================================================================
# TLC
# =============================================================================================
def write_cfg(workdir, name, sites, invariants):
    os.makedirs(workdir, exist_ok=True)
    cfg = os.path.join(workdir, "Batch_%s.cfg" % name)
    tlc.write_cfg(cfg, spec="Spec", constants={"Dims": {1, 2, 3}, "MaxRank": 2, "NPts": NPTS, "MPts": MPTS, "DFeat": DFEAT, "NCo": NCO,
                                               "CheckSites": set(sites), "Repaired": set(REPAIRED)}, invariants=invariants)
    return cfg


def _t(x):
    return [int(v) for v in x]


def run_tlc(ck):
    """Returns (cases, rejected, predictions).  Generation, algebra and per-site alignment runs."""
    wd = os.path.join(tlc.BUILD, PID, "mc")
    with ThreadPoolExecutor(max_workers=8) as ex:
        f_alg = ex.submit(tlc.run, "Batch", write_cfg(wd, "algebra", [], ["Algebra"]), name=PID + "/algebra", check=False, workers=2, timeout=900)
        gen = tlc.run("Batch", write_cfg(wd, "gen", [], ["RepsComplete"]), name=PID + "/gen", dump=True, check=False, workers=2, timeout=900)
        ck.add_tlc(gen, "Batch gen (every triple, every b, replica indices, site predictions)")
        if gen.violation is not None or gen.rc != 0:
            raise tlc.TLCError("Batch.tla generation run failed (%s):\n%s" % ((gen.violation or {}).get("name"), gen.stdout[-1500:]))
        cases, rejected = [], []
        for st in gen.states():
            c = st["c"]
            if not c["ok"]:
                rejected.append([_t(c["P"]), _t(c["D1"]), _t(c["D2"])])
                continue
            cases.append(dict(P=_t(c["P"]), D1=_t(c["D1"]), D2=_t(c["D2"]), out=_t(c["out"]), y=_t(c["y"]),
                              reps=[dict(b=_t(r["b"]), p=_t(r["p"]), d1=_t(r["d1"]), d2=_t(r["d2"]), y=_t(r["y"])) for r in c["reps"]],
                              pred={str(k): str(v) for k, v in c["pred"].items()}))
        if not cases or not rejected:
            ck.vacuous("Batch.tla produced %d broadcastable and %d rejected triples" % (len(cases), len(rejected)))
        if cases and sorted(cases[0]["pred"]) != sorted(SITES):
            raise core.Machinery("site names of Batch.tla and checks/c08.py differ: %s" % sorted(cases[0]["pred"]))
        failing = {s: [c for c in cases if c["pred"][s] != "ok"] for s in SITES}
        clean = [s for s in SITES if not failing[s]]
        futs = {"<all sites predicted clean>": ex.submit(tlc.run, "Batch", write_cfg(wd, "sites_clean", clean, ["SitesAligned"]),
                                                         name=PID + "/sites_clean", check=False, workers=2, timeout=900)}
        for s in SITES:
            if failing[s]:
                futs[s] = ex.submit(tlc.run, "Batch", write_cfg(wd, "site_" + s, [s], ["SitesAligned"]), name=PID + "/site_" + s,
                                    check=False, workers=2, timeout=900)
        alg = f_alg.result()
        ck.add_tlc(alg, "Batch algebra invariants")
        if alg.violation is not None or alg.rc != 0:
            raise tlc.TLCError("the broadcasting algebra of Shapes.tla / Batch.tla is inconsistent (%s):\n%s" % (
                (alg.violation or {}).get("name"), alg.stdout[-1500:]))
        preds = {}
        for s, f in futs.items():
            r = f.result()
            ck.add_tlc(r, "Batch site alignment: " + s)
            if r.violation is None and r.rc != 0:
                raise tlc.TLCError("TLC failed on site run %s:\n%s" % (s, r.stdout[-1500:]))
            if s.startswith("<"):
                if r.violation is not None:
                    raise tlc.TLCError("TLC and the dumped predictions disagree on the clean sites")
                continue
            if r.violation is None:
                raise tlc.TLCError("TLC and the dumped predictions disagree on site " + s)
            kinds = sorted(set(c["pred"][s] for c in failing[s]))
            preds[s] = dict(predicted_failing_triples=len(failing[s]), outcomes=kinds,
                            first_counterexample=dict(P=failing[s][0]["P"], D1=failing[s][0]["D1"], D2=failing[s][0]["D2"], outcome=failing[s][0]["pred"][s]))
            ck.model_drift("Batch.tla: site %s (model of the current code) violates SitesAligned on %d of %d triples (predicted %s), e.g. P=%s D1=%s D2=%s "
                           "- a prediction the replay has to confirm" % (s, len(failing[s]), len(cases), "/".join(kinds),
                                                                         failing[s][0]["P"], failing[s][0]["D1"], failing[s][0]["D2"]))
    return cases, rejected, preds


# =============================================================================================
# catalogue of batch-capable modules
# =============================================================================================
def kernel_catalogue():
    import torch
    from gpytorch import kernels as K
    d = DFEAT
    S = torch.Size
    cat = {
        # name: (factory(batch_shape), data kind); @b = built with the batch shape, @1 = built without (shared by all batch elements)
        "RBF": (lambda B: K.RBFKernel(batch_shape=S(B)), "real"),
        "RBF_ARD": (lambda B: K.RBFKernel(ard_num_dims=d, batch_shape=S(B)), "real"),
        "Matern0.5_ARD": (lambda B: K.MaternKernel(nu=0.5, ard_num_dims=d, batch_shape=S(B)), "real"),
        "Matern1.5_ARD": (lambda B: K.MaternKernel(nu=1.5, ard_num_dims=d, batch_shape=S(B)), "real"),
        "Matern2.5_ARD": (lambda B: K.MaternKernel(nu=2.5, ard_num_dims=d, batch_shape=S(B)), "real"),
        "RQ": (lambda B: K.RQKernel(batch_shape=S(B)), "real"),
        "RQ_ARD": (lambda B: K.RQKernel(ard_num_dims=d, batch_shape=S(B)), "real"),
        "Periodic": (lambda B: K.PeriodicKernel(batch_shape=S(B)), "real"),
        "Periodic_ARD": (lambda B: K.PeriodicKernel(ard_num_dims=d, batch_shape=S(B)), "real"),
        "Cosine": (lambda B: K.CosineKernel(batch_shape=S(B)), "real"),
        "Linear": (lambda B: K.LinearKernel(batch_shape=S(B)), "real"),
        "Linear_ARD": (lambda B: K.LinearKernel(ard_num_dims=d, batch_shape=S(B)), "real"),
        "Polynomial2": (lambda B: K.PolynomialKernel(power=2, batch_shape=S(B)), "real"),
        "Polynomial3": (lambda B: K.PolynomialKernel(power=3, batch_shape=S(B)), "real"),
        "PiecewisePolynomial0": (lambda B: K.PiecewisePolynomialKernel(q=0, batch_shape=S(B)), "real"),
        "PiecewisePolynomial1": (lambda B: K.PiecewisePolynomialKernel(q=1, batch_shape=S(B)), "real"),
        "PiecewisePolynomial2_ARD": (lambda B: K.PiecewisePolynomialKernel(q=2, ard_num_dims=d, batch_shape=S(B)), "real"),
        "PiecewisePolynomial3": (lambda B: K.PiecewisePolynomialKernel(q=3, batch_shape=S(B)), "real"),
        "SpectralMixture": (lambda B: K.SpectralMixtureKernel(num_mixtures=2, ard_num_dims=d, batch_shape=S(B)), "real"),
        "Constant": (lambda B: K.ConstantKernel(batch_shape=S(B)), "real"),
        "Scale(RBF)": (lambda B: K.ScaleKernel(K.RBFKernel(batch_shape=S(B)), batch_shape=S(B)), "real"),
        "Scale(Matern2.5_ARD)": (lambda B: K.ScaleKernel(K.MaternKernel(nu=2.5, ard_num_dims=d, batch_shape=S(B)), batch_shape=S(B)), "real"),
        "Scale@b(RBF@1)": (lambda B: K.ScaleKernel(K.RBFKernel(), batch_shape=S(B)), "real"),
        "Scale@1(RBF@b)": (lambda B: K.ScaleKernel(K.RBFKernel(batch_shape=S(B))), "real"),
        "RBF+Matern1.5": (lambda B: K.RBFKernel(batch_shape=S(B)) + K.MaternKernel(nu=1.5, batch_shape=S(B)), "real"),
        "RBF@b+Linear@1": (lambda B: K.RBFKernel(batch_shape=S(B)) + K.LinearKernel(), "real"),
        "RBF*Periodic": (lambda B: K.RBFKernel(batch_shape=S(B)) * K.PeriodicKernel(batch_shape=S(B)), "real"),
        "Scale(Matern)+Scale(Linear)": (lambda B: K.ScaleKernel(K.MaternKernel(nu=2.5, ard_num_dims=d, batch_shape=S(B)), batch_shape=S(B))
                                        + K.ScaleKernel(K.LinearKernel(batch_shape=S(B)), batch_shape=S(B)), "real"),
        "Scale(RBF)*Scale(Cosine)": (lambda B: K.ScaleKernel(K.RBFKernel(batch_shape=S(B)), batch_shape=S(B))
                                     * K.ScaleKernel(K.CosineKernel(batch_shape=S(B)), batch_shape=S(B)), "real"),
        "Index": (lambda B: K.IndexKernel(num_tasks=3, rank=2, batch_shape=S(B)), "index"),
        "Multitask(RBF@b,task@1)": (lambda B: K.MultitaskKernel(K.RBFKernel(batch_shape=S(B)), num_tasks=2, rank=1), "real"),
        "Multitask(RBF@b,task@b)": (lambda B: K.MultitaskKernel(K.RBFKernel(batch_shape=S(B)), num_tasks=2, rank=1, batch_shape=S(B)), "real"),
        "LCM(RBF,Matern)": (lambda B: K.LCMKernel([K.RBFKernel(batch_shape=S(B)), K.MaternKernel(batch_shape=S(B))], num_tasks=2, rank=1), "real"),
        "Arc(Matern)": (lambda B: K.ArcKernel(K.MaternKernel(nu=2.5, batch_shape=S(B)), ard_num_dims=d, batch_shape=S(B)), "real"),
        "Cylindrical(Matern)": (lambda B: K.CylindricalKernel(3, K.MaternKernel(nu=2.5, batch_shape=S(B)), batch_shape=S(B)), "real"),
        "SpectralDelta": (lambda B: K.SpectralDeltaKernel(num_dims=d, num_deltas=4, batch_shape=S(B)), "real"),
        "NewtonGirardAdditive(RBF)": (lambda B: K.NewtonGirardAdditiveKernel(K.RBFKernel(batch_shape=S(B)), num_dims=d, max_degree=2, batch_shape=S(B)), "real"),
        "RFF": (lambda B: K.RFFKernel(num_samples=3, num_dims=d, batch_shape=S(B)), "real"),
        "GaussianSymmetrizedKL": (lambda B: K.GaussianSymmetrizedKLKernel(batch_shape=S(B)), "real"),
    }
    return cat


def kernel_sites(name, mode):
    """The sites of Batch.tla that model the parameter alignment of this kernel in this mode (for prediction vs observation)."""
    diag = mode.startswith("diag")
    s = []
    if diag and name == "Index":
        s.append("call_diag_ignored")
    elif diag and not name.startswith(("Multitask", "LCM")):      # (their diagonal has n * num_tasks entries)
        s.append("call_diag_nco" if mode == "diag-n3" else "call_diag")
    if name.startswith("RQ"):
        s.append("rq_alpha_diag" if diag else "rq_alpha_full")
    if name == "Constant":
        s.append("const_kernel_diag" if diag else "const_kernel_full")
    if "Scale" in name:
        s.append("outputscale_diag" if diag else "outputscale_full")
    if name == "Multitask(RBF@b,task@b)":
        s.append("multitask_task_covar")
    if any(t in name for t in ("RBF", "Matern", "RQ", "Periodic", "PiecewisePolynomial")):
        s += ["lengthscale_x1"] if diag else ["lengthscale_x1", "lengthscale_x2"]
    return s


# quick tier: these kernels on every triple and every b, the others on a seeded 15% of the triples; thorough: all on all
QUICK_FULL_KERNELS = ("Scale(Matern2.5_ARD)", "RQ", "Constant", "RBF@b+Linear@1", "Multitask(RBF@b,task@b)")


# =============================================================================================
# helpers shared by the replay workers
# =============================================================================================
def _seed(*parts):
    return zlib.crc32(repr(parts).encode()) & 0x7FFFFFFF


def _gen(torch, *parts):
    return torch.Generator().manual_seed(_seed(*parts))


def _randomize(torch, mod, g):
    """distinct parameter values in every batch element: raw parameters uniform in (-1, 1) (softplus -> 0.31 .. 1.31)"""
    mod.double()
    for _, p in mod.named_parameters():
        p.data = torch.rand(p.shape, generator=g, dtype=torch.float64) * 2 - 1
    return mod


def _copy_state(batched, rep, idxmap):
    """Give the non-batched module `rep` the slice of every parameter / buffer of `batched`.  idxmap: {batch shape: index};
    a parameter whose leading axes (beyond the replica's parameter shape) form batch shape Q takes index idxmap[Q]."""
    for kind in ("named_parameters", "named_buffers"):
        src = dict(getattr(batched, kind)())
        for n, p in getattr(rep, kind)():
            q = src.get(n)
            if q is None or p is None:
                if (q is None) != (p is None):
                    raise core.Machinery("replica and batched module differ in %s" % n)
                continue
            k = q.dim() - p.dim()
            if k < 0 or tuple(q.shape[k:]) != tuple(p.shape):
                raise core.Machinery("parameter %s: batched shape %s is not batch + replica shape %s" % (n, tuple(q.shape), tuple(p.shape)))
            Q = tuple(q.shape[:k])
            if Q not in idxmap:
                raise core.Machinery("parameter %s has batch shape %s, expected one of %s" % (n, Q, list(idxmap)))
            p.data = q.data[tuple(idxmap[Q])].clone()
    return rep


def _data(torch, kind, batch, n, g):
    if kind == "index":
        return torch.randint(0, 3, (*batch, n, 1), generator=g).to(torch.float64)
    return torch.rand(*batch, n, DFEAT * (2 if kind == "real2" else 1), generator=g, dtype=torch.float64) * 0.6


def _dense(torch, r):
    return r if torch.is_tensor(r) else r.to_dense()


def _cls(case):
    """cell class of a triple: rank relation between data and parameters, and whether the parameters widen the data batch"""
    import torch
    dd = list(torch.broadcast_shapes(tuple(case["D1"]), tuple(case["D2"])))
    rk = "data-rank>param-rank" if len(dd) > len(case["P"]) else "data-rank<=param-rank"
    wd = "param-widens-batch" if dd != list(case["out"]) else "param-within-data-batch"
    return rk + "/" + wd


def _tri(case):
    return "P=%s D1=%s D2=%s" % (tuple(case["P"]), tuple(case["D1"]), tuple(case["D2"]))


def _compare_elements(torch, out, case, ref_of, tol, what, index_key="b"):
    """out: batched tensor; ref_of(rep) -> replica tensor.  Returns (outcome, detail): outcome None when every element agrees."""
    shape_of = dict(b=case["out"], y=case["y"], p=case["P"])[index_key]
    seen = set()
    first = True
    for rep in case["reps"]:
        idx = tuple(rep[index_key])
        if idx in seen:
            continue
        seen.add(idx)
        ok, ref = core.guarded(ref_of, rep)
        if not ok:
            raise core.Machinery("the non-batched replica failed on %s (%s): %s" % (_tri(case), what, ref))
        if first:
            first = False
            want = tuple(shape_of) + tuple(ref.shape)
            if tuple(out.shape) != want:
                return "shape", "%s has shape %s; batch %s of replicas of shape %s is %s" % (what, tuple(out.shape), tuple(shape_of), tuple(ref.shape), want)
        good, why = core.close(out[idx], ref, *tol)
        if not good:
            return "values", "%s[%s] differs from the replica (parameters[%s], data1[%s], data2[%s]): %s" % (
                what, ",".join(map(str, idx)), ",".join(map(str, rep["p"])), ",".join(map(str, rep["d1"])), ",".join(map(str, rep["d2"])), why)
    return None, ""


def _result(kind, name, mode, case, seed, outcome, detail, n, extra_case=None):
    """one cell = (module, mode, triple).  Signature: C08/<kind>/<module>/<mode>/<rank class>/<widening class>/<raises|shape|values>"""
    key = [kind, name, mode, case["P"], case["D1"], case["D2"]]
    r = dict(key=key, ok=outcome is None, nontrivial=len(case["reps"]) >= 2, n=max(1, n))
    if outcome is not None:
        r["sig"] = "C08/%s/%s/%s/%s/%s" % (kind, name, mode, _cls(case) if kind != "modellist" else "members", outcome)
        r["detail"] = "%s %s %s [%s]: %s" % (kind, name, _tri(case), mode, detail)
        r["case"] = dict(kind=kind, name=name, mode=mode, seed=seed, case={k: v for k, v in case.items() if k != "pred"}, **(extra_case or {}))
    r["cell"] = (name, mode, tuple(case["P"]), tuple(case["D1"]), tuple(case["D2"]))
    return r


# =============================================================================================
# kernels
# =============================================================================================
N3_KERNELS = ("RBF", "Scale(Matern2.5_ARD)", "Linear_ARD", "Index", "RQ")


def kernel_modes(name, case, thorough):
    """full: k(x1, x2); self: k(x1); diag: k(x1, x2', diag=True) with x2' of the shape of x1; diag-self: k(x1, diag=True);
    diag-n3: diag with as many rows as an axis of the batch is long (3)"""
    modes = ["full"]
    if thorough:
        modes.append("full-eager")
    if case["D1"] == case["D2"]:
        modes += ["self", "diag", "diag-self"] + (["diag-n3"] if name in N3_KERNELS else [])
    return modes


def _kernel_eval(torch, k, x1, x2, mode):
    import gpytorch
    if mode == "full":
        return _dense(torch, k(x1, x2))
    if mode == "full-eager":
        with gpytorch.settings.lazily_evaluate_kernels(False):
            return _dense(torch, k(x1, x2))
    if mode == "self":          # no_grad: the exact-zero diagonal of the x1 == x2 path (with grad it carries sqrt(eps) noise)
        with torch.no_grad():
            return _dense(torch, k(x1))
    if mode == "diag-self":
        with torch.no_grad():
            return _dense(torch, k(x1, diag=True))
    return _dense(torch, k(x1, x2, diag=True))


def kernel_cell(torch, name, make, kind, kb, reps_cache, case, mode, seed):
    P, D1, D2 = case["P"], case["D1"], case["D2"]
    g = _gen(torch, seed, "data", name, P, D1, D2, mode)
    n = NCO if mode == "diag-n3" else NPTS
    x1 = _data(torch, kind, D1, n, g)
    x2 = _data(torch, kind, D2, n if mode.startswith("diag") else MPTS, g)
    ok, out = core.guarded(_kernel_eval, torch, kb, x1, x2, mode)
    if not ok:
        # the replicas must be fine, otherwise the harness is at fault
        rep = case["reps"][0]
        ok2, r2 = core.guarded(_kernel_eval, torch, _kernel_replica(torch, make, kb, P, rep["p"], reps_cache), x1[tuple(rep["d1"])], x2[tuple(rep["d2"])], mode)
        if not ok2:
            raise core.Machinery("kernel %s: the non-batched replica fails too on %s [%s]: %s" % (name, _tri(case), mode, r2))
        return _result("kernel", name, mode, case, seed, "raises", "the batched kernel raises %s; every replica evaluates" % out, len(case["reps"]))

    def ref_of(rep):
        kr = _kernel_replica(torch, make, kb, P, rep["p"], reps_cache)
        return _kernel_eval(torch, kr, x1[tuple(rep["d1"])], x2[tuple(rep["d2"])], mode)
    outcome, detail = _compare_elements(torch, out, case, ref_of, KTOL, "K" if not mode.startswith("diag") else "diag(K)")
    return _result("kernel", name, mode, case, seed, outcome, detail, len(case["reps"]))


def _kernel_replica(torch, make, kb, P, p, cache):
    key = tuple(p)
    if key not in cache:
        cache[key] = _copy_state(kb, make(()).double(), {tuple(P): tuple(p), (): ()})
    return cache[key]


def kernel_worker(item):
    torch = core.setup_torch()
    name, P, seed = item["name"], item["P"], item["seed"]
    make, kind = kernel_catalogue()[name][:2]
    ok, kb = core.guarded(lambda: _randomize(torch, make(tuple(P)), _gen(torch, seed, "params", name, P)))
    if not ok:
        raise core.Machinery("cannot construct kernel %s with batch_shape %s: %s" % (name, P, kb))
    cache = {}
    out = []
    for case in item["cases"]:
        for mode in kernel_modes(name, case, item["thorough"]):
            out.append(kernel_cell(torch, name, make, kind, kb, cache, case, mode, seed))
    return out


# =============================================================================================
# means and the Gaussian likelihood (unary: data batch D1 only; cases with D2 = D1)
# =============================================================================================
def mean_catalogue():
    import torch
    from gpytorch import means
    S = torch.Size
    return {"ConstantMean": lambda B: means.ConstantMean(batch_shape=S(B)),
            "ZeroMean": lambda B: means.ZeroMean(batch_shape=S(B)),
            "LinearMean": lambda B: means.LinearMean(DFEAT, batch_shape=S(B)),
            "LinearMean(bias=False)": lambda B: means.LinearMean(DFEAT, batch_shape=S(B), bias=False)}


def mean_worker(item):
    torch = core.setup_torch()
    name, P, seed = item["name"], item["P"], item["seed"]
    make = mean_catalogue()[name]
    mb = _randomize(torch, make(tuple(P)), _gen(torch, seed, "params", name, P))
    out = []
    for case in item["cases"]:
        x = _data(torch, "real", case["D1"], NPTS, _gen(torch, seed, "data", name, P, case["D1"]))
        ok, res = core.guarded(lambda: mb(x))
        if not ok:
            out.append(_result("mean", name, "forward", case, seed, "raises", "the batched mean raises %s" % res, len(case["reps"])))
            continue
        outcome, detail = _compare_elements(
            torch, res, case, lambda rep: _copy_state(mb, make(()).double(), {tuple(P): tuple(rep["p"]), (): ()})(x[tuple(rep["d1"])]), KTOL, "mean(x)")
        out.append(_result("mean", name, "forward", case, seed, outcome, detail, len(case["reps"])))
    return out


def _spd(torch, batch, n, g):
    a = torch.rand(*batch, n, n, generator=g, dtype=torch.float64)
    return a @ a.transpose(-1, -2) / n + 0.5 * torch.eye(n, dtype=torch.float64)


def likelihood_worker(item):
    torch = core.setup_torch()
    from gpytorch.distributions import MultivariateNormal
    from gpytorch.likelihoods import GaussianLikelihood
    P, seed = item["P"], item["seed"]
    name = "GaussianLikelihood"

    def make(B):
        return GaussianLikelihood(batch_shape=torch.Size(B))
    lb = _randomize(torch, make(tuple(P)), _gen(torch, seed, "params", name, P))
    out = []
    for case in item["cases"]:
        D1, Y = case["D1"], case["y"]
        g = _gen(torch, seed, "data", name, P, D1)
        m = torch.randn(*D1, NPTS, generator=g, dtype=torch.float64)
        C = _spd(torch, D1, NPTS, g)
        obs = torch.randn(*Y, NPTS, generator=g, dtype=torch.float64)

        def rl(rep):
            return _copy_state(lb, make(()).double(), {tuple(P): tuple(rep["p"]), (): ()})

        def rd(rep):
            return MultivariateNormal(m[tuple(rep["d1"])], C[tuple(rep["d1"])])

        def bmean(dist):    # the mean of a distribution may be stored un-broadcast: read it against the batch shape of the covariance
            return torch.broadcast_to(dist.mean, dist.covariance_matrix.shape[:-1])
        probes = [
            ("noise_covar", lambda: lb.noise_covar(shape=torch.Size([*D1, NPTS])).to_dense(), lambda rep: rl(rep).noise_covar(shape=torch.Size([NPTS])).to_dense()),
            ("marginal-mean", lambda: bmean(lb(MultivariateNormal(m, C))), lambda rep: rl(rep)(rd(rep)).mean),
            ("marginal-covariance", lambda: lb(MultivariateNormal(m, C)).covariance_matrix, lambda rep: rl(rep)(rd(rep)).covariance_matrix),
            ("log_marginal", lambda: lb.log_marginal(obs, MultivariateNormal(m, C)), lambda rep: rl(rep).log_marginal(obs[tuple(rep["y"])], rd(rep))),
            ("expected_log_prob", lambda: lb.expected_log_prob(obs, MultivariateNormal(m, C)), lambda rep: rl(rep).expected_log_prob(obs[tuple(rep["y"])], rd(rep))),
        ]
        for mode, fb, fr in probes:
            ok, res = core.guarded(fb)
            if not ok:
                out.append(_result("likelihood", name, mode, case, seed, "raises", "the batched likelihood raises %s" % res, len(case["reps"])))
                continue
            outcome, detail = _compare_elements(torch, res, case, fr, KTOL, mode)
            out.append(_result("likelihood", name, mode, case, seed, outcome, detail, len(case["reps"])))
    return out


# =============================================================================================
# exact GP: prior, marginal log likelihood, posterior
# =============================================================================================
def exact_variants():
    import torch
    from gpytorch import kernels as K, means
    S = torch.Size
    d = DFEAT
    return {
        "Constant+Scale(Matern2.5_ARD)": (lambda B: means.ConstantMean(batch_shape=S(B)),
                                          lambda B: K.ScaleKernel(K.MaternKernel(nu=2.5, ard_num_dims=d, batch_shape=S(B)), batch_shape=S(B))),
        "Zero+Scale(RBF)": (lambda B: means.ZeroMean(batch_shape=S(B)), lambda B: K.ScaleKernel(K.RBFKernel(batch_shape=S(B)), batch_shape=S(B))),
        "Linear+Scale(RBF)+Scale(Linear)": (lambda B: means.LinearMean(d, batch_shape=S(B)),
                                            lambda B: K.ScaleKernel(K.RBFKernel(ard_num_dims=d, batch_shape=S(B)), batch_shape=S(B))
                                            + K.ScaleKernel(K.LinearKernel(batch_shape=S(B)), batch_shape=S(B))),
        "Constant+Scale(Periodic*RBF)": (lambda B: means.ConstantMean(batch_shape=S(B)),
                                         lambda B: K.ScaleKernel(K.PeriodicKernel(batch_shape=S(B)) * K.RBFKernel(batch_shape=S(B)), batch_shape=S(B))),
    }


def _exact_model(torch, variant, B, tx, ty):
    import gpytorch
    mean_f, kern_f = exact_variants()[variant]

    class _EGP(gpytorch.models.ExactGP):
        def __init__(self):
            super().__init__(tx, ty, gpytorch.likelihoods.GaussianLikelihood(batch_shape=torch.Size(B)))
            self.mean_module = mean_f(B)
            self.covar_module = kern_f(B)

        def forward(self, x):
            return gpytorch.distributions.MultivariateNormal(self.mean_module(x), self.covar_module(x))
    return _EGP()


def exact_worker(item):
    torch = core.setup_torch()
    import gpytorch
    variant, P, D1, seed = item["variant"], item["P"], item["D1"], item["seed"]
    name = variant
    c0 = item["cases"][0]
    Y = c0["y"]
    g = _gen(torch, seed, "train", variant, P, D1)
    tx = torch.rand(*D1, NTRAIN, DFEAT, generator=g, dtype=torch.float64)
    ty = torch.randn(*Y, NTRAIN, generator=g, dtype=torch.float64)

    def batched():
        return _randomize(torch, _exact_model(torch, variant, tuple(P), tx, ty), _gen(torch, seed, "params", variant, P))

    def replica(mb, rep):
        mr = _exact_model(torch, variant, (), tx[tuple(rep["d1"])], ty[tuple(rep["y"])]).double()
        return _copy_state(mb, mr, {tuple(P): tuple(rep["p"]), (): ()})
    out = []
    # prior and marginal log likelihood (training mode): depend on P and D1 only; elements are indexed by the y index of the case
    ycase = next((c for c in item["cases"] if c["D2"] == c["D1"]), None)
    if ycase is not None:
        mb = batched()
        mb.train()

        def train_side():
            o = mb(tx)
            mll = gpytorch.mlls.ExactMarginalLogLikelihood(mb.likelihood, mb)(o, ty)
            return o.mean, o.covariance_matrix, mll
        ok, res = core.guarded(train_side)

        def rtrain(rep, which):
            mr = replica(mb, rep)
            mr.train()
            rx = tx[tuple(rep["d1"])]
            o = mr(rx)
            if which == 2:
                return gpytorch.mlls.ExactMarginalLogLikelihood(mr.likelihood, mr)(o, ty[tuple(rep["y"])])
            return o.mean if which == 0 else o.covariance_matrix
        for which, mode in enumerate(["prior-mean", "prior-covariance", "mll"]):
            if not ok:
                out.append(_result("exact", name, mode, ycase, seed, "raises", "the batched model raises %s" % res, len(ycase["reps"])))
                continue
            outcome, detail = _compare_elements(torch, res[which], ycase, lambda rep: rtrain(rep, which), MTOL, mode, index_key="y")
            out.append(_result("exact", name, mode, ycase, seed, outcome, detail, len(ycase["reps"])))
    # posterior (eval mode) at test inputs of batch shape D2
    for case in item["cases"]:
        D2 = case["D2"]
        x2 = torch.rand(*D2, NTEST, DFEAT, generator=_gen(torch, seed, "test", variant, P, D1, D2), dtype=torch.float64)
        mb = batched()
        mb.eval()

        def post():
            p = mb(x2)
            return p.mean, p.covariance_matrix, mb.likelihood(p).covariance_matrix
        ok, res = core.guarded(post)

        def rpost(rep, which):
            mr = replica(mb, rep)
            mr.eval()
            p = mr(x2[tuple(rep["d2"])])
            return p.mean if which == 0 else p.covariance_matrix if which == 1 else mr.likelihood(p).covariance_matrix
        for which, mode in enumerate(["posterior-mean", "posterior-covariance", "predictive-covariance"]):
            if not ok:
                out.append(_result("exact", name, mode, case, seed, "raises", "the batched model raises %s" % res, len(case["reps"])))
                continue
            outcome, detail = _compare_elements(torch, res[which], case, lambda rep: rpost(rep, which), MTOL, mode)
            out.append(_result("exact", name, mode, case, seed, outcome, detail, len(case["reps"])))
    return out


# =============================================================================================
# SVGP: q(f) (eval), KL, ELBO.  P = batch shape of the variational distribution and the hyperparameters,
# D1 = batch shape of the inputs, D2 = batch shape of the inducing points (_expand_inputs broadcasts them against the inputs)
# =============================================================================================
def svgp_variants():
    from gpytorch import variational as V
    return {"Cholesky-whitened": (V.CholeskyVariationalDistribution, V.VariationalStrategy),
            "MeanField-whitened": (V.MeanFieldVariationalDistribution, V.VariationalStrategy),
            "Cholesky-unwhitened": (V.CholeskyVariationalDistribution, V.UnwhitenedVariationalStrategy),
            "Delta-whitened": (V.DeltaVariationalDistribution, V.VariationalStrategy)}


def _svgp_model(torch, variant, B, Z):
    import gpytorch
    dist_c, strat_c = svgp_variants()[variant]

    class _SV(gpytorch.models.ApproximateGP):
        def __init__(self):
            vd = dist_c(Z.shape[-2], batch_shape=torch.Size(B))
            super().__init__(strat_c(self, Z, vd, learn_inducing_locations=True))
            self.mean_module = gpytorch.means.ConstantMean(batch_shape=torch.Size(B))
            self.covar_module = gpytorch.kernels.ScaleKernel(gpytorch.kernels.RBFKernel(ard_num_dims=DFEAT, batch_shape=torch.Size(B)), batch_shape=torch.Size(B))

        def forward(self, x):
            return gpytorch.distributions.MultivariateNormal(self.mean_module(x), self.covar_module(x))
    return _SV()


def _svgp_randomize(torch, m, g, Z):
    _randomize(torch, m, g)
    vd = m.variational_strategy._variational_distribution
    if hasattr(vd, "chol_variational_covar"):
        c = vd.chol_variational_covar
        c.data = 0.8 * torch.eye(c.shape[-1], dtype=torch.float64) + 0.2 * torch.tril(torch.rand(c.shape, generator=g, dtype=torch.float64))
    m.variational_strategy.inducing_points.data = Z.clone()
    m.variational_strategy.variational_params_initialized.fill_(1)   # keep the randomised q(u) (no re-initialisation at the first call)
    return m


def svgp_worker(item):
    torch = core.setup_torch()
    import gpytorch
    variant, P, D2, seed = item["variant"], item["P"], item["D2"], item["seed"]
    name = variant
    Z = torch.rand(*D2, NIND, DFEAT, generator=_gen(torch, seed, "Z", variant, P, D2), dtype=torch.float64)

    def make_lik(B):
        return gpytorch.likelihoods.GaussianLikelihood(batch_shape=torch.Size(B))

    def batched():
        g = _gen(torch, seed, "params", variant, P, D2)
        return _svgp_randomize(torch, _svgp_model(torch, variant, tuple(P), Z), g, Z), _randomize(torch, make_lik(tuple(P)), g)

    def replica(mb, lb, rep):
        Zr = Z[tuple(rep["d2"])]
        mr = _svgp_model(torch, variant, (), Zr).double()
        idx = {tuple(P): tuple(rep["p"]), (): ()}
        idx.setdefault(tuple(D2), tuple(rep["d2"]))
        if tuple(D2) == tuple(P) and tuple(rep["d2"]) != tuple(rep["p"]):
            raise core.Machinery("equal shapes with different replica indices")
        _copy_state(mb, mr, idx)
        mr.variational_strategy.inducing_points.data = Zr.clone()
        return mr, _copy_state(lb, make_lik(()).double(), idx)
    out = []
    for case in item["cases"]:
        D1, Out = case["D1"], case["out"]
        g = _gen(torch, seed, "data", variant, P, D1, D2)
        x = torch.rand(*D1, NTRAIN, DFEAT, generator=g, dtype=torch.float64)
        y = torch.randn(*Out, NTRAIN, generator=g, dtype=torch.float64)
        mb, lb = batched()

        def side():
            mb.eval(), lb.eval()
            q = mb(x)
            qm, qc = q.mean, q.covariance_matrix
            # the KL term has the batch shape of what it depends on (P when whitened, broadcast(P, D2) otherwise): read it against Out
            kl = torch.broadcast_to(mb.variational_strategy.kl_divergence(), tuple(Out))
            mb.train(), lb.train()
            elbo = gpytorch.mlls.VariationalELBO(lb, mb, num_data=NUM_DATA)(mb(x), y)
            return qm, qc, kl, elbo
        ok, res = core.guarded(side)

        def rside(rep, which):
            mr, lr = replica(mb, lb, rep)
            if which < 3:
                mr.eval()
                q = mr(x[tuple(rep["d1"])])
                return q.mean if which == 0 else q.covariance_matrix if which == 1 else mr.variational_strategy.kl_divergence()
            mr.train(), lr.train()
            return gpytorch.mlls.VariationalELBO(lr, mr, num_data=NUM_DATA)(mr(x[tuple(rep["d1"])]), y[tuple(rep["b"])])
        for which, (mode, key) in enumerate([("q(f)-mean", "b"), ("q(f)-covariance", "b"), ("kl", "b"), ("elbo", "b")]):
            if not ok:
                out.append(_result("svgp", name, mode, case, seed, "raises", "the batched model raises %s" % res, len(case["reps"])))
                continue
            outcome, detail = _compare_elements(torch, res[which], case, lambda rep: rside(rep, which), MTOL, mode, index_key=key)
            out.append(_result("svgp", name, mode, case, seed, outcome, detail, len(case["reps"])))
    return out


# =============================================================================================
# IndependentModelList / SumMarginalLogLikelihood: members with batch shapes P, D1, D2 (they need not have anything in common)
# =============================================================================================
def modellist_worker(item):
    torch = core.setup_torch()
    import copy
    import gpytorch
    seed = item["seed"]
    out = []
    variant = "Constant+Scale(Matern2.5_ARD)"
    for case in item["cases"]:
        shapes = [case["P"], case["D1"], case["D2"]][:item["members"]]
        g = _gen(torch, seed, "modellist", shapes)
        members, tests = [], []
        for i, B in enumerate(shapes):
            n = NTRAIN + i
            tx = torch.rand(*B, n, DFEAT, generator=g, dtype=torch.float64)
            ty = torch.randn(*B, n, generator=g, dtype=torch.float64)
            members.append(_randomize(torch, _exact_model(torch, variant, tuple(B), tx, ty), g))
            tests.append(torch.rand(*B, NTEST + i, DFEAT, generator=g, dtype=torch.float64))
        fresh = [copy.deepcopy(m) for m in members]              # the members on their own
        ml = gpytorch.models.IndependentModelList(*members)

        def listed():
            ml.train()
            outs = ml(*ml.train_inputs)
            smll = gpytorch.mlls.SumMarginalLogLikelihood(ml.likelihood, ml)(outs, ml.train_targets)
            tr = [(o.mean, o.covariance_matrix) for o in outs]
            ml.eval()
            ev = [(o.mean, o.covariance_matrix) for o in ml(*tests)]
            pv = [(o.mean, o.covariance_matrix) for o in ml.likelihood(*ml(*tests))]
            return tr, smll, ev, pv
        ok, res = core.guarded(listed)
        key_case = dict(case, D1=case["D1"], D2=case["D2"])
        nm = "IndependentModelList[%d]" % len(shapes)
        if not ok:
            out.append(_result("modellist", nm, "outputs", key_case, seed, "raises", "the model list raises %s" % res, len(shapes), dict(members=item["members"])))
            continue
        tr, smll, ev, pv = res
        bad = None
        mlls = []
        for i, m in enumerate(fresh):
            m.train()
            o = m(*m.train_inputs)
            mlls.append(gpytorch.mlls.ExactMarginalLogLikelihood(m.likelihood, m)(o, m.train_targets))
            m.eval()
            p = m(tests[i])
            lp = m.likelihood(p)
            for what, got, want in (("train-mode mean", tr[i][0], o.mean), ("train-mode covariance", tr[i][1], o.covariance_matrix),
                                    ("posterior mean", ev[i][0], p.mean), ("posterior covariance", ev[i][1], p.covariance_matrix),
                                    ("predictive covariance", pv[i][1], lp.covariance_matrix)):
                good, why = core.close(got, want, *MTOL)
                if not good and bad is None:
                    bad = "member %d (batch shape %s): %s of the list differs from the member on its own: %s" % (i, tuple(shapes[i]), what, why)
        out.append(_result("modellist", nm, "outputs", key_case, seed, None if bad is None else "values", bad or "", 5 * len(shapes), dict(members=item["members"])))
        # SumMarginalLogLikelihood = mean of the members' mlls (element b: every member read at its un-broadcast index)
        bad = None
        if len(shapes) == 3:
            if tuple(smll.shape) != tuple(case["out"]):
                bad = ("shape", "SumMarginalLogLikelihood has shape %s, the members' batch shapes broadcast to %s" % (tuple(smll.shape), tuple(case["out"])))
            else:
                for rep in case["reps"]:
                    want = (mlls[0][tuple(rep["p"])] + mlls[1][tuple(rep["d1"])] + mlls[2][tuple(rep["d2"])]) / 3
                    good, why = core.close(smll[tuple(rep["b"])], want, *MTOL)
                    if not good:
                        bad = ("values", "element %s is not the mean of the members' marginal log likelihoods: %s" % (rep["b"], why))
                        break
        else:
            want = sum(mlls) / len(mlls)
            good, why = core.close(smll, want, *MTOL)
            if not good:
                bad = ("values", "not the mean of the members' marginal log likelihoods: %s" % why)
        out.append(_result("modellist", nm, "sum-mll", key_case, seed, bad and bad[0], bad[1] if bad else "", len(case["reps"]), dict(members=item["members"])))
    return out


# =============================================================================================
# oracle-side self check: the spec's algebra against torch itself (a disagreement is a machinery failure)
# =============================================================================================
def selfcheck_worker(item):
    torch = core.setup_torch()
    for P, D1, D2 in item["rejected"]:
        try:
            s = torch.broadcast_shapes(tuple(P), tuple(D1), tuple(D2))
        except RuntimeError:
            continue
        return [dict(machinery="Shapes.tla rejects P=%s D1=%s D2=%s but torch broadcasts them to %s" % (P, D1, D2, tuple(s)))]
    n = 0
    for case in item["cases"]:
        shapes = dict(p=case["P"], d1=case["D1"], d2=case["D2"], y=case["y"])
        try:
            s = list(torch.broadcast_shapes(*[tuple(shapes[k]) for k in ("p", "d1", "d2")]))
        except RuntimeError:
            s = None
        if s != case["out"]:
            return [dict(machinery="Shapes.tla broadcasts %s to %s, torch to %s" % (_tri(case), case["out"], s))]
        if list(torch.broadcast_shapes(tuple(case["P"]), tuple(case["D1"]))) != case["y"]:
            return [dict(machinery="Shapes.tla: y of %s is %s" % (_tri(case), case["y"]))]
        views = {}
        for k, sh in shapes.items():
            numel = 1
            for v in sh:
                numel *= v
            lab = torch.arange(numel).reshape(tuple(sh))
            views[k] = (lab, lab.expand(tuple(case["out"])))
        for rep in case["reps"]:
            for k, (lab, view) in views.items():
                if int(view[tuple(rep["b"])]) != int(lab[tuple(rep[k])]):
                    return [dict(machinery="Shapes.tla: un-broadcast index of b=%s into %s=%s is %s, torch.expand shows another element" % (
                        rep["b"], k, shapes[k], rep[k]))]
            n += 1
    return [dict(key=["selfcheck", item["i"]], ok=True, nontrivial=False, n=n)]


# =============================================================================================
WORKERS = dict(kernel=kernel_worker, mean=mean_worker, likelihood=likelihood_worker, exact=exact_worker, svgp=svgp_worker,
               modellist=modellist_worker, selfcheck=selfcheck_worker)


def _dispatch(item):
    return WORKERS[item["kind"]](item)


def _group(cases, keys):
    out = {}
    for c in cases:
        out.setdefault(tuple(tuple(c[k]) for k in keys), []).append(c)
    return out


def run(ck):
    thorough = ck.tier == "thorough"
    core.setup_torch()
    import random
    ck.rule = ("cases = every (parameter batch shape P, data batch shapes D1, D2) of rank 0..2 over sizes {1,2,3} that broadcasts (TLC, exhaustive), "
               "times every element b of the broadcast batch, times every batch-capable module and evaluation mode; one evaluation = one element "
               "of a batched output compared with its non-batched replica; distinct = distinct (module, mode, P, D1, D2); non-trivial = the "
               "broadcast batch has at least two elements (cross-talk is observable)")
    ck.assumptions = [
        "replica = a freshly constructed non-batched module of the same class holding slice ShUnb(b, P) of every parameter and buffer "
        "(a parameter of a sub-module built without batch shape is shared), applied to slices ShUnb(b, D1), ShUnb(b, D2) of the data",
        "parameters are set on the raw tensors (uniform in (-1, 1), distinct in every batch element); float64; tolerance 1e-10 for kernels, means "
        "and the likelihood, 1e-7 relative + 1e-9 absolute for prior / posterior / mll / q(f) / KL / ELBO",
        "exact GP: P = batch shape of mean, kernel and likelihood, D1 = batch shape of the training inputs, D2 = of the test inputs; the targets "
        "have batch shape broadcast(P, D1)",
        "SVGP: P = batch shape of the variational distribution and the hyperparameters, D1 = of the inputs, D2 = of the inducing points; the "
        "KL term is stored with the batch shape of what it depends on and is compared after broadcasting it to the output batch",
        "the mean of a likelihood marginal may be stored un-broadcast; it is compared after broadcasting it to the batch shape of the covariance",
        "k(x1) and k(x1, diag=True) (x2 omitted) are evaluated under no_grad: with parameters that require grad the zero distance of a point "
        "to itself carries sqrt(eps) rounding noise (1e-8) in non-squared-distance kernels, batched or not",
        "IndependentModelList: the three members have batch shapes P, D1, D2; SumMarginalLogLikelihood broadcasts their mlls",
        "derivative kernels (RBFKernelGrad, ...), structured kernels (Grid*, InducingPoint), HammingIMQ and the deprecated last_dim_is_batch "
        "kernels are not claimed batch-broadcast capable and are not replayed",
    ]
    ck.exhaustive = thorough
    ck.explanation = ("TLC enumerates the 2197 triples exhaustively in both tiers (1021 broadcast, 1176 are rejected); thorough replays every module "
                      "and mode on every triple and every element, quick does so for %d kernels, the means and the likelihood, and replays the "
                      "other kernels and the models on a seeded subset of the triples (every element of each)" % len(QUICK_FULL_KERNELS))
    import time
    timing = {}
    t0 = time.time()
    cases, rejected, preds = run_tlc(ck)
    timing["tlc"] = round(time.time() - t0, 1)
    ck.section("tlc", broadcastable_triples=len(cases), rejected_triples=len(rejected), elements=sum(len(c["reps"]) for c in cases))
    seed = ck.seed
    rnd = random.Random(seed)
    seeds = [seed * 1000 + s for s in range(3 if thorough else 1)]
    items = []
    chunk = (len(cases) + 7) // 8
    for i in range(0, len(cases), chunk):
        items.append(dict(kind="selfcheck", i=i, cases=cases[i:i + chunk], rejected=rejected if i == 0 else []))
    unary = [c for c in cases if c["D1"] == c["D2"]]

    def some(cs, frac):
        return cs if thorough else [c for c in cs if rnd.random() < frac]
    for si, s in enumerate(seeds):
        for name in kernel_catalogue():
            cs_k = cases if (name in QUICK_FULL_KERNELS and si == 0) or (thorough and si == 0) else some(cases, 0.15) if not thorough else \
                [c for c in cases if rnd.random() < 0.3]
            for (P,), cs in _group(cs_k, ["P"]).items():
                items.append(dict(kind="kernel", name=name, P=list(P), seed=s, cases=cs, thorough=thorough))
        for name in mean_catalogue():
            for (P,), cs in _group(unary, ["P"]).items():
                items.append(dict(kind="mean", name=name, P=list(P), seed=s, cases=cs))
        for (P,), cs in _group(unary, ["P"]).items():
            items.append(dict(kind="likelihood", P=list(P), seed=s, cases=cs))
    ev = list(exact_variants())
    sv = list(svgp_variants())
    for vi, variant in enumerate(ev if thorough else ev[:1]):
        for (P, D1), cs in _group(cases, ["P", "D1"]).items():
            cs = [c for c in cs if thorough or c["D1"] == c["D2"] or rnd.random() < 0.3]
            if cs:
                items.append(dict(kind="exact", variant=variant, P=list(P), D1=list(D1), seed=seeds[0], cases=cs))
    for vi, variant in enumerate(sv if thorough else sv[:1]):
        for (P, D2), cs in _group(some(cases, 0.3), ["P", "D2"]).items():
            items.append(dict(kind="svgp", variant=variant, P=list(P), D2=list(D2), seed=seeds[0], cases=cs))
    sub = some(cases, 0.1)
    for i in range(0, len(sub), 8):
        items.append(dict(kind="modellist", members=3, seed=seeds[0], cases=sub[i:i + 8]))
    items.append(dict(kind="modellist", members=1, seed=seeds[0], cases=sub[:8]))
    items.append(dict(kind="modellist", members=2, seed=seeds[0], cases=sub[8:24]))
    rnd.shuffle(items)
    t0 = time.time()
    results = core.pmap(_dispatch, items, chunksize=1)
    timing["replay"] = round(time.time() - t0, 1)
    # prediction (Batch.tla sites) against observation, per (kernel, mode, triple)
    pred_of = {(tuple(c["P"]), tuple(c["D1"]), tuple(c["D2"])): c["pred"] for c in cases}
    conf = {}
    counts = {}
    for r in results:
        cell = r.pop("cell", None)
        if r.get("machinery") or cell is None:
            continue
        kind = r["key"][0]
        d = counts.setdefault(kind, dict(cells=0, element_comparisons=0, failing_cells=0))
        d["cells"] += 1
        d["element_comparisons"] += r.get("n", 1)
        d["failing_cells"] += 0 if r["ok"] else 1
        if kind != "kernel":
            continue
        name, mode, P, D1, D2 = cell
        sites = kernel_sites(name, mode)
        bad_sites = [s for s in sites if pred_of[(P, D1, D2)][s] != "ok"
                     # diag of k(x, x): the distance is exactly 0 and a mis-aligned alpha cannot change a value, only the shape
                     and not (mode == "diag-self" and s == "rq_alpha_diag" and pred_of[(P, D1, D2)][s] == "values")]
        for s in (bad_sites or ["<no site predicts a failure>"]):
            e = conf.setdefault(s, dict(predicted_and_failed=0, predicted_but_passed=0, unpredicted_failure=0, examples=[]))
            if bad_sites and not r["ok"]:
                e["predicted_and_failed"] += 1
            elif bad_sites:
                e["predicted_but_passed"] += 1
                if len(e["examples"]) < 3:
                    e["examples"].append("%s [%s] P=%s D1=%s D2=%s passes" % (name, mode, P, D1, D2))
            elif not r["ok"]:
                e["unpredicted_failure"] += 1
                if len(e["examples"]) < 3:
                    e["examples"].append("%s [%s] P=%s D1=%s D2=%s fails: %s" % (name, mode, P, D1, D2, r["sig"]))
    for s, e in conf.items():
        if e["predicted_but_passed"] or e["unpredicted_failure"]:
            ck.model_drift("Batch.tla site model %s and the code disagree: %d predicted failures pass, %d failures are not predicted; %s" % (
                s, e["predicted_but_passed"], e["unpredicted_failure"], "; ".join(e["examples"])))
    for s in preds:
        preds[s]["replay"] = {k: v for k, v in conf.get(s, {}).items() if k != "examples"}
    ck.extra["site_predictions"] = preds
    sigs = {}
    for r in results:
        if not r.get("ok", True) and r.get("sig"):
            k = "/".join(r["sig"].split("/")[:4])
            sigs[k] = sigs.get(k, 0) + 1
    ck.extra["failing_cells_by_module_and_mode"] = sigs
    ck.extra["timing_s"] = timing
    for kind, d in counts.items():
        ck.section(kind, **d)
    for need in ("kernel", "mean", "likelihood", "exact", "svgp", "modellist"):
        if not counts.get(need, {}).get("cells"):
            ck.vacuous("no %s cell was replayed" % need)
    # samples: a broadcasting case with its replica indices
    shown = 0
    for r in results:
        if shown < 3 and r.get("ok") and r.get("nontrivial") and r["key"][0] in ("kernel", "exact", "svgp"):
            k = r["key"]
            c = next(c for c in cases if c["P"] == k[3] and c["D1"] == k[4] and c["D2"] == k[5])
            if c["P"] != c["out"] and len(c["reps"]) >= 4:
                r["sample"] = dict(module=k[1], kind=k[0], mode=k[2], P=k[3], D1=k[4], D2=k[5], out=c["out"],
                                   replicas=[dict(b=x["b"], params=x["p"], data1=x["d1"], data2=x["d2"]) for x in c["reps"][:6]])
                shown += 1
    ck.absorb(results)


def replay(rep):
    torch = core.setup_torch()
    c = rep["case"]
    case = dict(c["case"])
    case.setdefault("pred", {})
    kind, name, seed = c["kind"], c["name"], c["seed"]
    if kind == "kernel":
        make, dk = kernel_catalogue()[name][:2]
        kb = _randomize(torch, make(tuple(case["P"])), _gen(torch, seed, "params", name, case["P"]))
        res = [kernel_cell(torch, name, make, dk, kb, {}, case, c["mode"], seed)]
    elif kind == "mean":
        res = mean_worker(dict(name=name, P=case["P"], seed=seed, cases=[case]))
    elif kind == "likelihood":
        res = likelihood_worker(dict(P=case["P"], seed=seed, cases=[case]))
    elif kind == "exact":
        ycase = dict(case, D2=case["D1"]) if c["mode"] in ("prior-mean", "prior-covariance", "mll") else case
        res = exact_worker(dict(variant=name, P=case["P"], D1=case["D1"], seed=seed, cases=[ycase]))
    elif kind == "svgp":
        res = svgp_worker(dict(variant=name, P=case["P"], D2=case["D2"], seed=seed, cases=[case]))
    elif kind == "modellist":
        res = modellist_worker(dict(members=c.get("members", 3), seed=seed, cases=[case]))
    else:
        print("MACHINERY-FAILURE unknown replay kind", kind)
        return 2
    bad = [r for r in res if not r.get("ok", True) and (r["key"][2] == c["mode"] or kind == "modellist")]
    for r in bad:
        print("VIOLATION property=C08 replay=- :: %s :: %s" % (r["sig"], r["detail"]))
    if not bad:
        print("replay passed")
    return 1 if bad else 0
