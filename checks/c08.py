"""C08 - batch mode = independent replicas (no cross-talk between batch elements).
Spec: Batch.tla (+ Shapes.tla).  TLC enumerates every (parameter batch P, data batch D1, data batch D2) of rank 0..2 over
sizes {1,2,3}, checks the broadcasting algebra and the code-shaped parameter alignments, and dumps for every broadcastable
triple every output element b with its replica indices; the replay compares element b of the batched object with the
non-batched replica (parameter slice p applied to data slices d1, d2).
Kernel structure: the same triple read as (A, B, D) places two parameter batch shapes on the nodes of a composite kernel
(A = () / B = (): the composite inherits its batch shape from a sub-kernel); size coincidences: every case is replayed with a generic
number of rows and with the number of rows equal to the feature size and to the size of every batch axis (Shapes.tla ShCoClass).
Model lists: TLC enumerates every sequence of member kinds (homogeneous and heterogeneous).
Objectives: TLC enumerates every constructible configuration (objective class of gpytorch.mlls x likelihood / noise model x priors x added
loss term x combine_terms); each is replayed on the triple lattice and element b of every term is compared in value with the replica.
Missing observations: the NaN policy (settings.observation_nan_policy) is a dimension of the replica lattice; TLC enumerates the per-element
patterns of missing entries of every batch shape (same in every element / different / one element complete; varying along either batch axis)
and the replay compares element b with the non-batched replica on the b-th slice with the entries deleted that the policy drops from b
(fill: its own; mask: the documented union over the batch)."""
import os
import re
import zlib
from concurrent.futures import ThreadPoolExecutor

from harness import core, tlc

LEVEL = "model_checking"
PID = "C08"

NPTS, MPTS, DFEAT = 4, 3, 2                  # rows of x1 / x2 (generic: NPTS is the size of no batch axis), feature dimension
MAXMEMBERS = 3                               # longest model list
# rejected variants of the code that the lattice must be able to tell from the code (Batch.tla Variants): the diag heuristic counting
# the batch axes of what the node OWNS instead of the kernel's batch shape; get_fantasy_model carrying a noise entry over a None entry
# the normaliser of an objective reading the size of the whole batched tensor (numel) instead of the replica's number of points
# nan_shared_mask: a 'fill' branch of the NaN policy that takes its mask with the helper of the 'mask' branch (any over the whole batch)
VARIANTS = {"diag_own_batch", "fantasy_noise_carry", "norm_numel", "nan_shared_mask"}
NTRAIN, NTEST, NIND, NUM_DATA = 5, 3, 3, 17
NOBS = NTRAIN                                # Batch.tla NObs: observations of one replica in the missing-observation family
KTOL = (1e-10, 1e-10)                        # kernels / means / likelihood: rtol, atol
MTOL = (1e-7, 1e-9)                          # posterior / mll / elbo

# Site families of Batch.tla whose REPAIRED arithmetic the model should transcribe.  Empty = the arithmetic of the pinned commit, for
# which TLC predicts failures (MODEL-DRIFT lines) that the replay confirms.  When a fix lands in /repo add its family here so that the
# model follows the code: "rq_alpha" (RQKernel.forward), "const_kernel" (ConstantKernel.forward), "call_diag" (Kernel.__call__ diag
# heuristic), "multitask" (MultitaskKernel.forward repeat), "obj_prior" (the reduction of the log prior terms in
# ExactMarginalLogLikelihood._add_other_terms and _ApproximateMarginalLogLikelihood.forward).
REPAIRED = set(filter(None, os.environ.get("VERIF_C08_REPAIRED", "rq_alpha,const_kernel,call_diag").split(",")))  # fix: commits for RQ alpha and ConstantKernel are in /repo

SITES = ["lengthscale_x1", "lengthscale_x2", "outputscale_full", "outputscale_diag", "rq_alpha_full", "rq_alpha_diag",
         "constant_mean", "linear_mean_weights", "linear_mean_bias", "noise", "const_kernel_full", "const_kernel_diag",
         "var_inducing_values", "multitask_task_covar", "call_diag", "call_diag_n1", "call_diag_n2", "call_diag_n3", "call_diag_ignored",
         "norm_exact_mll", "norm_loo", "norm_approx", "prior_exact_ev0", "prior_exact_ev1", "prior_exact_ev2", "prior_approx"]
OBJ_CLASSES = ("exact_mll", "loo", "elbo", "pll", "gamma_elbo")           # Batch.tla ObjClasses


# =============================================================================================
# TLC
# =============================================================================================
STRUCTS = ["scale(leaf)", "sum(leaf,leaf)", "prod(leaf,leaf)", "sum(scale(leaf),leaf)", "prod(scale(leaf),leaf)", "scale(scale(leaf))",
           "scale(sum(leaf,leaf))", "sum(scale(prod(leaf,leaf)),leaf)"]             # Batch.tla StructNames
STRUCT_SPLIT = [STRUCTS[0:3] + STRUCTS[5:6], STRUCTS[3:5] + STRUCTS[6:8]]           # two structure runs of about the same cost


ALLROWS = False       # thorough tier: the structure predictions of Batch.tla range over every row count, not only over those the case is replayed with


def write_cfg(workdir, name, sites, invariants, family="triple", struct=()):
    os.makedirs(workdir, exist_ok=True)
    cfg = os.path.join(workdir, "Batch_%s.cfg" % name)
    tlc.write_cfg(cfg, spec="Spec", constants={"Dims": {1, 2, 3}, "MaxRank": 2, "NPts": NPTS, "MPts": MPTS, "DFeat": DFEAT,
                                               "NObs": NOBS, "Family": family, "WithStruct": bool(struct), "CheckStructs": set(struct), "AllRows": bool(ALLROWS), "MaxMembers": MAXMEMBERS,
                                               "Variants": set(VARIANTS),
                                               "CheckSites": set(sites), "Repaired": set(REPAIRED)}, invariants=invariants)
    return cfg


def _t(x):
    return [int(v) for v in x]


# every state is an initial state and the only action is a stutter: TLC's -coverage has nothing to report and makes the evaluation of the
# recursive operators of the structure section several times slower
NOCOV = dict(coverage=False)
STRUCT_INVARIANTS = ["StructBatchIsBroadcast", "CoincidencesCovered", "StructAligned", "HeuristicNeedsCoincidence"]


def run_tlc(ck):
    """Returns (cases, rejected, predictions, list configurations, objective configurations).  Generation, structure, model-list, objective,
    algebra and per-site alignment runs."""
    global ALLROWS
    ALLROWS = ck.tier == "thorough"
    wd = os.path.join(tlc.BUILD, PID, "mc")
    with ThreadPoolExecutor(max_workers=4) as ex:
        # kernel structure + size coincidences (the triple read as (A, B, D)): -continue so that the dump is complete when the model of the
        # code predicts a failing cell (StructAligned), which is then a prediction for the replay like a failing site
        f_str = [ex.submit(tlc.run, "Batch", write_cfg(wd, "struct%d" % i, [], STRUCT_INVARIANTS, struct=part), name=PID + "/struct%d" % i, dump=True,
                           check=False, workers=1, timeout=900, extra=["-continue"], **NOCOV) for i, part in enumerate(STRUCT_SPLIT)]
        f_alg = ex.submit(tlc.run, "Batch", write_cfg(wd, "algebra", [], ["Algebra", "CoincidencesCovered"]), name=PID + "/algebra", check=False, workers=2, timeout=900, **NOCOV)
        gen = tlc.run("Batch", write_cfg(wd, "gen", [], ["RepsComplete", "ListIndependent", "ObjectivesWellFormed", "NormVariantNeedsBatch", "MissingObservations"], family="both"), name=PID + "/gen", dump=True, check=False,
                      workers=2, timeout=900, **NOCOV)
        ck.add_tlc(gen, "Batch gen (every triple, every b, replica indices, site predictions, row counts with their coincidence classes; every sequence of member kinds of a model list; every configuration of an objective; every pattern of missing observations of every batch shape with the entries each NaN policy drops from every element)")
        if gen.violation is not None or gen.rc != 0:
            raise tlc.TLCError("Batch.tla generation run failed (%s):\n%s" % ((gen.violation or {}).get("name"), gen.stdout[-1500:]))
        cases, rejected, configs, objectives, nans = [], [], [], [], []
        for st in gen.states():
            c = st["c"]
            if "miss" in c:          # missing observations: a pattern over the elements of a batch shape and what every policy drops from every element
                fill_sites = [k for k in c["code"] if str(k).startswith("fill/")]
                nans.append(dict(Y=_t(c["nanY"]), place=str(c["place"]), P=_t(c["P"]), D1=_t(c["D1"]), miss=[sorted(int(i) for i in m) for m in c["miss"]],
                                 cls=str(c["class"]), vary=sorted(int(k) for k in c["vary"]),
                                 drop={str(pol): [sorted(int(i) for i in m) for m in d] for pol, d in c["drop"].items()},
                                 sites=sorted(str(k) for k in c["code"]),
                                 variant_differs=any(tuple(c["vcode"][k]) != tuple(c["drop"]["fill"]) for k in fill_sites)))
                continue
            if "obj" in c:           # objectives: a configuration with its terms and the sites that transcribe its arithmetic
                o = c["obj"]
                objectives.append(dict(cls=str(o["cls"]), lik=str(o["lik"]), prior=bool(o["prior"]), added=str(o["added"]), combine=bool(o["combine"]),
                                       terms=sorted(str(t) for t in c["terms"]), sites=sorted(str(t) for t in c["sites"])))
                continue
            if "kinds" in c:         # model lists: a sequence of member kinds (output i of every operation reads member i only)
                configs.append(dict(kinds=[str(k) for k in c["kinds"]], noise=_t(c["noise"]), hetero=bool(c["hetero"]),
                                    variant_leaks=any(set(d) != {i + 1} for op in c["vdeps"].values() for i, d in enumerate(op))))
                continue
            if not c["ok"]:
                rejected.append([_t(c["P"]), _t(c["D1"]), _t(c["D2"])])
                continue
            cases.append(dict(P=_t(c["P"]), D1=_t(c["D1"]), D2=_t(c["D2"]), out=_t(c["out"]), y=_t(c["y"]),
                              reps=[dict(b=_t(r["b"]), p=_t(r["p"]), d1=_t(r["d1"]), d2=_t(r["d2"]), y=_t(r["y"])) for r in c["reps"]],
                              pred={str(k): str(v) for k, v in c["pred"].items()},
                              vnorm={str(k): str(v) for k, v in c["vnorm"].items()},
                              rows=[dict(n=int(r["n"]), batch=bool(r["batch"]), co=_co_label(r)) for r in c["rows"]]))
        if not cases or not rejected:
            ck.vacuous("Batch.tla produced %d broadcastable and %d rejected triples" % (len(cases), len(rejected)))
        if cases and sorted(cases[0]["pred"]) != sorted(SITES):
            raise core.Machinery("site names of Batch.tla and checks/c08.py differ: %s" % sorted(cases[0]["pred"]))
        failing = {s: [c for c in cases if c["pred"][s] != "ok"] for s in SITES}
        clean = [s for s in SITES if not failing[s]]
        futs = {"<all sites predicted clean>": ex.submit(tlc.run, "Batch", write_cfg(wd, "sites_clean", clean, ["SitesAligned"]),
                                                         name=PID + "/sites_clean", check=False, workers=2, timeout=900, **NOCOV)}
        for s in SITES:
            if failing[s]:
                futs[s] = ex.submit(tlc.run, "Batch", write_cfg(wd, "site_" + s, [s], ["SitesAligned"]), name=PID + "/site_" + s,
                                    check=False, workers=2, timeout=900, **NOCOV)
        # ---- model lists
        configs.sort(key=lambda c: (len(c["kinds"]), c["kinds"]))
        if not any(c["variant_leaks"] for c in configs) or not any(c["hetero"] for c in configs):
            ck.vacuous("Batch.tla model lists: no configuration of member kinds tells the variant fantasy_noise_carry from the code (%d configurations)" % len(configs))
        # ---- missing observations
        nans.sort(key=lambda c: (c["Y"], c["place"], c["miss"]))
        if not nans or sorted(set(c["cls"] for c in nans)) != sorted(NAN_CLASSES) or not any(c["variant_differs"] for c in nans) \
                or sorted(set(pol for c in nans for pol in c["drop"])) != sorted(NAN_POLICIES):
            ck.vacuous("Batch.tla missing observations: %d patterns, classes %s; no pattern tells the variant nan_shared_mask from the code" % (
                len(nans), sorted(set(c["cls"] for c in nans))))
        # ---- objectives
        objectives.sort(key=obj_name)
        if sorted(set(o["cls"] for o in objectives)) != sorted(OBJ_CLASSES):
            raise core.Machinery("the objective classes of checks/c08.py and Batch.tla ObjClasses differ: %s" % sorted(set(o["cls"] for o in objectives)))
        for cl in OBJ_CLASSES:
            if not any(c["vnorm"][cl] != "ok" and len(c["reps"]) >= 2 for c in cases):
                ck.vacuous("Batch.tla objectives: no triple tells the variant norm_numel from the code for %s" % cl)
        # ---- kernel structure
        by = {(tuple(c["P"]), tuple(c["D1"]), tuple(c["D2"])): c for c in cases}
        for c in cases:
            c["sbad"], c["vbad"] = [], []
        viol = set()
        for i, f in enumerate(f_str):
            stt = f.result()
            ck.add_tlc(stt, "Batch kernel structure %d/%d (composite kernels with own / inherited batch shapes x row counts of every coincidence class): %s" % (
                i + 1, len(f_str), ", ".join(STRUCT_SPLIT[i])))
            if stt.rc != 0 and stt.violation is None:
                raise tlc.TLCError("TLC failed on the structure run:\n%s" % stt.stdout[-1500:])
            viol |= set(re.findall(r"Error: Invariant (\w+) is violated", stt.stdout))
            if viol - {"StructAligned"}:
                raise tlc.TLCError("Batch.tla: %s violated:\n%s" % (sorted(viol), stt.stdout[-1500:]))
            seen = 0
            for st in stt.states():
                c = st["c"]
                if not c["ok"]:
                    continue
                seen += 1
                k = by[(tuple(_t(c["P"])), tuple(_t(c["D1"])), tuple(_t(c["D2"])))]
                k["sbad"] = sorted(k["sbad"] + [[str(x[0]), str(x[1]), int(x[2]), str(x[3])] for x in c["sbad"]])
                k["vbad"] = sorted(k["vbad"] + [[str(x[0]), str(x[1]), int(x[2]), str(x[3])] for x in c["vbad"]])
            if seen != len(cases):
                raise core.Machinery("the structure run dumped %d broadcastable triples, the generation run %d" % (seen, len(cases)))
        if sorted(x for part in STRUCT_SPLIT for x in part) != sorted(STRUCTS) or set(v[1] for v in struct_catalogue().values()) != set(STRUCTS):
            raise core.Machinery("the structures of checks/c08.py and Batch.tla StructNames differ")
        nsb = sum(1 for c in cases if c["sbad"])
        if bool(nsb) != ("StructAligned" in viol):
            raise tlc.TLCError("TLC and the dumped structure predictions disagree on StructAligned")
        if nsb:
            ex0 = next(c for c in cases if c["sbad"])
            ck.model_drift("Batch.tla: the model of the current code violates StructAligned on %d of %d triples, e.g. (A, B, D) = %s %s %s: %s - a prediction "
                           "the replay has to confirm" % (nsb, len(cases), ex0["P"], ex0["D1"], ex0["D2"], ex0["sbad"][:3]))
        nvb = sum(1 for c in cases if c["vbad"] != [x for x in c["sbad"] if x[1] in ("diag", "lazydiag")])      # (the variants touch the diag modes only)
        if not nvb and "call_diag" in REPAIRED:      # (the heuristic of the pinned commit reads no batch shape of the kernel: the variant is the code)
            ck.vacuous("Batch.tla kernel structure: no (structure, A, B, D, rows) cell tells the variant diag_own_batch from the code")
        ck.section("tlc", structure_triples_where_variant_diag_own_batch_differs=nvb, structure_triples_predicted_failing=nsb,
                   list_configurations=len(configs), list_configurations_where_variant_fantasy_noise_carry_leaks=sum(c["variant_leaks"] for c in configs),
                   objective_configurations=len(objectives), missing_observation_patterns=len(nans),
                   missing_observation_patterns_where_variant_nan_shared_mask_differs=sum(c["variant_differs"] for c in nans),
                   triples_where_variant_norm_numel_differs=sum(1 for c in cases if any(v != "ok" for v in c["vnorm"].values())))
        alg = f_alg.result()
        ck.add_tlc(alg, "Batch algebra invariants")
        if alg.violation is not None or alg.rc != 0:
            raise tlc.TLCError("the broadcasting algebra of Shapes.tla / Batch.tla is inconsistent (%s):\n%s" % (
                (alg.violation or {}).get("name"), alg.stdout[-1500:]))
        preds = {}
        for s, f in futs.items():
            r = f.result()
            ck.add_tlc(r, "Batch site alignment: " + s)
            if r.violation is None and r.rc != 0:
                raise tlc.TLCError("TLC failed on site run %s:\n%s" % (s, r.stdout[-1500:]))
            if s.startswith("<"):
                if r.violation is not None:
                    raise tlc.TLCError("TLC and the dumped predictions disagree on the clean sites")
                continue
            if r.violation is None:
                raise tlc.TLCError("TLC and the dumped predictions disagree on site " + s)
            kinds = sorted(set(c["pred"][s] for c in failing[s]))
            preds[s] = dict(predicted_failing_triples=len(failing[s]), outcomes=kinds,
                            first_counterexample=dict(P=failing[s][0]["P"], D1=failing[s][0]["D1"], D2=failing[s][0]["D2"], outcome=failing[s][0]["pred"][s]))
            ck.model_drift("Batch.tla: site %s (model of the current code) violates SitesAligned on %d of %d triples (predicted %s), e.g. P=%s D1=%s D2=%s "
                           "- a prediction the replay has to confirm" % (s, len(failing[s]), len(cases), "/".join(kinds),
                                                                         failing[s][0]["P"], failing[s][0]["D1"], failing[s][0]["D2"]))
    return cases, rejected, preds, configs, objectives, nans


def obj_name(o):
    """loo(gaussian), elbo(student_t,prior,terms), exact_mll(hetero,prior,noise_model)"""
    return "%s(%s%s%s%s)" % (o["cls"], o["lik"], ",prior" if o["prior"] else "", "," + o["added"] if o["added"] != "none" else "",
                             "" if o["combine"] else ",terms")


def _co_label(r):
    """coincidence class of a row count (Shapes.tla ShCoClass over the broadcast batch + `batch`: any axis of P, D1, D2)"""
    co = r["co"]
    lab = []
    if co["rows"]:
        lab.append("n=axis" + ",".join(str(k) for k in sorted(co["rows"])))
    elif r["batch"]:
        lab.append("n=inner-axis")
    if co["rowsfeat"]:
        lab.append("n=d")
    if co["square"]:
        lab.append("n=m")
    return "+".join(lab) or "generic"


# =============================================================================================
# catalogue of batch-capable modules
# =============================================================================================
def kernel_catalogue():
    import torch
    from gpytorch import kernels as K
    d = DFEAT
    S = torch.Size
    cat = {
        # name: (factory(batch_shape), data kind); @b = built with the batch shape, @1 = built without (shared by all batch elements)
        "RBF": (lambda B: K.RBFKernel(batch_shape=S(B)), "real"),
        "RBF_ARD": (lambda B: K.RBFKernel(ard_num_dims=d, batch_shape=S(B)), "real"),
        "Matern0.5_ARD": (lambda B: K.MaternKernel(nu=0.5, ard_num_dims=d, batch_shape=S(B)), "real"),
        "Matern1.5_ARD": (lambda B: K.MaternKernel(nu=1.5, ard_num_dims=d, batch_shape=S(B)), "real"),
        "Matern2.5_ARD": (lambda B: K.MaternKernel(nu=2.5, ard_num_dims=d, batch_shape=S(B)), "real"),
        "RQ": (lambda B: K.RQKernel(batch_shape=S(B)), "real"),
        "RQ_ARD": (lambda B: K.RQKernel(ard_num_dims=d, batch_shape=S(B)), "real"),
        "Periodic": (lambda B: K.PeriodicKernel(batch_shape=S(B)), "real"),
        "Periodic_ARD": (lambda B: K.PeriodicKernel(ard_num_dims=d, batch_shape=S(B)), "real"),
        "Cosine": (lambda B: K.CosineKernel(batch_shape=S(B)), "real"),
        "Linear": (lambda B: K.LinearKernel(batch_shape=S(B)), "real"),
        "Linear_ARD": (lambda B: K.LinearKernel(ard_num_dims=d, batch_shape=S(B)), "real"),
        "Polynomial2": (lambda B: K.PolynomialKernel(power=2, batch_shape=S(B)), "real"),
        "Polynomial3": (lambda B: K.PolynomialKernel(power=3, batch_shape=S(B)), "real"),
        "PiecewisePolynomial0": (lambda B: K.PiecewisePolynomialKernel(q=0, batch_shape=S(B)), "real"),
        "PiecewisePolynomial1": (lambda B: K.PiecewisePolynomialKernel(q=1, batch_shape=S(B)), "real"),
        "PiecewisePolynomial2_ARD": (lambda B: K.PiecewisePolynomialKernel(q=2, ard_num_dims=d, batch_shape=S(B)), "real"),
        "PiecewisePolynomial3": (lambda B: K.PiecewisePolynomialKernel(q=3, batch_shape=S(B)), "real"),
        "SpectralMixture": (lambda B: K.SpectralMixtureKernel(num_mixtures=2, ard_num_dims=d, batch_shape=S(B)), "real"),
        "Constant": (lambda B: K.ConstantKernel(batch_shape=S(B)), "real"),
        "Scale(RBF)": (lambda B: K.ScaleKernel(K.RBFKernel(batch_shape=S(B)), batch_shape=S(B)), "real"),
        "Scale(Matern2.5_ARD)": (lambda B: K.ScaleKernel(K.MaternKernel(nu=2.5, ard_num_dims=d, batch_shape=S(B)), batch_shape=S(B)), "real"),
        "Scale@b(RBF@1)": (lambda B: K.ScaleKernel(K.RBFKernel(), batch_shape=S(B)), "real"),
        "Scale@1(RBF@b)": (lambda B: K.ScaleKernel(K.RBFKernel(batch_shape=S(B))), "real"),
        "RBF+Matern1.5": (lambda B: K.RBFKernel(batch_shape=S(B)) + K.MaternKernel(nu=1.5, batch_shape=S(B)), "real"),
        "RBF@b+Linear@1": (lambda B: K.RBFKernel(batch_shape=S(B)) + K.LinearKernel(), "real"),
        "RBF*Periodic": (lambda B: K.RBFKernel(batch_shape=S(B)) * K.PeriodicKernel(batch_shape=S(B)), "real"),
        "Scale(Matern)+Scale(Linear)": (lambda B: K.ScaleKernel(K.MaternKernel(nu=2.5, ard_num_dims=d, batch_shape=S(B)), batch_shape=S(B))
                                        + K.ScaleKernel(K.LinearKernel(batch_shape=S(B)), batch_shape=S(B)), "real"),
        "Scale(RBF)*Scale(Cosine)": (lambda B: K.ScaleKernel(K.RBFKernel(batch_shape=S(B)), batch_shape=S(B))
                                     * K.ScaleKernel(K.CosineKernel(batch_shape=S(B)), batch_shape=S(B)), "real"),
        "Index": (lambda B: K.IndexKernel(num_tasks=3, rank=2, batch_shape=S(B)), "index"),
        "Multitask(RBF@b,task@1)": (lambda B: K.MultitaskKernel(K.RBFKernel(batch_shape=S(B)), num_tasks=2, rank=1), "real"),
        "Multitask(RBF@b,task@b)": (lambda B: K.MultitaskKernel(K.RBFKernel(batch_shape=S(B)), num_tasks=2, rank=1, batch_shape=S(B)), "real"),
        "LCM(RBF,Matern)": (lambda B: K.LCMKernel([K.RBFKernel(batch_shape=S(B)), K.MaternKernel(batch_shape=S(B))], num_tasks=2, rank=1), "real"),
        "Arc(Matern)": (lambda B: K.ArcKernel(K.MaternKernel(nu=2.5, batch_shape=S(B)), ard_num_dims=d, batch_shape=S(B)), "real"),
        "Cylindrical(Matern)": (lambda B: K.CylindricalKernel(3, K.MaternKernel(nu=2.5, batch_shape=S(B)), batch_shape=S(B)), "real"),
        "SpectralDelta": (lambda B: K.SpectralDeltaKernel(num_dims=d, num_deltas=4, batch_shape=S(B)), "real"),
        "NewtonGirardAdditive(RBF)": (lambda B: K.NewtonGirardAdditiveKernel(K.RBFKernel(batch_shape=S(B)), num_dims=d, max_degree=2, batch_shape=S(B)), "real"),
        "RFF": (lambda B: K.RFFKernel(num_samples=3, num_dims=d, batch_shape=S(B)), "real"),
        "GaussianSymmetrizedKL": (lambda B: K.GaussianSymmetrizedKLKernel(batch_shape=S(B)), "real"),
    }
    return cat


def struct_catalogue():
    """Composite kernels whose nodes own the batch shapes A and B of the case (@1: built without batch_shape, shared by all batch elements).
    name: (factory(A, B), structure of Batch.tla).  A = (): the composite INHERITS its batch shape from the sub-kernel that owns B (and vice
    versa).  The leaves are non-stationary wherever the structure allows it: the diagonal of a stationary kernel is the same number at every
    point, so a diagonal taken from the wrong element can coincide with the right one by broadcasting."""
    import torch
    from gpytorch import kernels as K
    d = DFEAT
    S = torch.Size
    return {
        "Scale@A(Linear@B)": (lambda A, B: K.ScaleKernel(K.LinearKernel(batch_shape=S(B)), batch_shape=S(A)), "scale(leaf)"),
        "Scale@A(Polynomial2@B)": (lambda A, B: K.ScaleKernel(K.PolynomialKernel(power=2, batch_shape=S(B)), batch_shape=S(A)), "scale(leaf)"),
        "Scale@A(RBF_ARD@B)": (lambda A, B: K.ScaleKernel(K.RBFKernel(ard_num_dims=d, batch_shape=S(B)), batch_shape=S(A)), "scale(leaf)"),
        "Linear@A+Polynomial2@B": (lambda A, B: K.LinearKernel(batch_shape=S(A)) + K.PolynomialKernel(power=2, batch_shape=S(B)), "sum(leaf,leaf)"),
        "Matern1.5@A+Linear_ARD@B": (lambda A, B: K.MaternKernel(nu=1.5, batch_shape=S(A)) + K.LinearKernel(ard_num_dims=d, batch_shape=S(B)), "sum(leaf,leaf)"),
        "Linear@A*Polynomial3@B": (lambda A, B: K.LinearKernel(batch_shape=S(A)) * K.PolynomialKernel(power=3, batch_shape=S(B)), "prod(leaf,leaf)"),
        "Polynomial2@A*Periodic@B": (lambda A, B: K.PolynomialKernel(power=2, batch_shape=S(A)) * K.PeriodicKernel(batch_shape=S(B)), "prod(leaf,leaf)"),
        "Scale@1(Linear@A)+RBF@B": (lambda A, B: K.ScaleKernel(K.LinearKernel(batch_shape=S(A))) + K.RBFKernel(batch_shape=S(B)), "sum(scale(leaf),leaf)"),
        "Scale@1(Polynomial2@A)+Linear@B": (lambda A, B: K.ScaleKernel(K.PolynomialKernel(power=2, batch_shape=S(A))) + K.LinearKernel(batch_shape=S(B)),
                                            "sum(scale(leaf),leaf)"),
        "Scale@1(Linear@A)*Matern2.5@B": (lambda A, B: K.ScaleKernel(K.LinearKernel(batch_shape=S(A))) * K.MaternKernel(nu=2.5, batch_shape=S(B)),
                                          "prod(scale(leaf),leaf)"),
        "Scale@1(Scale@A(Linear@B))": (lambda A, B: K.ScaleKernel(K.ScaleKernel(K.LinearKernel(batch_shape=S(B)), batch_shape=S(A))), "scale(scale(leaf))"),
        "Scale@A(Linear@B+Constant@1)": (lambda A, B: K.ScaleKernel(K.LinearKernel(batch_shape=S(B)) + K.ConstantKernel(), batch_shape=S(A)),
                                         "scale(sum(leaf,leaf))"),
        "Scale@1(Linear@A*Polynomial2@B)+Linear_ARD@1": (lambda A, B: K.ScaleKernel(K.LinearKernel(batch_shape=S(A)) * K.PolynomialKernel(power=2, batch_shape=S(B)))
                                                         + K.LinearKernel(ard_num_dims=d), "sum(scale(prod(leaf,leaf)),leaf)"),
    }


# quick tier: these composites on every triple whose placement is not "mixed" (and a sample of the mixed ones), the others on a sample
STRUCT_QUICK_FULL = ("Scale@A(Linear@B)", "Scale@1(Linear@A)+RBF@B")


def placement(A, B):
    """which nodes of the composite own a batch shape"""
    if not A and not B:
        return "none"
    if not A:
        return "inherit"
    if not B:
        return "own"
    return "both" if list(A) == list(B) else "mixed"


DIAG_BASES = ("diag", "diag-self", "lazy-diag")


def mode_rows(mode):
    """(base mode, number of rows of x1): 'diag-n3' -> ('diag', 3); without suffix the generic NPTS"""
    m = re.match(r"^(.*)-n(\d+)$", mode)
    return (m.group(1), int(m.group(2))) if m else (mode, NPTS)


def kernel_sites(name, mode):
    """The sites of Batch.tla that model the parameter alignment of this kernel in this mode (for prediction vs observation)."""
    base, n = mode_rows(mode)
    diag = base in DIAG_BASES
    s = []
    if base in ("diag", "diag-self"):        # Kernel.__call__(diag=True); the lazy diagonal calls forward
        if name == "Index":
            s.append("call_diag_ignored")
        elif not name.startswith(("Multitask", "LCM")):      # (their diagonal has n * num_tasks entries)
            s.append("call_diag" if n == NPTS else "call_diag_n%d" % n)
    if name.startswith("RQ"):
        s.append("rq_alpha_diag" if diag else "rq_alpha_full")
    if name == "Constant":
        s.append("const_kernel_diag" if diag else "const_kernel_full")
    if "Scale" in name:
        s.append("outputscale_diag" if diag else "outputscale_full")
    if name == "Multitask(RBF@b,task@b)":
        s.append("multitask_task_covar")
    if any(t in name for t in ("RBF", "Matern", "RQ", "Periodic", "PiecewisePolynomial")):
        s += ["lengthscale_x1"] if diag else ["lengthscale_x1", "lengthscale_x2"]
    return s


# quick tier: these kernels on every triple and every b, the others on a seeded 15% of the triples; thorough: all on all
QUICK_FULL_KERNELS = ("Scale(Matern2.5_ARD)", "RQ", "Constant", "RBF@b+Linear@1", "Multitask(RBF@b,task@b)")


# =============================================================================================
# helpers shared by the replay workers
# =============================================================================================
def _seed(*parts):
    return zlib.crc32(repr(parts).encode()) & 0x7FFFFFFF


def _gen(torch, *parts):
    return torch.Generator().manual_seed(_seed(*parts))


def _randomize(torch, mod, g):
    """distinct parameter values in every batch element: raw parameters uniform in (-1, 1) (softplus -> 0.31 .. 1.31)"""
    mod.double()
    for _, p in mod.named_parameters():
        p.data = torch.rand(p.shape, generator=g, dtype=torch.float64) * 2 - 1
    return mod


def _copy_state(batched, rep, idxmap):
    """Give the non-batched module `rep` the slice of every parameter / buffer of `batched`.  idxmap: {batch shape: index};
    a parameter whose leading axes (beyond the replica's parameter shape) form batch shape Q takes index idxmap[Q]."""
    for kind in ("named_parameters", "named_buffers"):
        src = dict(getattr(batched, kind)())
        for n, p in getattr(rep, kind)():
            q = src.get(n)
            if q is None or p is None:
                if (q is None) != (p is None):
                    raise core.Machinery("replica and batched module differ in %s" % n)
                continue
            k = q.dim() - p.dim()
            if k < 0 or tuple(q.shape[k:]) != tuple(p.shape):
                raise core.Machinery("parameter %s: batched shape %s is not batch + replica shape %s" % (n, tuple(q.shape), tuple(p.shape)))
            Q = tuple(q.shape[:k])
            if Q not in idxmap:
                raise core.Machinery("parameter %s has batch shape %s, expected one of %s" % (n, Q, list(idxmap)))
            p.data = q.data[tuple(idxmap[Q])].clone()
    return rep


def _data(torch, kind, batch, n, g):
    if kind == "index":
        return torch.randint(0, 3, (*batch, n, 1), generator=g).to(torch.float64)
    return torch.rand(*batch, n, DFEAT * (2 if kind == "real2" else 1), generator=g, dtype=torch.float64) * 0.6


def _dense(torch, r):
    return r if torch.is_tensor(r) else r.to_dense()


def _cls(case, struct=False):
    """cell class of a triple: rank relation between data and parameters, and whether the parameters widen the data batch
    (struct: the triple is (A, B, D): parameters = broadcast(A, B), data = D)"""
    import torch
    if struct:
        dd, pp = list(case["D2"]), list(torch.broadcast_shapes(tuple(case["P"]), tuple(case["D1"])))
    else:
        dd, pp = list(torch.broadcast_shapes(tuple(case["D1"]), tuple(case["D2"]))), list(case["P"])
    rk = "data-rank>param-rank" if len(dd) > len(pp) else "data-rank<=param-rank"
    out = list(case["out"])
    wd = "param-widens-batch" if dd != out else "param-within-data-batch"
    if struct and dd != out and out == [1] * (len(out) - len(dd)) + dd:
        wd = "param-adds-unit-axes"          # the parameters add leading batch axes of size 1 and nothing else
    return rk + "/" + wd


def _tri(case, struct=False):
    return ("A=%s B=%s D=%s" if struct else "P=%s D1=%s D2=%s") % (tuple(case["P"]), tuple(case["D1"]), tuple(case["D2"]))


def _compare_elements(torch, out, case, ref_of, tol, what, index_key="b", struct=False):
    """out: batched tensor; ref_of(rep) -> replica tensor.  Returns (outcome, detail): outcome None when every element agrees."""
    shape_of = dict(b=case["out"], y=case["y"], p=case["P"])[index_key]
    seen = set()
    first = True
    for rep in case["reps"]:
        idx = tuple(rep[index_key])
        if idx in seen:
            continue
        seen.add(idx)
        ok, ref = core.guarded(ref_of, rep)
        if not ok:
            raise core.Machinery("the non-batched replica failed on %s (%s): %s" % (_tri(case, struct), what, ref))
        if first:
            first = False
            want = tuple(shape_of) + tuple(ref.shape)
            if tuple(out.shape) != want:
                return "shape", "%s has shape %s; batch %s of replicas of shape %s is %s" % (what, tuple(out.shape), tuple(shape_of), tuple(ref.shape), want)
        good, why = core.close(out[idx], ref, *tol)
        if not good:
            return "values", "%s[%s] differs from the replica (%s): %s" % (
                what, ",".join(map(str, idx)), ("parameters@A[%s], parameters@B[%s], data[%s]" if struct else "parameters[%s], data1[%s], data2[%s]") % (
                    ",".join(map(str, rep["p"])), ",".join(map(str, rep["d1"])), ",".join(map(str, rep["d2"]))), why)
    return None, ""


def _result(kind, name, mode, case, seed, outcome, detail, n, extra_case=None, struct=False):
    """one cell = (module, mode, triple).  Signature: C08/<kind>/<module>/<mode>/<rank class>/<widening class>/<raises|shape|values>;
    composite kernels (struct): C08/kernel/<module>/<mode>/<placement of the batch shapes>/<rank class>/<widening class>/<outcome>"""
    key = [kind, name, mode, case["P"], case["D1"], case["D2"]]
    r = dict(key=key, ok=outcome is None, nontrivial=len(case["reps"]) >= 2, n=max(1, n))
    if outcome is not None:
        cls = "members" if kind == "modellist" else (placement(case["P"], case["D1"]) + "/" + _cls(case, True)) if struct else _cls(case)
        r["sig"] = "C08/%s/%s/%s/%s/%s" % (kind, name, mode, cls, outcome)
        r["detail"] = "%s %s %s [%s]: %s" % (kind, name, _tri(case, struct), mode, detail)
        r["case"] = dict(kind=kind, name=name, mode=mode, seed=seed, case={k: v for k, v in case.items() if k != "pred"}, **(extra_case or {}))
    r["cell"] = (name, mode, tuple(case["P"]), tuple(case["D1"]), tuple(case["D2"]))
    return r


# =============================================================================================
# kernels
# =============================================================================================
# kernels of the plain catalogue replayed with the row counts of every coincidence class (not only the generic NPTS)
CO_KERNELS = ("RBF", "Scale(Matern2.5_ARD)", "Linear_ARD", "Index", "RQ", "Linear", "Scale@1(RBF@b)", "RBF@b+Linear@1")
NO_LAZY_DIAG = ("Index",)          # forward ignores diag: LazyEvaluatedKernelTensor.diagonal() raises, batched or not


def _suffix(n):
    return "" if n == NPTS else "-n%d" % n


def kernel_modes(name, case, thorough):
    """full: k(x1, x2); self: k(x1); diag: k(x1, x2', diag=True) with x2' of the shape of x1; diag-self: k(x1, diag=True);
    lazy-diag: k(x1, x2').diagonal(); <mode>-n<k>: x1 (and x2' / the x2 of self) with k rows, k = the feature size / the size of a batch axis"""
    modes = ["full"]
    if thorough:
        modes.append("full-eager")
    unary = case["D1"] == case["D2"]
    if unary:
        lazy = name not in NO_LAZY_DIAG and (thorough or name in QUICK_FULL_KERNELS or name in CO_KERNELS)
        modes += ["self", "diag", "diag-self"] + (["lazy-diag"] if lazy else [])
    if name in CO_KERNELS:
        for r in case["rows"]:
            if r["n"] == NPTS or not (thorough or r["batch"]):      # quick: the row counts that coincide with a batch axis
                continue
            if unary:
                modes += ["diag-n%d" % r["n"]] + ([] if name in NO_LAZY_DIAG or not thorough else ["lazy-diag-n%d" % r["n"]])
            if unary or thorough:
                modes.append("full-n%d" % r["n"])
    return modes


def struct_modes(name, case, thorough, full, seed=0):
    """composite kernels (the triple is (A, B, D): x1 and x2 share the data batch D).  thorough: every mode with every row count of the case.
    quick, `full`: the row counts that coincide with a batch axis (Batch.tla HeuristicNeedsCoincidence: the only place where a heuristic on the
    trailing sizes can go wrong) with diag and lazy-diag, plus diag-self and the matrices when it is the last axis; the other row counts
    (generic, = feature size) on a quarter of the triples.  quick, not `full` (sampled triples): diag modes with every row count, matrices with the generic one"""
    modes = []
    last = case["out"][-1] if case["out"] else None
    others = thorough or not full or _seed(seed, "generic rows", name, case["P"], case["D1"], case["D2"]) % 4 == 0
    for r in case["rows"]:
        sf = _suffix(r["n"])
        if not (r["batch"] or others):
            continue
        modes += ["diag" + sf, "lazy-diag" + sf]
        if thorough or (full and r["n"] in (last, NPTS)):
            modes.append("diag-self" + sf)
        if thorough or r["n"] == NPTS or (full and r["n"] == last):
            modes += ["full" + sf, "self" + sf]
    if thorough:
        modes.append("full-eager")
    return modes


def _kernel_eval(torch, k, x1, x2, mode):
    import gpytorch
    base = mode_rows(mode)[0]
    if base == "full":
        return _dense(torch, k(x1, x2))
    if base == "full-eager":
        with gpytorch.settings.lazily_evaluate_kernels(False):
            return _dense(torch, k(x1, x2))
    if base == "self":          # no_grad: the exact-zero diagonal of the x1 == x2 path (with grad it carries sqrt(eps) noise)
        with torch.no_grad():
            return _dense(torch, k(x1))
    if base == "diag-self":
        with torch.no_grad():
            return _dense(torch, k(x1, diag=True))
    if base == "lazy-diag":     # what MultivariateNormal(mean, k(x1, x2)).variance reads
        return k(x1, x2).diagonal(dim1=-1, dim2=-2)
    if base != "diag":
        raise core.Machinery("unknown kernel mode " + mode)
    return _dense(torch, k(x1, x2, diag=True))


def kernel_cell(torch, name, make, kind, kb, reps_cache, case, mode, seed, struct=False):
    P, D1, D2 = case["P"], case["D1"], case["D2"]
    g = _gen(torch, seed, "data", name, P, D1, D2, mode)
    base, n = mode_rows(mode)
    i1, i2 = ("d2", "d2") if struct else ("d1", "d2")          # struct: (P, D1, D2) = (A, B, D), both inputs have batch shape D
    x1 = _data(torch, kind, D2 if struct else D1, n, g)
    x2 = _data(torch, kind, D2, n if base in DIAG_BASES else MPTS, g)
    ok, out = core.guarded(_kernel_eval, torch, kb, x1, x2, mode)

    def replica(rep):
        key = (tuple(rep["p"]), tuple(rep["d1"])) if struct else tuple(rep["p"])
        if key not in reps_cache:
            if struct:
                # the parameters of a node have batch shape A, B or broadcast(A, B) (a ScaleKernel sizes its outputscale by the batch shape of
                # the kernel under it): Batch.tla KPar
                reps_cache[key] = _copy_state(kb, make((), ()).double(), {tuple(case["y"]): tuple(rep["y"]), tuple(P): tuple(rep["p"]),
                                                                         tuple(D1): tuple(rep["d1"]), (): ()})
            else:
                reps_cache[key] = _copy_state(kb, make(()).double(), {tuple(P): tuple(rep["p"]), (): ()})
        return reps_cache[key]
    if not ok:
        # the replicas must be fine, otherwise the harness is at fault
        rep = case["reps"][0]
        ok2, r2 = core.guarded(_kernel_eval, torch, replica(rep), x1[tuple(rep[i1])], x2[tuple(rep[i2])], mode)
        if not ok2:
            raise core.Machinery("kernel %s: the non-batched replica fails too on %s [%s]: %s" % (name, _tri(case, struct), mode, r2))
        return _result("kernel", name, mode, case, seed, "raises", "the batched kernel raises %s; every replica evaluates" % out, len(case["reps"]), struct=struct)

    def ref_of(rep):
        return _kernel_eval(torch, replica(rep), x1[tuple(rep[i1])], x2[tuple(rep[i2])], mode)
    outcome, detail = _compare_elements(torch, out, case, ref_of, KTOL, "diag(K)" if base in DIAG_BASES else "K", struct=struct)
    return _result("kernel", name, mode, case, seed, outcome, detail, len(case["reps"]), struct=struct)


def kernel_worker(item):
    torch = core.setup_torch()
    name, P, seed = item["name"], item["P"], item["seed"]
    make, kind = kernel_catalogue()[name][:2]
    ok, kb = core.guarded(lambda: _randomize(torch, make(tuple(P)), _gen(torch, seed, "params", name, P)))
    if not ok:
        raise core.Machinery("cannot construct kernel %s with batch_shape %s: %s" % (name, P, kb))
    cache = {}
    out = []
    for case in item["cases"]:
        for mode in kernel_modes(name, case, item["thorough"]):
            out.append(kernel_cell(torch, name, make, kind, kb, cache, case, mode, seed))
    return out


def struct_worker(item):
    """composite kernels: item = (name, A, B) with every case whose P = A and D1 = B"""
    torch = core.setup_torch()
    name, A, B, seed = item["name"], item["A"], item["B"], item["seed"]
    make = struct_catalogue()[name][0]
    ok, kb = core.guarded(lambda: _randomize(torch, make(tuple(A), tuple(B)), _gen(torch, seed, "params", name, A, B)))
    if not ok:
        raise core.Machinery("cannot construct kernel %s with batch shapes A=%s B=%s: %s" % (name, A, B, kb))
    import torch as _t
    if list(kb.batch_shape) != list(_t.broadcast_shapes(tuple(A), tuple(B))):
        return [_result("kernel", name, "batch_shape", item["cases"][0], seed, "shape", "kernel.batch_shape is %s, the nodes own %s and %s" % (
            tuple(kb.batch_shape), tuple(A), tuple(B)), 1, struct=True)]
    cache = {}
    out = []
    for case in item["cases"]:
        for mode in struct_modes(name, case, item["thorough"], item["full"], seed):
            out.append(kernel_cell(torch, name, make, "real", kb, cache, case, mode, seed, struct=True))
    return out


# =============================================================================================
# means and the Gaussian likelihood (unary: data batch D1 only; cases with D2 = D1)
# =============================================================================================
def mean_catalogue():
    import torch
    from gpytorch import means
    S = torch.Size
    return {"ConstantMean": lambda B: means.ConstantMean(batch_shape=S(B)),
            "ZeroMean": lambda B: means.ZeroMean(batch_shape=S(B)),
            "LinearMean": lambda B: means.LinearMean(DFEAT, batch_shape=S(B)),
            "LinearMean(bias=False)": lambda B: means.LinearMean(DFEAT, batch_shape=S(B), bias=False)}


def mean_worker(item):
    torch = core.setup_torch()
    name, P, seed = item["name"], item["P"], item["seed"]
    make = mean_catalogue()[name]
    mb = _randomize(torch, make(tuple(P)), _gen(torch, seed, "params", name, P))
    out = []
    for case in item["cases"]:
        x = _data(torch, "real", case["D1"], NPTS, _gen(torch, seed, "data", name, P, case["D1"]))
        ok, res = core.guarded(lambda: mb(x))
        if not ok:
            out.append(_result("mean", name, "forward", case, seed, "raises", "the batched mean raises %s" % res, len(case["reps"])))
            continue
        outcome, detail = _compare_elements(
            torch, res, case, lambda rep: _copy_state(mb, make(()).double(), {tuple(P): tuple(rep["p"]), (): ()})(x[tuple(rep["d1"])]), KTOL, "mean(x)")
        out.append(_result("mean", name, "forward", case, seed, outcome, detail, len(case["reps"])))
    return out


def _spd(torch, batch, n, g):
    a = torch.rand(*batch, n, n, generator=g, dtype=torch.float64)
    return a @ a.transpose(-1, -2) / n + 0.5 * torch.eye(n, dtype=torch.float64)


def likelihood_worker(item):
    torch = core.setup_torch()
    from gpytorch.distributions import MultivariateNormal
    from gpytorch.likelihoods import GaussianLikelihood
    P, seed = item["P"], item["seed"]
    name = "GaussianLikelihood"

    def make(B):
        return GaussianLikelihood(batch_shape=torch.Size(B))
    lb = _randomize(torch, make(tuple(P)), _gen(torch, seed, "params", name, P))
    out = []
    for case in item["cases"]:
        D1, Y = case["D1"], case["y"]
        g = _gen(torch, seed, "data", name, P, D1)
        m = torch.randn(*D1, NPTS, generator=g, dtype=torch.float64)
        C = _spd(torch, D1, NPTS, g)
        obs = torch.randn(*Y, NPTS, generator=g, dtype=torch.float64)

        def rl(rep):
            return _copy_state(lb, make(()).double(), {tuple(P): tuple(rep["p"]), (): ()})

        def rd(rep):
            return MultivariateNormal(m[tuple(rep["d1"])], C[tuple(rep["d1"])])

        def bmean(dist):    # the mean of a distribution may be stored un-broadcast: read it against the batch shape of the covariance
            return torch.broadcast_to(dist.mean, dist.covariance_matrix.shape[:-1])
        probes = [
            ("noise_covar", lambda: lb.noise_covar(shape=torch.Size([*D1, NPTS])).to_dense(), lambda rep: rl(rep).noise_covar(shape=torch.Size([NPTS])).to_dense()),
            ("marginal-mean", lambda: bmean(lb(MultivariateNormal(m, C))), lambda rep: rl(rep)(rd(rep)).mean),
            ("marginal-covariance", lambda: lb(MultivariateNormal(m, C)).covariance_matrix, lambda rep: rl(rep)(rd(rep)).covariance_matrix),
            ("log_marginal", lambda: lb.log_marginal(obs, MultivariateNormal(m, C)), lambda rep: rl(rep).log_marginal(obs[tuple(rep["y"])], rd(rep))),
            ("expected_log_prob", lambda: lb.expected_log_prob(obs, MultivariateNormal(m, C)), lambda rep: rl(rep).expected_log_prob(obs[tuple(rep["y"])], rd(rep))),
        ]
        for mode, fb, fr in probes:
            ok, res = core.guarded(fb)
            if not ok:
                out.append(_result("likelihood", name, mode, case, seed, "raises", "the batched likelihood raises %s" % res, len(case["reps"])))
                continue
            outcome, detail = _compare_elements(torch, res, case, fr, KTOL, mode)
            out.append(_result("likelihood", name, mode, case, seed, outcome, detail, len(case["reps"])))
    return out


# =============================================================================================
# exact GP: prior, marginal log likelihood, posterior
# =============================================================================================
def exact_variants():
    import torch
    from gpytorch import kernels as K, means
    S = torch.Size
    d = DFEAT
    return {
        "Constant+Scale(Matern2.5_ARD)": (lambda B: means.ConstantMean(batch_shape=S(B)),
                                          lambda B: K.ScaleKernel(K.MaternKernel(nu=2.5, ard_num_dims=d, batch_shape=S(B)), batch_shape=S(B))),
        "Zero+Scale(RBF)": (lambda B: means.ZeroMean(batch_shape=S(B)), lambda B: K.ScaleKernel(K.RBFKernel(batch_shape=S(B)), batch_shape=S(B))),
        "Linear+Scale(RBF)+Scale(Linear)": (lambda B: means.LinearMean(d, batch_shape=S(B)),
                                            lambda B: K.ScaleKernel(K.RBFKernel(ard_num_dims=d, batch_shape=S(B)), batch_shape=S(B))
                                            + K.ScaleKernel(K.LinearKernel(batch_shape=S(B)), batch_shape=S(B))),
        "Constant+Scale(Periodic*RBF)": (lambda B: means.ConstantMean(batch_shape=S(B)),
                                         lambda B: K.ScaleKernel(K.PeriodicKernel(batch_shape=S(B)) * K.RBFKernel(batch_shape=S(B)), batch_shape=S(B))),
        # a composite that inherits its batch shape (the ScaleKernel and the sum are built without batch_shape), non-stationary member
        "Constant+Scale@1(Linear@b)+Matern2.5@b": (lambda B: means.ConstantMean(batch_shape=S(B)),
                                                   lambda B: K.ScaleKernel(K.LinearKernel(batch_shape=S(B))) + K.MaternKernel(nu=2.5, batch_shape=S(B))),
    }


INHERITING_EXACT = "Constant+Scale@1(Linear@b)+Matern2.5@b"


def _exact_model(torch, variant, B, tx, ty, lik=None):
    import gpytorch
    mean_f, kern_f = exact_variants()[variant]

    class _EGP(gpytorch.models.ExactGP):
        def __init__(self):
            super().__init__(tx, ty, lik if lik is not None else gpytorch.likelihoods.GaussianLikelihood(batch_shape=torch.Size(B)))
            self.mean_module = mean_f(B)
            self.covar_module = kern_f(B)

        def forward(self, x):
            return gpytorch.distributions.MultivariateNormal(self.mean_module(x), self.covar_module(x))
    return _EGP()


def exact_worker(item):
    torch = core.setup_torch()
    import gpytorch
    variant, P, D1, seed = item["variant"], item["P"], item["D1"], item["seed"]
    name = variant
    c0 = item["cases"][0]
    Y = c0["y"]
    g = _gen(torch, seed, "train", variant, P, D1)
    tx = torch.rand(*D1, NTRAIN, DFEAT, generator=g, dtype=torch.float64)
    ty = torch.randn(*Y, NTRAIN, generator=g, dtype=torch.float64)

    def batched():
        return _randomize(torch, _exact_model(torch, variant, tuple(P), tx, ty), _gen(torch, seed, "params", variant, P))

    def replica(mb, rep):
        mr = _exact_model(torch, variant, (), tx[tuple(rep["d1"])], ty[tuple(rep["y"])]).double()
        return _copy_state(mb, mr, {tuple(P): tuple(rep["p"]), (): ()})
    out = []
    # prior and marginal log likelihood (training mode): depend on P and D1 only; elements are indexed by the y index of the case
    ycase = next((c for c in item["cases"] if c["D2"] == c["D1"]), None)
    if ycase is not None:
        mb = batched()
        mb.train()

        def train_side():
            o = mb(tx)
            mll = gpytorch.mlls.ExactMarginalLogLikelihood(mb.likelihood, mb)(o, ty)
            return o.mean, o.covariance_matrix, mll, mb(tx).variance
        ok, res = core.guarded(train_side)

        memo_t = {}

        def rtrain(rep, which):          # one replica per (parameter, data, target) index: the four observations come from the same replica
            key = (tuple(rep["p"]), tuple(rep["d1"]), tuple(rep["y"]))
            if key not in memo_t:
                mr = replica(mb, rep)
                mr.train()
                rx = tx[tuple(rep["d1"])]
                o = mr(rx)
                mll = gpytorch.mlls.ExactMarginalLogLikelihood(mr.likelihood, mr)(o, ty[tuple(rep["y"])])
                memo_t[key] = (o.mean, o.covariance_matrix, mll, mr(rx).variance)
            return memo_t[key][which]
        for which, mode in enumerate(["prior-mean", "prior-covariance", "mll", "prior-variance"]):
            if not ok:
                out.append(_result("exact", name, mode, ycase, seed, "raises", "the batched model raises %s" % res, len(ycase["reps"])))
                continue
            outcome, detail = _compare_elements(torch, res[which], ycase, lambda rep: rtrain(rep, which), MTOL, mode, index_key="y")
            out.append(_result("exact", name, mode, ycase, seed, outcome, detail, len(ycase["reps"])))
    # posterior (eval mode) at test inputs of batch shape D2
    for case in item["cases"]:
        D2 = case["D2"]
        x2 = torch.rand(*D2, NTEST, DFEAT, generator=_gen(torch, seed, "test", variant, P, D1, D2), dtype=torch.float64)
        mb = batched()
        mb.eval()

        def post():
            p = mb(x2)
            return p.mean, p.covariance_matrix, mb.likelihood(p).covariance_matrix, mb(x2).variance
        ok, res = core.guarded(post)

        memo_p = {}

        def rpost(rep, which):
            key = (tuple(rep["p"]), tuple(rep["d1"]), tuple(rep["d2"]), tuple(rep["y"]))
            if key not in memo_p:
                mr = replica(mb, rep)
                mr.eval()
                p = mr(x2[tuple(rep["d2"])])
                memo_p[key] = (p.mean, p.covariance_matrix, mr.likelihood(p).covariance_matrix, mr(x2[tuple(rep["d2"])]).variance)
            return memo_p[key][which]
        for which, mode in enumerate(["posterior-mean", "posterior-covariance", "predictive-covariance", "posterior-variance"]):
            if not ok:
                out.append(_result("exact", name, mode, case, seed, "raises", "the batched model raises %s" % res, len(case["reps"])))
                continue
            outcome, detail = _compare_elements(torch, res[which], case, lambda rep: rpost(rep, which), MTOL, mode)
            out.append(_result("exact", name, mode, case, seed, outcome, detail, len(case["reps"])))
    return out


# =============================================================================================
# SVGP: q(f) (eval), KL, ELBO.  P = batch shape of the variational distribution and the hyperparameters,
# D1 = batch shape of the inputs, D2 = batch shape of the inducing points (_expand_inputs broadcasts them against the inputs)
# =============================================================================================
def svgp_variants():
    from gpytorch import variational as V
    return {"Cholesky-whitened": (V.CholeskyVariationalDistribution, V.VariationalStrategy),
            "MeanField-whitened": (V.MeanFieldVariationalDistribution, V.VariationalStrategy),
            "Cholesky-unwhitened": (V.CholeskyVariationalDistribution, V.UnwhitenedVariationalStrategy),
            "Delta-whitened": (V.DeltaVariationalDistribution, V.VariationalStrategy)}


def _svgp_model(torch, variant, B, Z):
    import gpytorch
    dist_c, strat_c = svgp_variants()[variant]

    class _SV(gpytorch.models.ApproximateGP):
        def __init__(self):
            vd = dist_c(Z.shape[-2], batch_shape=torch.Size(B))
            super().__init__(strat_c(self, Z, vd, learn_inducing_locations=True))
            self.mean_module = gpytorch.means.ConstantMean(batch_shape=torch.Size(B))
            self.covar_module = gpytorch.kernels.ScaleKernel(gpytorch.kernels.RBFKernel(ard_num_dims=DFEAT, batch_shape=torch.Size(B)), batch_shape=torch.Size(B))

        def forward(self, x):
            return gpytorch.distributions.MultivariateNormal(self.mean_module(x), self.covar_module(x))
    return _SV()


def _svgp_randomize(torch, m, g, Z):
    _randomize(torch, m, g)
    vd = m.variational_strategy._variational_distribution
    if hasattr(vd, "chol_variational_covar"):
        c = vd.chol_variational_covar
        c.data = 0.8 * torch.eye(c.shape[-1], dtype=torch.float64) + 0.2 * torch.tril(torch.rand(c.shape, generator=g, dtype=torch.float64))
    m.variational_strategy.inducing_points.data = Z.clone()
    m.variational_strategy.variational_params_initialized.fill_(1)   # keep the randomised q(u) (no re-initialisation at the first call)
    return m


def svgp_worker(item):
    torch = core.setup_torch()
    import gpytorch
    variant, P, D2, seed = item["variant"], item["P"], item["D2"], item["seed"]
    name = variant
    Z = torch.rand(*D2, NIND, DFEAT, generator=_gen(torch, seed, "Z", variant, P, D2), dtype=torch.float64)

    def make_lik(B):
        return gpytorch.likelihoods.GaussianLikelihood(batch_shape=torch.Size(B))

    def batched():
        g = _gen(torch, seed, "params", variant, P, D2)
        return _svgp_randomize(torch, _svgp_model(torch, variant, tuple(P), Z), g, Z), _randomize(torch, make_lik(tuple(P)), g)

    def replica(mb, lb, rep):
        Zr = Z[tuple(rep["d2"])]
        mr = _svgp_model(torch, variant, (), Zr).double()
        idx = {tuple(P): tuple(rep["p"]), (): ()}
        idx.setdefault(tuple(D2), tuple(rep["d2"]))
        if tuple(D2) == tuple(P) and tuple(rep["d2"]) != tuple(rep["p"]):
            raise core.Machinery("equal shapes with different replica indices")
        _copy_state(mb, mr, idx)
        mr.variational_strategy.inducing_points.data = Zr.clone()
        return mr, _copy_state(lb, make_lik(()).double(), idx)
    out = []
    for case in item["cases"]:
        D1, Out = case["D1"], case["out"]
        g = _gen(torch, seed, "data", variant, P, D1, D2)
        x = torch.rand(*D1, NTRAIN, DFEAT, generator=g, dtype=torch.float64)
        y = torch.randn(*Out, NTRAIN, generator=g, dtype=torch.float64)
        mb, lb = batched()

        def side():
            mb.eval(), lb.eval()
            q = mb(x)
            qm, qc = q.mean, q.covariance_matrix
            # the KL term has the batch shape of what it depends on (P when whitened, broadcast(P, D2) otherwise): read it against Out
            kl = torch.broadcast_to(mb.variational_strategy.kl_divergence(), tuple(Out))
            mb.train(), lb.train()
            elbo = gpytorch.mlls.VariationalELBO(lb, mb, num_data=NUM_DATA)(mb(x), y)
            return qm, qc, kl, elbo
        ok, res = core.guarded(side)

        memo = {}

        def rside(rep, which):           # one replica per element b: the four observations come from the same replica, in the order of side()
            key = tuple(rep["b"])
            if key not in memo:
                mr, lr = replica(mb, lb, rep)
                mr.eval(), lr.eval()
                q = mr(x[tuple(rep["d1"])])
                qm, qc, kl = q.mean, q.covariance_matrix, mr.variational_strategy.kl_divergence()
                mr.train(), lr.train()
                memo[key] = (qm, qc, kl, gpytorch.mlls.VariationalELBO(lr, mr, num_data=NUM_DATA)(mr(x[tuple(rep["d1"])]), y[tuple(rep["b"])]))
            return memo[key][which]
        for which, (mode, key) in enumerate([("q(f)-mean", "b"), ("q(f)-covariance", "b"), ("kl", "b"), ("elbo", "b")]):
            if not ok:
                out.append(_result("svgp", name, mode, case, seed, "raises", "the batched model raises %s" % res, len(case["reps"])))
                continue
            outcome, detail = _compare_elements(torch, res[which], case, lambda rep: rside(rep, which), MTOL, mode, index_key=key)
            out.append(_result("svgp", name, mode, case, seed, outcome, detail, len(case["reps"])))
    return out


# =============================================================================================
# objectives (Batch.tla Family = "objective"): every class of gpytorch.mlls that takes a batched model, with every likelihood / noise model it
# can be constructed with, with and without priors / added loss terms / combine_terms.  Exact GPs: P = batch shape of the hyperparameters,
# D1 = of the training inputs, targets broadcast(P, D1).  SVGP: as in svgp_worker (D2 = batch shape of the inducing points).
# =============================================================================================
OBJ_EXACT = ("exact_mll", "loo")
OBJ_MODEL = "Constant+Scale(Matern2.5_ARD)"      # hyperparameters of shape batch (constant, outputscale), batch + (1,) (noise), batch + (1, d) (lengthscale)


def _obj_class(cls):
    from gpytorch import mlls
    return dict(exact_mll=mlls.ExactMarginalLogLikelihood, loo=mlls.LeaveOneOutPseudoLikelihood, elbo=mlls.VariationalELBO,
                pll=mlls.PredictiveLogLikelihood, gamma_elbo=mlls.GammaRobustVariationalELBO)[cls]


def _add_priors(mod):
    """a (non-batched) prior on every hyperparameter that carries the batch shape: outputscale and the constant of the mean (shape batch),
    noise (batch + (1,)), ARD lengthscale (batch + (1, d)) - Batch.tla sites prior_exact_ev0 / ev1 / ev2, prior_approx"""
    from gpytorch import kernels as K, means, priors
    from gpytorch.likelihoods.noise_models import _HomoskedasticNoiseBase
    for _, m in list(mod.named_modules()):
        if isinstance(m, K.ScaleKernel):
            m.register_prior("outputscale_prior", priors.GammaPrior(2.0, 3.0), lambda mm: mm.outputscale)
        if isinstance(m, K.Kernel) and m.has_lengthscale:
            m.register_prior("lengthscale_prior", priors.GammaPrior(3.0, 2.0), lambda mm: mm.lengthscale)
        if isinstance(m, means.ConstantMean):
            m.register_prior("constant_prior", priors.NormalPrior(0.1, 1.3), lambda mm: mm.constant)
        if isinstance(m, _HomoskedasticNoiseBase):
            m.register_prior("noise_prior", priors.GammaPrior(1.5, 2.0), lambda mm: mm.noise)
    return mod


def _obj_likelihood(torch, lik, B, fixed, noise_gp=None):
    """Batch.tla ObjLiks"""
    from gpytorch import likelihoods as L
    from gpytorch.likelihoods.gaussian_likelihood import _GaussianLikelihoodBase
    S = torch.Size(B)
    if lik == "gaussian":
        return L.GaussianLikelihood(batch_shape=S)
    if lik == "fixed":
        return L.FixedNoiseGaussianLikelihood(fixed)
    if lik == "fixed_learn":
        return L.FixedNoiseGaussianLikelihood(fixed, learn_additional_noise=True, batch_shape=S)
    if lik == "hetero":
        return _GaussianLikelihoodBase(L.HeteroskedasticNoise(noise_gp))
    if lik == "student_t":
        return L.StudentTLikelihood(batch_shape=S)
    if lik == "bernoulli":
        return L.BernoulliLikelihood()
    if lik == "laplace":
        return L.LaplaceLikelihood(batch_shape=S)
    if lik == "beta":
        return L.BetaLikelihood(batch_shape=S)
    raise core.Machinery("unknown likelihood kind " + lik)


def obj_sites(o, mode):
    """the sites of Batch.tla that transcribe the arithmetic behind this cell (ObjSites; with combine_terms=False every term is a cell)"""
    if mode == "kl":
        return []
    if mode == "data":
        return [s for s in o["sites"] if s.startswith("norm_")]
    if mode == "prior":
        return [s for s in o["sites"] if s.startswith("prior_")]
    return list(o["sites"])


def _obj_exact_cell(torch, o, case, seed):
    import gpytorch
    name = obj_name(o)
    P, D1, Y = case["P"], case["D1"], case["y"]
    g = _gen(torch, seed, "objective", name, P, D1)
    tx = torch.rand(*D1, NTRAIN, DFEAT, generator=g, dtype=torch.float64)
    ty = torch.randn(*Y, NTRAIN, generator=g, dtype=torch.float64)
    fixed = 0.05 + 0.2 * torch.rand(*P, NTRAIN, generator=g, dtype=torch.float64)
    ny = 0.3 * torch.randn(*Y, NTRAIN, generator=g, dtype=torch.float64)        # targets of the noise GP (hetero)
    cls = _obj_class(o["cls"])

    def build(B, x, y, fx, yn):
        noise_gp = _exact_model(torch, OBJ_MODEL, B, x, yn) if o["lik"] == "hetero" else None
        m = _exact_model(torch, OBJ_MODEL, B, x, y, _obj_likelihood(torch, o["lik"], B, fx, noise_gp))
        if o["prior"]:
            _add_priors(m)
        if o["added"] == "noise_model":
            m.register_added_loss_term("noise_model")
            m.update_added_loss_term("noise_model", gpytorch.mlls.NoiseModelAddedLossTerm(noise_gp))
        return m.double()

    def value(m, x, y):
        m.train()
        return cls(m.likelihood, m)(m(x), y, *((x,) if o["lik"] == "hetero" else ()))
    mb = _randomize(torch, build(tuple(P), tx, ty, fixed, ny), _gen(torch, seed, "objective params", name, P))

    def ref_of(rep):
        p, d1, y = tuple(rep["p"]), tuple(rep["d1"]), tuple(rep["y"])
        mr = _copy_state(mb, build((), tx[d1], ty[y], fixed[p], ny[y]), {tuple(P): p, (): ()})
        return value(mr, tx[d1], ty[y])
    ok, res = core.guarded(value, mb, tx, ty)
    if not ok:
        ok2, r2 = core.guarded(ref_of, case["reps"][0])
        if not ok2:
            raise core.Machinery("objective %s: the non-batched replica fails too on %s: %s" % (name, _tri(case), r2))
        return [_result("objective", name, "value", case, seed, "raises", "the batched objective raises %s; every replica evaluates" % res, len(case["reps"]),
                        extra_case=dict(obj=o))]
    outcome, detail = _compare_elements(torch, res, case, ref_of, MTOL, "objective", index_key="y")
    return [_result("objective", name, "value", case, seed, outcome, detail, len(case["reps"]), extra_case=dict(obj=o))]


def _obj_var_cell(torch, o, case, seed):
    name = obj_name(o)
    P, D1, D2, Out = case["P"], case["D1"], case["D2"], case["out"]
    variant = "Cholesky-whitened"
    g = _gen(torch, seed, "objective", name, P, D1, D2)
    Z = torch.rand(*D2, NIND, DFEAT, generator=g, dtype=torch.float64)
    x = torch.rand(*D1, NTRAIN, DFEAT, generator=g, dtype=torch.float64)
    y = torch.randn(*Out, NTRAIN, generator=g, dtype=torch.float64)
    if o["lik"] == "bernoulli":
        y = (y > 0).to(torch.float64)
    elif o["lik"] == "beta":
        y = torch.sigmoid(y)
    fixed = 0.05 + 0.2 * torch.rand(*P, NTRAIN, generator=g, dtype=torch.float64)
    cls = _obj_class(o["cls"])
    modes = ["value"] if o["combine"] else ["data", "kl"] + (["prior"] if o["prior"] else [])

    def build(B, Zx, fx):
        m, l = _svgp_model(torch, variant, B, Zx), _obj_likelihood(torch, o["lik"], B, fx)
        if o["prior"]:
            _add_priors(m), _add_priors(l)
        return m.double(), l.double()

    def value(m, l, xx, yy):
        m.train(), l.train()
        r = cls(l, m, num_data=NUM_DATA, combine_terms=o["combine"])(m(xx), yy)
        if o["combine"]:
            return (r,)
        if len(r) != 3:
            raise core.Machinery("combine_terms=False returned %d terms" % len(r))
        return tuple(r)[:len(modes)]
    mb, lb = build(tuple(P), Z, fixed)
    gp = _gen(torch, seed, "objective params", name, P, D2)
    _svgp_randomize(torch, mb, gp, Z), _randomize(torch, lb, gp)
    memo = {}

    def ref_of(rep, which):
        key = tuple(rep["b"])
        if key not in memo:
            Zr = Z[tuple(rep["d2"])]
            mr, lr = build((), Zr, fixed[tuple(rep["p"])])
            idx = {tuple(P): tuple(rep["p"]), (): ()}
            idx.setdefault(tuple(D2), tuple(rep["d2"]))
            _copy_state(mb, mr, idx), _copy_state(lb, lr, idx)
            mr.variational_strategy.inducing_points.data = Zr.clone()
            memo[key] = value(mr, lr, x[tuple(rep["d1"])], y[tuple(rep["b"])])
        return memo[key][which]
    ok, res = core.guarded(value, mb, lb, x, y)
    out = []
    if not ok:
        ok2, r2 = core.guarded(ref_of, case["reps"][0], 0)
        if not ok2:
            raise core.Machinery("objective %s: the non-batched replica fails too on %s: %s" % (name, _tri(case), r2))
    for which, mode in enumerate(modes):
        if not ok:
            out.append(_result("objective", name, mode, case, seed, "raises", "the batched objective raises %s; every replica evaluates" % res,
                               len(case["reps"]), extra_case=dict(obj=o)))
            continue
        t = res[which]
        if not o["combine"]:
            # a term is stored with the batch shape of what it depends on: read it against the batch of the objective
            okb, t = core.guarded(torch.broadcast_to, t, tuple(Out))
            if not okb:
                out.append(_result("objective", name, mode, case, seed, "shape", "term %s has shape %s, the batch of the objective is %s" % (
                    mode, tuple(res[which].shape), tuple(Out)), len(case["reps"]), extra_case=dict(obj=o)))
                continue
        outcome, detail = _compare_elements(torch, t, case, lambda rep: ref_of(rep, which), MTOL, "objective" if o["combine"] else "term " + mode)
        out.append(_result("objective", name, mode, case, seed, outcome, detail, len(case["reps"]), extra_case=dict(obj=o)))
    return out


def objective_worker(item):
    torch = core.setup_torch()
    o = item["obj"]
    out = []
    for case in item["cases"]:
        if o["cls"] in OBJ_EXACT:
            out += _obj_exact_cell(torch, o, case, item["seed"])
        else:
            out += _obj_var_cell(torch, o, case, item["seed"])
    return out


# =============================================================================================
# missing observations (Batch.tla Family = "nan"): the NaN policy as a dimension of the replica lattice.  Targets of batch shape Y whose
# element q misses the positions miss[q]; under the policy the replica of q is the NON-batched object on the q-th slice with the positions
# drop[policy][q] deleted (fill: its own missing entries; mask: the union over the batch), evaluated WITHOUT a NaN policy.
# =============================================================================================
NAN_POLICIES = ("mask", "fill")              # Batch.tla NanPolicies ("ignore" = every other family: no missing entries)
NAN_CLASSES = ("none", "same", "one_clean", "different")     # Batch.tla NanClasses
NAN_EXACT = "Constant+Scale(Matern2.5_ARD)"
NAN_MODULES = ("exact", "likelihood", "svgp")


def _nan_elements(Y):
    """the elements of Y in row-major order (Batch.tla BUnravel)"""
    import itertools
    return list(itertools.product(*[range(v) for v in Y]))


def _nan_targets(torch, nc, g):
    y = torch.randn(*nc["Y"], NOBS, generator=g, dtype=torch.float64)
    for idx, m in zip(_nan_elements(nc["Y"]), nc["miss"]):
        for i in m:
            y[idx + (i - 1,)] = float("nan")
    return y


def _nan_keep(nc, pol, q):
    drop = set(nc["drop"][pol][q])
    return [i for i in range(NOBS) if i + 1 not in drop]


def _nan_result(module, mode, nc, pol, seed, outcome, detail, n):
    """cell = (module, mode, policy, batch shape, placement, pattern).  Signature: C08/nan/<module>/<mode>/<policy>/<pattern class>/<placement>/<outcome>"""
    numel = 1
    for v in nc["Y"]:
        numel *= v
    r = dict(key=["nan", module, mode, pol, nc["place"], nc["Y"], nc["miss"]], ok=outcome is None, nontrivial=numel >= 2 and nc["cls"] != "none", n=max(1, n),
             nan=dict(pol=pol, cls=nc["cls"], variant_differs=bool(nc["variant_differs"]) and pol == "fill", rank=len(nc["Y"]), vary=nc["vary"], place=nc["place"]))
    if outcome is not None:
        r["sig"] = "C08/nan/%s/%s/%s/%s/%s/%s" % (module, mode, pol, nc["cls"], nc["place"], outcome)
        r["detail"] = "%s [%s] observation_nan_policy(%r), targets of batch shape %s (batch on: %s), missing positions per element %s: %s" % (
            module, mode, pol, tuple(nc["Y"]), nc["place"], nc["miss"], detail)
        r["case"] = dict(kind="nan", name=module, mode=mode, seed=seed, pol=pol, case=nc)
    return r


def _nan_replica_fine(rep, *a):
    ok, r = core.guarded(rep, *a)
    if not ok:
        raise core.Machinery("missing observations: the non-batched replica fails too: %s" % r)


def _nan_compare(torch, nc, pol, got, want_of, tol, what):
    """got: batched tensor of batch shape Y; want_of(q, idx) -> what element idx must be"""
    Y = tuple(nc["Y"])
    if tuple(got.shape[:len(Y)]) != Y:
        return "shape", "%s has shape %s: not the batch shape %s of the targets" % (what, tuple(got.shape), Y)
    for q, idx in enumerate(_nan_elements(Y)):
        ok, want = core.guarded(want_of, q, idx)
        if not ok:
            raise core.Machinery("missing observations: the non-batched replica failed (%s, element %s of %s): %s" % (what, idx, nc["miss"], want))
        if tuple(got[idx].shape) != tuple(want.shape):
            return "shape", "%s[%s] has shape %s, the replica gives %s" % (what, ",".join(map(str, idx)), tuple(got[idx].shape), tuple(want.shape))
        good, why = core.close(got[idx], want, *tol)
        if not good:
            return "values", "%s[%s] differs from the non-batched replica on slice %s with its observations %s deleted: %s" % (
                what, ",".join(map(str, idx)), list(idx), nc["drop"][pol][q], why)
    return None, ""


def _nan_exact(torch, gpytorch, nc, pol, seed):
    """exact GP: posterior mean (mask, fill) and ExactMarginalLogLikelihood (mask; it rejects fill)"""
    P, D1, Y = nc["P"], nc["D1"], nc["Y"]
    g = _gen(torch, seed, "nan exact", P, D1, nc["miss"])
    tx = torch.rand(*D1, NOBS, DFEAT, generator=g, dtype=torch.float64)
    x2 = torch.rand(*D1, NTEST, DFEAT, generator=g, dtype=torch.float64)
    ty = _nan_targets(torch, nc, g)
    mb = _randomize(torch, _exact_model(torch, NAN_EXACT, tuple(P), tx, ty), _gen(torch, seed, "nan exact params", P))

    def batched():
        with gpytorch.settings.observation_nan_policy(pol):
            mb.eval()
            mean = mb(x2).mean
            mll = None
            if pol == "mask":
                mb.train()
                mll = gpytorch.mlls.ExactMarginalLogLikelihood(mb.likelihood, mb)(mb(tx), ty)
        return mean, mll
    memo = {}

    def rep(q, idx, which):
        if q not in memo:
            keep = _nan_keep(nc, pol, q)
            p, d1 = (idx if P else ()), (idx if D1 else ())
            xk, yk = tx[d1][keep], ty[idx][keep]
            if not torch.isfinite(yk).all():
                raise core.Machinery("the deleted targets still hold NaN")
            mr = _copy_state(mb, _exact_model(torch, NAN_EXACT, (), xk, yk).double(), {tuple(P): tuple(p), (): ()})
            mr.eval()
            mean = mr(x2[d1]).mean
            mr.train()
            # ExactMarginalLogLikelihood divides by the number of points of the prior it is handed, missing or not (the normaliser under a NaN
            # policy is C16's business): the replica's sum over its observations, divided by the same number
            mll = gpytorch.mlls.ExactMarginalLogLikelihood(mr.likelihood, mr)(mr(xk), yk) * (len(keep) / NOBS)
            memo[q] = (mean, mll)
        return memo[q][which]
    ok, res = core.guarded(batched)
    out = []
    for which, mode in enumerate(["posterior-mean", "mll"]):
        if mode == "mll" and pol != "mask":
            continue
        if not ok:
            _nan_replica_fine(rep, 0, _nan_elements(Y)[0], which)
            out.append(_nan_result("exact", mode, nc, pol, seed, "raises", "the batched model raises %s; every replica evaluates" % res, len(nc["miss"])))
            continue
        outcome, detail = _nan_compare(torch, nc, pol, res[which], lambda q, idx: rep(q, idx, which), MTOL, mode)
        out.append(_nan_result("exact", mode, nc, pol, seed, outcome, detail, len(nc["miss"])))
    return out


def _nan_likelihood(torch, gpytorch, nc, pol, seed):
    """GaussianLikelihood / FixedNoiseGaussianLikelihood: expected_log_prob and log_marginal, point by point.  fill: the dropped positions
    contribute 0 and stay in place; mask: they are removed from the result"""
    from gpytorch.distributions import MultivariateNormal
    from gpytorch import likelihoods as L
    P, D1, Y = nc["P"], nc["D1"], nc["Y"]
    out = []
    for name in ("GaussianLikelihood", "FixedNoiseGaussianLikelihood"):
        g = _gen(torch, seed, "nan likelihood", name, P, D1, nc["miss"])
        fixed = 0.05 + 0.2 * torch.rand(*P, NOBS, generator=g, dtype=torch.float64)

        def make(B, fx):
            return L.GaussianLikelihood(batch_shape=torch.Size(B)) if name == "GaussianLikelihood" else \
                L.FixedNoiseGaussianLikelihood(fx, learn_additional_noise=True, batch_shape=torch.Size(B))
        lb = _randomize(torch, make(tuple(P), fixed), g)
        m = torch.randn(*D1, NOBS, generator=g, dtype=torch.float64)
        C = _spd(torch, D1, NOBS, g)
        obs = _nan_targets(torch, nc, g)
        for mode in ("expected_log_prob", "log_marginal"):
            def batched():
                with gpytorch.settings.observation_nan_policy(pol):
                    return getattr(lb, mode)(obs, MultivariateNormal(m, C))

            def rep(q, idx):
                keep = _nan_keep(nc, pol, q)
                p, d1 = (idx if P else ()), (idx if D1 else ())
                lr = _copy_state(lb, make((), fixed[p][keep]).double(), {tuple(P): tuple(p), (): ()})
                r = getattr(lr, mode)(obs[idx][keep], MultivariateNormal(m[d1][keep], C[d1][keep][:, keep]))
                if pol == "mask":
                    return r
                full = torch.zeros(NOBS, dtype=torch.float64)
                full[keep] = r
                return full
            ok, res = core.guarded(batched)
            if not ok:
                _nan_replica_fine(rep, 0, _nan_elements(Y)[0])
                out.append(_nan_result(name, mode, nc, pol, seed, "raises", "the batched likelihood raises %s; every replica evaluates" % res, len(nc["miss"])))
                continue
            outcome, detail = _nan_compare(torch, nc, pol, res, rep, KTOL, mode)
            out.append(_nan_result(name, mode, nc, pol, seed, outcome, detail, len(nc["miss"])))
    return out


def _nan_svgp(torch, gpytorch, nc, pol, seed):
    """SVGP: VariationalELBO (expected_log_prob) and PredictiveLogLikelihood (log_marginal), data term and KL term (combine_terms=False)"""
    P, D1, Y = nc["P"], nc["D1"], nc["Y"]
    D2 = Y if nc["place"] == "both" else []          # batch shape of the inducing points
    variant = "Cholesky-whitened"
    g = _gen(torch, seed, "nan svgp", P, D1, nc["miss"])
    Z = torch.rand(*D2, NIND, DFEAT, generator=g, dtype=torch.float64)
    x = torch.rand(*D1, NOBS, DFEAT, generator=g, dtype=torch.float64)
    y = _nan_targets(torch, nc, g)

    def make_lik(B):
        return gpytorch.likelihoods.GaussianLikelihood(batch_shape=torch.Size(B))
    mb = _svgp_randomize(torch, _svgp_model(torch, variant, tuple(P), Z), g, Z)
    lb = _randomize(torch, make_lik(tuple(P)), g)
    classes = (("elbo", gpytorch.mlls.VariationalELBO), ("pll", gpytorch.mlls.PredictiveLogLikelihood))

    def value(m, l, xx, yy, scale):
        m.train(), l.train()
        vals = []
        for _, cls in classes:
            ll, kl, _ = cls(l, m, num_data=NUM_DATA, combine_terms=False)(m(xx), yy)
            vals.append(ll * scale - kl)
        return vals

    def batched():
        with gpytorch.settings.observation_nan_policy(pol):
            return value(mb, lb, x, y, 1.0)
    memo = {}

    def rep(q, idx, which):
        if q not in memo:
            keep = _nan_keep(nc, pol, q)
            p, d1, d2 = (idx if P else ()), (idx if D1 else ()), (idx if D2 else ())
            Zr = Z[d2]
            mr = _svgp_model(torch, variant, (), Zr).double()
            idxmap = {tuple(P): tuple(p), (): ()}
            idxmap.setdefault(tuple(D2), tuple(d2))
            _copy_state(mb, mr, idxmap)
            mr.variational_strategy.inducing_points.data = Zr.clone()
            lr = _copy_state(lb, make_lik(()).double(), idxmap)
            # the objectives divide the sum over the data by the number of points of q(f), missing or not: the replica's sum over its observations,
            # divided by the same number
            memo[q] = value(mr, lr, x[d1][keep], y[idx][keep], len(keep) / NOBS)
        return memo[q][which]
    ok, res = core.guarded(batched)
    out = []
    for which, (mode, _) in enumerate(classes):
        if not ok:
            _nan_replica_fine(rep, 0, _nan_elements(Y)[0], which)
            out.append(_nan_result("svgp", mode, nc, pol, seed, "raises", "the batched objective raises %s; every replica evaluates" % res, len(nc["miss"])))
            continue
        okb, t = core.guarded(torch.broadcast_to, res[which], tuple(Y))
        if not okb:
            out.append(_nan_result("svgp", mode, nc, pol, seed, "shape", "the objective has shape %s, the batch is %s" % (tuple(res[which].shape), tuple(Y)), len(nc["miss"])))
            continue
        outcome, detail = _nan_compare(torch, nc, pol, t, lambda q, idx: rep(q, idx, which), MTOL, mode)
        out.append(_nan_result("svgp", mode, nc, pol, seed, outcome, detail, len(nc["miss"])))
    return out


def nan_worker(item):
    torch = core.setup_torch()
    import gpytorch
    fns = dict(exact=_nan_exact, likelihood=_nan_likelihood, svgp=_nan_svgp)
    out = []
    for nc, pol in item["cases"]:
        for mod in item.get("modules", NAN_MODULES):
            out += fns[mod](torch, gpytorch, nc, pol, item["seed"])
    return out


# =============================================================================================
# IndependentModelList / SumMarginalLogLikelihood: members with batch shapes P, D1, D2 (they need not have anything in common)
# =============================================================================================
NFANT = 2                                    # fantasy points per member (the same number for every member)
LIST_OPS = ("call_train", "call_eval", "likelihood", "sum_mll", "sum_loo", "fantasy", "fantasy_fast_pred_var")     # Batch.tla ListOps
SUM_OPS = (("sum_mll", "sum-mll", "ExactMarginalLogLikelihood"), ("sum_loo", "sum-loo", "LeaveOneOutPseudoLikelihood"))


def _member_likelihood(torch, kind, B, n, g):
    """Batch.tla MemberKinds"""
    from gpytorch import likelihoods as L
    if kind == "gaussian":
        return L.GaussianLikelihood(batch_shape=torch.Size(B))
    noise = 0.05 + 0.2 * torch.rand(*B, n, generator=g, dtype=torch.float64)
    if kind == "fixed":
        return L.FixedNoiseGaussianLikelihood(noise)
    if kind == "fixed_learn":
        return L.FixedNoiseGaussianLikelihood(noise, learn_additional_noise=True, batch_shape=torch.Size(B))
    raise core.Machinery("unknown member kind " + kind)


def _list_side(torch, gpytorch, models, tests, fant, noise_arg, fast, as_list):
    """Every operation of Batch.tla ListOps on an IndependentModelList of `models` (as_list) or on every model on its own.
    Returns {op: ("ok", [per-member tensors]) | ("raises", message)}"""
    import contextlib
    res = {}
    ml = gpytorch.models.IndependentModelList(*models) if as_list else None

    def run(op, fn):
        ok, r = core.guarded(fn)
        res[op] = ("ok", r) if ok else ("raises", r)

    def fl(dists):
        return [[d.mean, d.covariance_matrix] for d in dists]
    with (gpytorch.settings.fast_pred_var() if fast else contextlib.nullcontext()):
        if not fast:
            for m in models:
                m.train()
            if as_list:
                run("call_train", lambda: fl(ml(*ml.train_inputs)))
                for op, _, cn in SUM_OPS:
                    run(op, lambda: [gpytorch.mlls.SumMarginalLogLikelihood(ml.likelihood, ml, mll_cls=getattr(gpytorch.mlls, cn))(ml(*ml.train_inputs), ml.train_targets)])
            else:
                run("call_train", lambda: fl([m(*m.train_inputs) for m in models]))
                for op, _, cn in SUM_OPS:
                    run(op, lambda: [getattr(gpytorch.mlls, cn)(m.likelihood, m)(m(*m.train_inputs), m.train_targets) for m in models])
        for m in models:
            m.eval()
        if as_list:
            run("call_eval", lambda: fl(ml(*tests)))                 # (also fills the caches the fantasy update starts from)
            if not fast:
                run("likelihood", lambda: fl(ml.likelihood(*ml(*tests))))
        else:
            run("call_eval", lambda: fl([m(t) for m, t in zip(models, tests)]))
            if not fast:
                run("likelihood", lambda: fl([m.likelihood(m(t)) for m, t in zip(models, tests)]))
        op = "fantasy_fast_pred_var" if fast else "fantasy"
        if as_list:
            run(op, lambda: fl(ml.get_fantasy_model([f[0] for f in fant], [f[1] for f in fant], noise=list(noise_arg))(*tests)))
        else:
            # a member whose entry of the noise list is None gets no noise argument
            outs, errs = [], []
            for m, f, nz, t in zip(models, fant, noise_arg, tests):
                ok, r = core.guarded(lambda: fl([m.get_fantasy_model(f[0], f[1], **({} if nz is None else dict(noise=nz)))(t)])[0])
                outs.append(r if ok else None)
                errs.append(None if ok else r)
            res[op] = ("ok", outs) if not any(errs) else ("raises", "; ".join("member %d: %s" % (i, e) for i, e in enumerate(errs) if e))
    return res


def modellist_worker(item):
    """IndependentModelList over heterogeneous members: kinds from Batch.tla (Family = "list"), batch shapes P, D1, D2 of the case, a different
    mean / kernel per position.  Oracle: output i of every operation = the same operation on (a deep copy of) member i on its own."""
    torch = core.setup_torch()
    import copy
    import gpytorch
    seed = item["seed"]
    out = []
    variants = list(exact_variants())
    for case, config in zip(item["cases"], item["configs"]):
        kinds = config["kinds"]
        shapes = [case["P"], case["D1"], case["D2"]][:len(kinds)]
        g = _gen(torch, seed, "modellist", shapes, kinds)
        members, tests, fant, noise_arg = [], [], [], []
        for i, (B, kind) in enumerate(zip(shapes, kinds)):
            n = NTRAIN + i
            tx = torch.rand(*B, n, DFEAT, generator=g, dtype=torch.float64)
            ty = torch.randn(*B, n, generator=g, dtype=torch.float64)
            lik = _member_likelihood(torch, kind, B, n, g)
            members.append(_randomize(torch, _exact_model(torch, variants[i % len(variants)], tuple(B), tx, ty, lik), g))
            tests.append(torch.rand(*B, NTEST + i, DFEAT, generator=g, dtype=torch.float64))
            fant.append((torch.rand(*B, NFANT, DFEAT, generator=g, dtype=torch.float64), torch.randn(*B, NFANT, generator=g, dtype=torch.float64)))
            fn = 0.3 + torch.rand(*B, NFANT, generator=g, dtype=torch.float64)
            noise_arg.append(fn if config["noise"][i] else None)        # Batch.tla NoiseArg: the member's own tensor, or None
        nm = "IndependentModelList[%s]" % ",".join(kinds)
        extra = dict(config=config)
        sides = {}
        for fast in (False, True):
            alone = _list_side(torch, gpytorch, [copy.deepcopy(m) for m in members], tests, fant, noise_arg, fast, False)
            lst = _list_side(torch, gpytorch, [copy.deepcopy(m) for m in members], tests, fant, noise_arg, fast, True)
            for op in lst:
                if op in ("call_eval",) and fast:
                    continue
                sides[op] = (lst[op], alone[op])
        if sorted(sides) != sorted(LIST_OPS):
            raise core.Machinery("model list operations %s differ from Batch.tla ListOps" % sorted(sides))
        groups = {"outputs": ("call_train", "call_eval", "likelihood"), "fantasy": ("fantasy",), "fantasy-fast_pred_var": ("fantasy_fast_pred_var",)}
        for mode, ops in groups.items():
            bad, n, both_raise = None, 0, False
            for op in ops:
                (ls, lv), (as_, av) = sides[op]
                if ls == "raises" and as_ == "raises":
                    both_raise = True       # the list fails where a member fails on its own: nothing of the list's to compare
                    continue
                if ls == "raises":
                    bad = bad or ("raises", "%s: the model list raises %s; every member on its own works" % (op, lv))
                    continue
                if as_ == "raises":
                    bad = bad or ("values", "%s: the model list returns outputs although on its own %s" % (op, av))
                    continue
                if len(lv) != len(kinds):
                    bad = bad or ("shape", "%s: %d outputs for %d members" % (op, len(lv), len(kinds)))
                    continue
                for i in range(len(kinds)):
                    for what, got, want in zip(("mean", "covariance"), lv[i], av[i]):
                        n += 1
                        if tuple(got.shape) != tuple(want.shape):
                            bad = bad or ("shape", "%s: %s of output %d has shape %s, member %d (%s, batch shape %s) on its own gives %s" % (
                                op, what, i, tuple(got.shape), i, kinds[i], tuple(shapes[i]), tuple(want.shape)))
                            continue
                        good, why = core.close(got, want, *MTOL)
                        if not good:
                            bad = bad or ("values", "%s: %s of output %d differs from member %d (%s, batch shape %s) on its own: %s" % (
                                op, what, i, i, kinds[i], tuple(shapes[i]), why))
            r = _result("modellist", nm, mode, case, seed, bad and bad[0], bad[1] if bad else "", n, extra)
            r["nontrivial"] = n > 0
            r["both_raise"] = both_raise
            out.append(r)
        # SumMarginalLogLikelihood(mll_cls) = mean of the members' objectives (element b: every member read at its un-broadcast index)
        for op, mode, cn in SUM_OPS:
            bad = None
            (ls, lv), (as_, av) = sides[op]
            if ls == "raises" and as_ == "raises":
                pass
            elif ls == "raises" or as_ == "raises":
                bad = ("raises", "SumMarginalLogLikelihood(%s) raises %s; the members' own objectives: %s" % (cn, lv if ls == "raises" else "-", av if as_ == "raises" else "fine"))
            else:
                smll, mlls = lv[0], av
                wrong = [i for i, m_ in enumerate(mlls) if tuple(m_.shape) != tuple(shapes[i])]
                if wrong:
                    bad = ("shape", "the %s of member %d on its own has shape %s, its batch shape is %s" % (
                        cn, wrong[0], tuple(mlls[wrong[0]].shape), tuple(shapes[wrong[0]])))
                elif len(shapes) == 3:
                    if tuple(smll.shape) != tuple(case["out"]):
                        bad = ("shape", "SumMarginalLogLikelihood(%s) has shape %s, the members' batch shapes broadcast to %s" % (cn, tuple(smll.shape), tuple(case["out"])))
                    else:
                        for rep in case["reps"]:
                            want = (mlls[0][tuple(rep["p"])] + mlls[1][tuple(rep["d1"])] + mlls[2][tuple(rep["d2"])]) / 3
                            good, why = core.close(smll[tuple(rep["b"])], want, *MTOL)
                            if not good:
                                bad = ("values", "element %s is not the mean of the members' %s: %s" % (rep["b"], cn, why))
                                break
                else:
                    good, why = core.close(smll, sum(mlls) / len(mlls), *MTOL)
                    if not good:
                        bad = ("values", "not the mean of the members' %s: %s" % (cn, why))
            both = ls == "raises" and as_ == "raises"
            r = _result("modellist", nm, mode, case, seed, bad and bad[0], bad[1] if bad else "", 0 if both else len(case["reps"]) if len(shapes) == 3 else 1, extra)
            r["nontrivial"] = not both
            r["both_raise"] = both
            out.append(r)
    return out


# =============================================================================================
# oracle-side self check: the spec's algebra against torch itself (a disagreement is a machinery failure)
# =============================================================================================
def selfcheck_worker(item):
    torch = core.setup_torch()
    for P, D1, D2 in item["rejected"]:
        try:
            s = torch.broadcast_shapes(tuple(P), tuple(D1), tuple(D2))
        except RuntimeError:
            continue
        return [dict(machinery="Shapes.tla rejects P=%s D1=%s D2=%s but torch broadcasts them to %s" % (P, D1, D2, tuple(s)))]
    n = 0
    for case in item["cases"]:
        shapes = dict(p=case["P"], d1=case["D1"], d2=case["D2"], y=case["y"])
        try:
            s = list(torch.broadcast_shapes(*[tuple(shapes[k]) for k in ("p", "d1", "d2")]))
        except RuntimeError:
            s = None
        if s != case["out"]:
            return [dict(machinery="Shapes.tla broadcasts %s to %s, torch to %s" % (_tri(case), case["out"], s))]
        if list(torch.broadcast_shapes(tuple(case["P"]), tuple(case["D1"]))) != case["y"]:
            return [dict(machinery="Shapes.tla: y of %s is %s" % (_tri(case), case["y"]))]
        views = {}
        for k, sh in shapes.items():
            numel = 1
            for v in sh:
                numel *= v
            lab = torch.arange(numel).reshape(tuple(sh))
            views[k] = (lab, lab.expand(tuple(case["out"])))
        for rep in case["reps"]:
            for k, (lab, view) in views.items():
                if int(view[tuple(rep["b"])]) != int(lab[tuple(rep[k])]):
                    return [dict(machinery="Shapes.tla: un-broadcast index of b=%s into %s=%s is %s, torch.expand shows another element" % (
                        rep["b"], k, shapes[k], rep[k]))]
            n += 1
    return [dict(key=["selfcheck", item["i"]], ok=True, nontrivial=False, n=n)]


# =============================================================================================
WORKERS = dict(kernel=kernel_worker, struct=struct_worker, mean=mean_worker, likelihood=likelihood_worker, exact=exact_worker, svgp=svgp_worker,
               modellist=modellist_worker, selfcheck=selfcheck_worker, objective=objective_worker, nan=nan_worker)

# objectives: the cases every configuration is replayed on whatever the sample (batch ranks 1 and 2 with equal shapes, parameters broadcast over
# the data and the data over the parameters), as (P, D1) / (P, D1, D2)
OBJ_ANCHORS_EXACT = (((2,), (2,)), ((3, 2), (3, 2)), ((2,), ()), ((), (2,)), ((2,), (3, 2)), ((), (3, 2)), ((3, 1), (1, 2)))
OBJ_ANCHORS_VAR = (((2,), (2,), (2,)), ((3, 2), (3, 2), (3, 2)), ((2,), (), ()), ((), (2,), ()), ((3, 2), (2,), ()))


def obj_core(o):
    """the plain configurations: replayed on every case (exact) / on the larger sample (variational) in the quick tier"""
    return o["lik"] == "gaussian" and not o["prior"] and o["added"] == "none" and o["combine"]


def _dispatch(item):
    import time
    t0 = time.process_time()
    res = WORKERS[item["kind"]](item)
    if res:
        res[0]["cpu"] = (item["kind"], time.process_time() - t0)       # (accounting only: share of the replay time per kind of module)
    return res


def _group(cases, keys):
    out = {}
    for c in cases:
        out.setdefault(tuple(tuple(c[k]) for k in keys), []).append(c)
    return out


def run(ck):
    thorough = ck.tier == "thorough"
    core.setup_torch()
    import random
    ck.rule = ("cases = every (parameter batch shape P, data batch shapes D1, D2) of rank 0..2 over sizes {1,2,3} that broadcasts (TLC, exhaustive), "
               "times every element b of the broadcast batch, times every batch-capable module and evaluation mode; one evaluation = one element "
               "of a batched output compared with its non-batched replica; distinct = distinct (module, mode, P, D1, D2); non-trivial = the "
               "broadcast batch has at least two elements (cross-talk is observable).  Composite kernels: the triple read as (A, B, D) = the batch "
               "shapes owned by the nodes of the kernel tree and the data batch, times every row count of the case's size-coincidence classes "
               "(generic, = feature size, = size of a batch axis), times diag / lazy diagonal / full evaluation.  Model lists: every sequence of "
               "member kinds of length 1..3 (TLC), each on triples of member batch shapes, times every operation of the list.  Objectives: every "
               "constructible configuration (class of gpytorch.mlls x likelihood / noise model x priors x added loss x combine_terms; TLC) on triples "
               "of the lattice, every element (and with combine_terms=False every term) compared in value with the replica.  Missing observations: every "
               "pattern of missing entries (TLC: per batch shape of rank 0..2, built axis by axis; classes none / same / one element complete / "
               "different) x who carries the batch (hyperparameters and inputs / hyperparameters only / inputs only) x NaN policy (mask, fill); "
               "one evaluation = one element of the batched output compared with the non-batched replica on its slice with the dropped entries deleted")
    ck.assumptions = [
        "replica = a freshly constructed non-batched module of the same class holding slice ShUnb(b, P) of every parameter and buffer "
        "(a parameter of a sub-module built without batch shape is shared), applied to slices ShUnb(b, D1), ShUnb(b, D2) of the data",
        "parameters are set on the raw tensors (uniform in (-1, 1), distinct in every batch element); float64; tolerance 1e-10 for kernels, means "
        "and the likelihood, 1e-7 relative + 1e-9 absolute for prior / posterior / mll / q(f) / KL / ELBO",
        "exact GP: P = batch shape of mean, kernel and likelihood, D1 = batch shape of the training inputs, D2 = of the test inputs; the targets "
        "have batch shape broadcast(P, D1)",
        "SVGP: P = batch shape of the variational distribution and the hyperparameters, D1 = of the inputs, D2 = of the inducing points; the "
        "KL term is stored with the batch shape of what it depends on and is compared after broadcasting it to the output batch",
        "the mean of a likelihood marginal may be stored un-broadcast; it is compared after broadcasting it to the batch shape of the covariance",
        "k(x1) and k(x1, diag=True) (x2 omitted) are evaluated under no_grad: with parameters that require grad the zero distance of a point "
        "to itself carries sqrt(eps) rounding noise (1e-8) in non-squared-distance kernels, batched or not",
        "IndependentModelList: the members have batch shapes P, D1, D2, likelihood kinds from Batch.tla MemberKinds (Gaussian, fixed noise, fixed noise + "
        "learned noise) and a different mean / kernel per position; output i of __call__ (train, eval), likelihood, get_fantasy_model (noise list with "
        "None for the members without fixed noise; with and without fast_pred_var) is compared with the same operation on a deep copy of member i "
        "on its own (when the member on its own raises, the list raising too is agreement); SumMarginalLogLikelihood broadcasts the members' mlls",
        "composite kernels: a node built with batch_shape=A owns A; the parameters of a ScaleKernel have the batch shape of the kernel under it "
        "broadcast with what it owns (ScaleKernel.__init__ sizes outputscale by the batch_shape property): the replica holds slice ShUnb(b, .) of "
        "every parameter by the batch shape that parameter has (A, B or broadcast(A, B))",
        "size coincidences: the replay uses NPTS = 4 rows (the size of no batch axis and not the feature size) and, for the composite kernels and "
        "%d kernels of the plain catalogue, additionally rows = 2 (= feature size) and rows = the size of every axis of P, D1, D2; x2 has 3 rows" % len(CO_KERNELS),
        "lazy-diag: k(x1, x2).diagonal() (what MultivariateNormal.variance reads) against the same call on the replica; not for IndexKernel, whose "
        "forward ignores diag (its lazy diagonal raises, batched or not)",
        "objectives: ExactMarginalLogLikelihood and LeaveOneOutPseudoLikelihood on an exact GP (constant mean, ScaleKernel(Matern ARD)) with a Gaussian, "
        "fixed-noise (+ learned noise) or heteroskedastic (HeteroskedasticNoise over a noise GP; with and without NoiseModelAddedLossTerm) likelihood; "
        "VariationalELBO, PredictiveLogLikelihood and GammaRobustVariationalELBO (num_data=%d) on an SVGP (Cholesky q(u), whitened) with a Gaussian, "
        "fixed-noise, Student-t, Bernoulli, Laplace or Beta likelihood (Gaussian family only for the gamma-robust bound); SumMarginalLogLikelihood with "
        "mll_cls = exact / leave-one-out over the model lists.  With priors: the same non-batched Gamma / Normal prior on outputscale, constant, noise and "
        "lengthscale of the batched model and of the replica (the replica's log prior is the prior of its slice of the parameters).  A term returned by "
        "combine_terms=False is compared after broadcasting it to the batch of the objective.  DeepApproximateMLL / DeepPredictiveLogLikelihood average "
        "over their leading axis (samples / quadrature sites, not replicas) and InducingPointKernelAddedLossTerm belongs to a structured kernel: not replayed" % NUM_DATA,
        "missing observations (settings.observation_nan_policy; 'ignore' = the rest of the lattice, which has no missing entries): targets of batch "
        "shape Y with %d points per element, NaN at the positions of the pattern.  Replayed: exact GP posterior mean (mask, fill) and "
        "ExactMarginalLogLikelihood (mask; it rejects fill, batched or not), GaussianLikelihood / FixedNoiseGaussianLikelihood(learn_additional_noise) "
        "expected_log_prob and log_marginal point by point, VariationalELBO and PredictiveLogLikelihood of an SVGP (data term - KL).  The replica is "
        "evaluated WITHOUT a NaN policy on the slice with the entries deleted that Batch.tla's semantics drops from that element (fill: its own; mask: "
        "the documented union over the whole batch).  Only the batch-independence clause is decided here: the objectives divide the sum over the data by "
        "the number of points INCLUDING the missing ones (the reading the code satisfies; the replica's sum is divided by the same number), and the "
        "posterior covariance under a NaN policy (known finding of C16: conditioned on all inputs) is not compared" % NOBS,
        "derivative kernels (RBFKernelGrad, ...), structured kernels (Grid*, InducingPoint), HammingIMQ and the deprecated last_dim_is_batch "
        "kernels are not claimed batch-broadcast capable and are not replayed",
    ]
    ck.exhaustive = thorough
    ck.explanation = ("TLC enumerates the 2197 triples exhaustively in both tiers (1021 broadcast, 1176 are rejected); thorough replays every module "
                      "and mode on every triple and every element, quick does so for %d kernels, the means and the likelihood, and replays the "
                      "other kernels and the models on a seeded subset of the triples (every element of each); composite kernels: quick replays %d of "
                      "%d on every triple whose two node shapes are not both non-empty and different (inherit / own / both / none) and samples the "
                      "rest; every configuration of member kinds of the model lists is replayed in both tiers; every configuration of the objectives is "
                      "replayed in both tiers: thorough on every triple (the variational configurations with priors / other likelihoods / separate terms on "
                      "the anchors and a seeded quarter), quick on %d + %d anchor cases (batch ranks 1 and 2, parameters broadcast over the data "
                      "and the data over the parameters) and a seeded sample (the plain ExactMarginalLogLikelihood / LeaveOneOutPseudoLikelihood on every "
                      "(P, D1)); missing observations: thorough replays all 708 (batch shape, placement, pattern) cases under fill and (rank 2: a seeded third of them) under mask, quick one pattern per (batch rank, "
                      "placement, pattern class, varying axes) and policy plus a seeded 2%%" % (len(QUICK_FULL_KERNELS), len(STRUCT_QUICK_FULL), len(struct_catalogue()), len(OBJ_ANCHORS_EXACT), len(OBJ_ANCHORS_VAR)))
    import time
    timing = {}
    t0 = time.time()
    cases, rejected, preds, configs, objectives, nans = run_tlc(ck)
    timing["tlc"] = round(time.time() - t0, 1)
    ck.section("tlc", broadcastable_triples=len(cases), rejected_triples=len(rejected), elements=sum(len(c["reps"]) for c in cases))
    seed = ck.seed
    rnd = random.Random(seed)
    seeds = [seed * 1000 + s for s in range(3 if thorough else 1)]
    items = []
    chunk = (len(cases) + 7) // 8
    for i in range(0, len(cases), chunk):
        items.append(dict(kind="selfcheck", i=i, cases=cases[i:i + chunk], rejected=rejected if i == 0 else []))
    unary = [c for c in cases if c["D1"] == c["D2"]]

    def some(cs, frac):
        return cs if thorough else [c for c in cs if rnd.random() < frac]
    for si, s in enumerate(seeds):
        for name in kernel_catalogue():
            cs_k = cases if (name in QUICK_FULL_KERNELS and si == 0) or (thorough and si == 0) else some(cases, 0.12) if not thorough else \
                [c for c in cases if rnd.random() < 0.3]
            for (P,), cs in _group(cs_k, ["P"]).items():
                items.append(dict(kind="kernel", name=name, P=list(P), seed=s, cases=cs, thorough=thorough))
        # composite kernels: the triple read as (A, B, D)
        for name in struct_catalogue():
            full = name in STRUCT_QUICK_FULL
            if si > 0:
                continue
            if thorough:
                cs_s = cases if name in STRUCT_QUICK_FULL else [c for c in cases if placement(c["P"], c["D1"]) != "mixed" or rnd.random() < 0.15]
            elif full:
                cs_s = [c for c in cases if placement(c["P"], c["D1"]) != "mixed" or rnd.random() < 0.1]
            else:
                cs_s = [c for c in cases if rnd.random() < (0.05 if placement(c["P"], c["D1"]) != "mixed" else 0.02)]
            for (A, B), cs in _group(cs_s, ["P", "D1"]).items():
                items.append(dict(kind="struct", name=name, A=list(A), B=list(B), seed=s, cases=cs, thorough=thorough, full=full))
        for name in mean_catalogue():
            for (P,), cs in _group(unary, ["P"]).items():
                items.append(dict(kind="mean", name=name, P=list(P), seed=s, cases=cs))
        for (P,), cs in _group(unary, ["P"]).items():
            items.append(dict(kind="likelihood", P=list(P), seed=s, cases=cs))
    ev = list(exact_variants())
    sv = list(svgp_variants())
    for vi, variant in enumerate(ev if thorough else ev[:1]):
        for (P, D1), cs in _group(cases, ["P", "D1"]).items():
            cs = [c for c in cs if thorough or c["D1"] == c["D2"] or rnd.random() < 0.3]
            if cs:
                # quick: a quarter of the groups run the variant whose kernel inherits its batch shape instead of the first one
                v = INHERITING_EXACT if not thorough and rnd.random() < 0.25 else variant
                items.append(dict(kind="exact", variant=v, P=list(P), D1=list(D1), seed=seeds[0], cases=cs))
    for vi, variant in enumerate(sv if thorough else sv[:1]):
        for (P, D2), cs in _group(some(cases, 0.3), ["P", "D2"]).items():
            items.append(dict(kind="svgp", variant=variant, P=list(P), D2=list(D2), seed=seeds[0], cases=cs))
    # objectives: every configuration of Batch.tla on the anchors and on a sample of the lattice (the plain configurations: on all of it / more)
    tri = lambda c: (tuple(c["P"]), tuple(c["D1"]), tuple(c["D2"]))      # noqa: E731
    for o in objectives:
        if o["cls"] in OBJ_EXACT:
            frac = 1.0 if thorough or obj_core(o) else 0.08
            cs_o = [c for c in unary if tri(c)[:2] in OBJ_ANCHORS_EXACT or rnd.random() < frac]
        else:
            frac = (1.0 if obj_core(o) else 0.25) if thorough else (0.04 if obj_core(o) else 0.006)
            cs_o = [c for c in cases if tri(c) in OBJ_ANCHORS_VAR or rnd.random() < frac]
        for i in range(0, len(cs_o), 6):
            items.append(dict(kind="objective", obj=o, seed=seeds[0], cases=cs_o[i:i + 6]))
    # missing observations: every (batch shape, placement, pattern) of Batch.tla under both policies (thorough); quick: per (batch rank, placement,
    # pattern class, axes along which the pattern varies) one pattern under each policy, plus a seeded 4% of the rest under a seeded policy
    nan_sel, nan_groups = [], {}
    rnd_nan = random.Random(seed * 7919 + 8)          # (its own stream: the samples of the other families do not move)
    for nc in nans:
        nan_groups.setdefault((len(nc["Y"]), nc["place"], nc["cls"], tuple(nc["vary"])), []).append(nc)
    for gk in sorted(nan_groups):
        grp = nan_groups[gk]
        first = {pol: rnd_nan.randrange(len(grp)) for pol in NAN_POLICIES}
        if thorough:         # every pattern under fill; under mask every pattern of the batches of rank 0 and 1 and a seeded third of those of rank 2
            nan_sel += [(nc, pol) for j, nc in enumerate(grp) for pol in NAN_POLICIES if pol == "fill" or len(nc["Y"]) < 2 or first[pol] == j or rnd_nan.random() < 0.34]
            continue
        for j, nc in enumerate(grp):
            for pol in NAN_POLICIES:
                if first[pol] == j or rnd_nan.random() < 0.02:
                    nan_sel.append((nc, pol))
    for i in range(0, len(nan_sel), 3):
        items.append(dict(kind="nan", seed=seeds[0], cases=nan_sel[i:i + 3]))
    # model lists: every configuration of member kinds of Batch.tla (thorough: each on several triples; quick: the triples of a 10% sample
    # take the configurations in turn, heterogeneous ones first)
    by_len = {k: [c for c in configs if len(c["kinds"]) == k] for k in (1, 2, 3)}
    for k in by_len:
        by_len[k].sort(key=lambda c: (not c["variant_leaks"], not c["hetero"], c["kinds"]))
    sub = some(cases, 0.06) if not thorough else [c for c in cases if rnd.random() < 0.25]
    need = len(configs) + 12
    if len(sub) < need:
        sub = sub + [c for c in cases if not any(c is x for x in sub)][:need - len(sub)]

    if not all(by_len.values()):
        raise core.Machinery("Batch.tla (Family = list) dumped no configuration of some length: %s" % {k: len(v) for k, v in by_len.items()})

    def deal(cs, k):
        return [by_len[k][j % len(by_len[k])] for j in range(len(cs))]
    n1, n2 = (len(by_len[1]), len(by_len[2]) + 4) if not thorough else (4 * len(by_len[1]), 4 * len(by_len[2]))
    parts = [(1, sub[:n1]), (2, sub[n1:n1 + n2]), (3, sub[n1 + n2:])]
    replayed_configs = set()
    for k, cs in parts:
        cf = deal(cs, k)
        replayed_configs.update(tuple(c["kinds"]) for c in cf)
        for i in range(0, len(cs), 6):
            items.append(dict(kind="modellist", seed=seeds[0], cases=cs[i:i + 6], configs=cf[i:i + 6]))
    missing = [c["kinds"] for c in configs if tuple(c["kinds"]) not in replayed_configs]
    if missing:
        ck.vacuous("model lists: %d of %d configurations of member kinds were not replayed, e.g. %s" % (len(missing), len(configs), missing[0]))
    rnd.shuffle(items)
    t0 = time.time()
    results = core.pmap(_dispatch, items, chunksize=1)
    timing["replay"] = round(time.time() - t0, 1)
    # prediction (Batch.tla sites) against observation, per (kernel, mode, triple)
    pred_of = {(tuple(c["P"]), tuple(c["D1"]), tuple(c["D2"])): c["pred"] for c in cases}
    case_of = {(tuple(c["P"]), tuple(c["D1"]), tuple(c["D2"])): c for c in cases}
    structs = struct_catalogue()
    objs = {obj_name(o): o for o in objectives}
    obj_seen, obj_cfg_seen = {}, set()
    conf = {}
    counts = {}
    cpu = {}
    for r in results:
        if "cpu" in r:
            k, t = r.pop("cpu")
            cpu[k] = cpu.get(k, 0.0) + t
    ck.extra["replay_cpu_s_by_kind"] = {k: round(v, 1) for k, v in sorted(cpu.items())}
    nan_seen = set()
    for r in results:
        cell = r.pop("cell", None)
        if "nan" in r and not r.get("machinery"):
            info = r.pop("nan")
            d = counts.setdefault("missing-observations", dict(cells=0, element_comparisons=0, failing_cells=0, cells_fill=0, cells_mask=0,
                                                               cells_where_variant_nan_shared_mask_differs=0))
            d["cells"] += 1
            d["element_comparisons"] += r.get("n", 1)
            d["failing_cells"] += 0 if r["ok"] else 1
            d["cells_" + info["pol"]] += 1
            d["cells_where_variant_nan_shared_mask_differs"] += 1 if info["variant_differs"] else 0
            nan_seen.add((r["key"][1], r["key"][2], info["pol"], info["cls"], info["rank"], info["place"]))
            continue
        if r.get("machinery") or cell is None:
            continue
        kind = r["key"][0]
        d = counts.setdefault(kind, dict(cells=0, element_comparisons=0, failing_cells=0))
        d["cells"] += 1
        d["element_comparisons"] += r.get("n", 1)
        d["failing_cells"] += 0 if r["ok"] else 1
        if kind == "modellist":
            d["cells_where_list_and_member_both_raise"] = d.get("cells_where_list_and_member_both_raise", 0) + (1 if r.pop("both_raise", False) else 0)
        if kind == "objective":
            name, mode, P, D1, D2 = cell
            o = objs[name]
            d["cells_with_priors"] = d.get("cells_with_priors", 0) + (1 if o["prior"] else 0)
            cs = case_of[(P, D1, D2)]
            nb = len(cs["reps"])
            if nb >= 2:
                obj_seen.setdefault(o["cls"], set()).add(len(cs["out"]))
                if cs["vnorm"][o["cls"]] != "ok":
                    d["cells_where_variant_norm_numel_differs"] = d.get("cells_where_variant_norm_numel_differs", 0) + 1
                obj_cfg_seen.add(name)
            bad_sites = [s for s in obj_sites(o, mode) if pred_of[(P, D1, D2)][s] != "ok"]
        elif kind != "kernel":
            continue
        name, mode, P, D1, D2 = cell
        if kind == "objective":
            pass
        elif name in structs:
            # composite kernels: Batch.tla's structure predictions (the cells of the case whose outcome is not ok)
            if mode == "batch_shape":
                continue
            d2 = counts.setdefault("kernel-structure", dict(cells=0, element_comparisons=0, failing_cells=0, cells_on_a_size_coincidence=0,
                                                            cells_where_variant_diag_own_batch_differs=0))
            d2["cells"] += 1
            d2["element_comparisons"] += r.get("n", 1)
            d2["failing_cells"] += 0 if r["ok"] else 1
            base, n = mode_rows(mode)
            mk = {"diag": "diag", "diag-self": "diag", "lazy-diag": "lazydiag", "self": "self"}.get(base, "full")
            cs = case_of[(P, D1, D2)]
            d2["cells_on_a_size_coincidence"] += 1 if any(x["n"] == n and x["batch"] for x in cs["rows"]) else 0
            d2["cells_where_variant_diag_own_batch_differs"] += 1 if any(x[0] == structs[name][1] and x[1] == mk and x[2] == n and x not in cs["sbad"]
                                                                         for x in cs["vbad"]) else 0
            bad_sites = ["structure " + structs[name][1]] if any(
                x[0] == structs[name][1] and x[1] == mk and x[2] == (n if mk in ("diag", "lazydiag") else NPTS) for x in cs["sbad"]) else []
        else:
            sites = kernel_sites(name, mode)
            bad_sites = [s for s in sites if pred_of[(P, D1, D2)][s] != "ok"
                         # diag of k(x, x): the distance is exactly 0 and a mis-aligned alpha cannot change a value, only the shape
                         and not (mode_rows(mode)[0] == "diag-self" and s == "rq_alpha_diag" and pred_of[(P, D1, D2)][s] == "values")]
        for s in (bad_sites or ["<no site predicts a failure>"]):
            e = conf.setdefault(s, dict(predicted_and_failed=0, predicted_but_passed=0, unpredicted_failure=0, examples=[]))
            if bad_sites and not r["ok"]:
                e["predicted_and_failed"] += 1
            elif bad_sites:
                e["predicted_but_passed"] += 1
                if len(e["examples"]) < 3:
                    e["examples"].append("%s [%s] P=%s D1=%s D2=%s passes" % (name, mode, P, D1, D2))
            elif not r["ok"]:
                e["unpredicted_failure"] += 1
                if len(e["examples"]) < 3:
                    e["examples"].append("%s [%s] P=%s D1=%s D2=%s fails: %s" % (name, mode, P, D1, D2, r["sig"]))
    for s, e in conf.items():
        if e["predicted_but_passed"] or e["unpredicted_failure"]:
            ck.model_drift("Batch.tla site model %s and the code disagree: %d predicted failures pass, %d failures are not predicted; %s" % (
                s, e["predicted_but_passed"], e["unpredicted_failure"], "; ".join(e["examples"])))
    for s in preds:
        preds[s]["replay"] = {k: v for k, v in conf.get(s, {}).items() if k != "examples"}
    ck.extra["site_predictions"] = preds
    sigs = {}
    for r in results:
        if not r.get("ok", True) and r.get("sig"):
            k = "/".join(r["sig"].split("/")[:4])
            sigs[k] = sigs.get(k, 0) + 1
    ck.extra["failing_cells_by_module_and_mode"] = sigs
    ck.extra["timing_s"] = timing
    for kind, d in counts.items():
        ck.section(kind, **d)
    for cl in OBJ_CLASSES:
        if not {1, 2} <= obj_seen.get(cl, set()):
            ck.vacuous("objective %s: no cell with a batch of rank 1 and of rank 2 with two elements or more was replayed (ranks %s)" % (cl, sorted(obj_seen.get(cl, ()))))
    if set(objs) - obj_cfg_seen:
        ck.vacuous("objectives: %d of %d configurations were not replayed on a batch with two elements or more, e.g. %s" % (
            len(set(objs) - obj_cfg_seen), len(objs), sorted(set(objs) - obj_cfg_seen)[0]))
    if not counts.get("objective", {}).get("cells_where_variant_norm_numel_differs"):
        ck.vacuous("no replayed objective cell lies where Batch.tla tells the variant norm_numel from the code")
    mo = counts.get("missing-observations", {})
    if not mo.get("cells_where_variant_nan_shared_mask_differs"):
        ck.vacuous("no replayed missing-observation cell lies where Batch.tla tells the variant nan_shared_mask from the code")
    for mod, mode in (("exact", "posterior-mean"), ("GaussianLikelihood", "expected_log_prob"), ("GaussianLikelihood", "log_marginal"), ("svgp", "elbo"), ("svgp", "pll")):
        for cl in ("one_clean", "different"):
            for rank in (1, 2):
                if not any((mod, mode, "fill", cl, rank, pl) in nan_seen for pl in ("both", "params", "data")):
                    ck.vacuous("missing observations: %s %s was not replayed under 'fill' on a batch of rank %d with a pattern of class %s" % (mod, mode, rank, cl))
    for need in ("kernel", "kernel-structure", "mean", "likelihood", "exact", "svgp", "modellist", "objective", "missing-observations"):
        if not counts.get(need, {}).get("cells"):
            ck.vacuous("no %s cell was replayed" % need)
    if not counts.get("kernel-structure", {}).get("cells_where_variant_diag_own_batch_differs") and "call_diag" in REPAIRED:
        ck.vacuous("no replayed composite-kernel cell lies where Batch.tla tells the variant diag_own_batch from the code")
    ml = counts.get("modellist", {})
    if ml.get("cells") and ml.get("cells_where_list_and_member_both_raise", 0) * 4 > ml["cells"]:
        ck.vacuous("model lists: in %d of %d cells the members raise on their own" % (ml["cells_where_list_and_member_both_raise"], ml["cells"]))
    # samples: a broadcasting case with its replica indices
    shown = 0
    for r in results:
        if shown < 3 and r.get("ok") and r.get("nontrivial") and r["key"][0] in ("kernel", "exact", "svgp"):
            k = r["key"]
            c = next(c for c in cases if c["P"] == k[3] and c["D1"] == k[4] and c["D2"] == k[5])
            if c["P"] != c["out"] and len(c["reps"]) >= 4:
                r["sample"] = dict(module=k[1], kind=k[0], mode=k[2], P=k[3], D1=k[4], D2=k[5], out=c["out"],
                                   replicas=[dict(b=x["b"], params=x["p"], data1=x["d1"], data2=x["d2"]) for x in c["reps"][:6]])
                shown += 1
    ck.absorb(results)


def replay(rep):
    torch = core.setup_torch()
    c = rep["case"]
    if "arg" in c and "case" not in c:       # a cell recorded by harness.core when the library raised outside a guarded call: re-run the item
        try:
            res = _dispatch(c["arg"])
        except core.Machinery:
            raise
        except Exception as e:  # noqa
            print("VIOLATION property=C08 replay=- :: %s :: the library raised %s: %s" % (rep.get("signature"), type(e).__name__, str(e)[:300]))
            return 1
        bad = [r for r in res if r.get("machinery") or not r.get("ok", True)]
        for r in bad:
            print("VIOLATION property=C08 replay=- :: %s :: %s" % (r.get("sig", "machinery"), r.get("detail", r.get("machinery"))))
        if not bad:
            print("replay passed")
        return 1 if bad else 0
    case = dict(c["case"])
    case.setdefault("pred", {})
    kind, name, seed = c["kind"], c["name"], c["seed"]
    if kind == "kernel" and name in struct_catalogue():
        make = struct_catalogue()[name][0]
        kb = _randomize(torch, make(tuple(case["P"]), tuple(case["D1"])), _gen(torch, seed, "params", name, case["P"], case["D1"]))
        if c["mode"] == "batch_shape":
            res = struct_worker(dict(name=name, A=case["P"], B=case["D1"], seed=seed, cases=[case], thorough=True, full=True))[:1]
        else:
            res = [kernel_cell(torch, name, make, "real", kb, {}, case, c["mode"], seed, struct=True)]
    elif kind == "kernel":
        make, dk = kernel_catalogue()[name][:2]
        kb = _randomize(torch, make(tuple(case["P"])), _gen(torch, seed, "params", name, case["P"]))
        res = [kernel_cell(torch, name, make, dk, kb, {}, case, c["mode"], seed)]
    elif kind == "mean":
        res = mean_worker(dict(name=name, P=case["P"], seed=seed, cases=[case]))
    elif kind == "likelihood":
        res = likelihood_worker(dict(P=case["P"], seed=seed, cases=[case]))
    elif kind == "exact":
        ycase = dict(case, D2=case["D1"]) if c["mode"] in ("prior-mean", "prior-covariance", "mll", "prior-variance") else case
        res = exact_worker(dict(variant=name, P=case["P"], D1=case["D1"], seed=seed, cases=[ycase]))
    elif kind == "svgp":
        res = svgp_worker(dict(variant=name, P=case["P"], D2=case["D2"], seed=seed, cases=[case]))
    elif kind == "modellist":
        res = modellist_worker(dict(seed=seed, cases=[case], configs=[c["config"]]))
    elif kind == "nan":
        mod = name if name in NAN_MODULES else "likelihood"
        res = [r for r in nan_worker(dict(seed=seed, cases=[(c["case"], c["pol"])], modules=[mod])) if r["key"][1] == name]
    elif kind == "objective":
        res = objective_worker(dict(obj=c["obj"], seed=seed, cases=[case]))
    else:
        print("MACHINERY-FAILURE unknown replay kind", kind)
        return 2
    bad = [r for r in res if not r.get("ok", True) and (r["key"][2] == c["mode"] or kind == "modellist")]
    for r in bad:
        print("VIOLATION property=C08 replay=- :: %s :: %s" % (r["sig"], r["detail"]))
    if not bad:
        print("replay passed")
    return 1 if bad else 0
