"""C14 helpers: real variational models for every strategy x distribution cell, and the closed forms of the property
(q(f) = q(u) pushed through p(f | u); KL(q(u) || p(u))) evaluated with torch.linalg on the model's OWN prior
(mean values and kernel matrices, jitter added where the strategy adds it - table StratInfo of VariationalQF.tla)."""
import math

import torch

import gpytorch
from gpytorch.distributions import MultivariateNormal
from gpytorch import variational as V

D = torch.float64

STRATS = ("VariationalStrategy", "UnwhitenedVariationalStrategy", "BatchDecoupledVariationalStrategy",
          "OrthogonallyDecoupledVariationalStrategy", "CiqVariationalStrategy", "GridInterpolationVariationalStrategy",
          "LMCVariationalStrategy", "IndependentMultitaskVariationalStrategy")
DIST_CLS = dict(Cholesky=V.CholeskyVariationalDistribution, MeanField=V.MeanFieldVariationalDistribution,
                Delta=V.DeltaVariationalDistribution, Natural=V.NaturalVariationalDistribution,
                TrilNatural=V.TrilNaturalVariationalDistribution)
DEFAULT_JITTER = 1e-6       # settings.variational_cholesky_jitter for float64
GRID_PRIOR_JITTER = 1e-3    # GridInterpolationVariationalStrategy.prior_distribution: add_jitter(1e-3)
# VariationalQF.tla JitArgs: jitter_val as a constructor argument (none: not given; dflt: the dtype default given explicitly)
JIT_VALUES = dict(none=None, dflt=DEFAULT_JITTER, zero=0.0, small=0.03, large=0.25)
LEGACY_DISTS = ("Cholesky", "Natural", "TrilNatural")      # VariationalQF.tla LegacyDists
UNWHITENED_EVAL_PRIOR_JITTER = 1e-3   # UnwhitenedVariationalStrategy.prior_distribution: add_jitter() default (None = jitter_val, if it is ever repaired)


class Model(gpytorch.models.ApproximateGP):
    def __init__(self, make_strategy, mean_module, covar_module):
        strategy = make_strategy(self)
        super().__init__(strategy)
        self.mean_module = mean_module
        self.covar_module = covar_module

    def forward(self, x):
        return MultivariateNormal(self.mean_module(x), self.covar_module(x))


# ------------------------------------------------------------------------------------------------------------------
# prior pieces
def make_prior(kind, d, batch_shape=(), hyper=None):
    """mean and covariance modules; kind 'linear' is the rational family (K = x.x', m = w.x + b)."""
    bs = torch.Size(batch_shape)
    if kind == "linear":
        covar = gpytorch.kernels.LinearKernel(batch_shape=bs)
        mean = gpytorch.means.LinearMean(input_size=d, batch_shape=bs)
    else:
        if kind == "rbf":
            base = gpytorch.kernels.RBFKernel(ard_num_dims=d, batch_shape=bs)
        else:
            base = gpytorch.kernels.MaternKernel(nu=2.5 if kind == "matern25" else 1.5, ard_num_dims=d, batch_shape=bs)
        covar = gpytorch.kernels.ScaleKernel(base, batch_shape=bs)
        mean = gpytorch.means.ConstantMean(batch_shape=bs)
    covar, mean = covar.to(D), mean.to(D)
    with torch.no_grad():
        if kind == "linear":
            covar.variance = torch.ones(*bs, 1, 1, dtype=D)
            w, b = hyper if hyper is not None else ([0] * d, 0)
            mean.weights.copy_(torch.tensor(w, dtype=D).reshape(d, 1).expand(*bs, d, 1))
            mean.bias.copy_(torch.tensor(float(b), dtype=D).expand(*bs, 1))
        else:
            nb = int(torch.Size(bs).numel())
            ls0 = 0.9 if hyper is None else hyper
            ls = torch.tensor([[ls0 + 0.15 * (k % 5) + 0.04 * (k // 5) + 0.1 * i for i in range(d)] for k in range(nb)], dtype=D).reshape(*bs, 1, d)
            covar.base_kernel.lengthscale = ls
            covar.outputscale = torch.tensor([1.3 - 0.2 * (k % 5) + 0.03 * (k // 5) for k in range(nb)], dtype=D).reshape(bs)
            mean.constant.copy_(torch.tensor([0.3 - 0.5 * (k % 5) + 0.07 * (k // 5) for k in range(nb)], dtype=D).reshape(bs))
    return mean, covar


def prior_on(model, pts):
    """the prior the model evaluates to on pts: (mean [..., P], K [..., P, P]) as dense float64 tensors"""
    with torch.no_grad():
        o = model.forward(pts)
        return o.mean.clone(), o.lazy_covariance_matrix.to_dense().clone()


def eye(n):
    return torch.eye(n, dtype=D)


# ------------------------------------------------------------------------------------------------------------------
# what the parameters of a variational distribution encode
def dist_moments(dist, raw):
    """raw: tuple of parameter tensors as stored in the module -> (mean, S or None for a point mass)."""
    if dist == "Cholesky":
        m, C = raw
        Lc = torch.tril(C)
        return m, Lc @ Lc.transpose(-1, -2)
    if dist == "MeanField":
        m, sd = raw
        return m, torch.diag_embed(sd * sd)
    if dist == "Delta":
        return raw[0], None
    if dist == "Natural":
        th1, Th2 = raw
        S = -0.5 * torch.linalg.inv(Th2)
        return (S @ th1.unsqueeze(-1)).squeeze(-1), S
    if dist == "TrilNatural":
        th1, T = raw
        T = torch.tril(T)                                              # a triangular factor: the strictly upper part is not read
        Th2 = -0.5 * T.transpose(-1, -2) @ T
        S = -0.5 * torch.linalg.inv(Th2)
        return (S @ th1.unsqueeze(-1)).squeeze(-1), S
    raise ValueError(dist)


PARAM_NAMES = dict(Cholesky=("variational_mean", "chol_variational_covar"), MeanField=("variational_mean", "_variational_stddev"),
                   Delta=("variational_mean",), Natural=("natural_vec", "natural_mat"), TrilNatural=("natural_vec", "natural_tril_mat"))


def read_raw(dist, module):
    return tuple(getattr(module, n).detach().clone() for n in PARAM_NAMES[dist])


def write_raw(dist, module, raw):
    with torch.no_grad():
        for n, t in zip(PARAM_NAMES[dist], raw):
            p = getattr(module, n)
            p.copy_(t.expand(p.shape))


def raw_from_moments(dist, m, S):
    """parameters encoding the Gaussian N(m, S) (S symmetric positive definite) - float conversion used when the
    spec states q(u) and the strategy wants whitened parameters"""
    if dist == "Cholesky":
        return (m, torch.linalg.cholesky(S))
    if dist == "Delta":
        return (m,)
    if dist == "MeanField":
        return (m, S.diagonal(dim1=-1, dim2=-2).sqrt())
    P = torch.linalg.inv(S)
    th1 = (P @ m.unsqueeze(-1)).squeeze(-1)
    if dist == "Natural":
        return (th1, -0.5 * P)
    if dist == "TrilNatural":
        # T lower triangular with T^T T = P:  S = A A^T (A lower)  =>  P = A^-T A^-1, T = A^-1
        A = torch.linalg.cholesky(S)
        return (th1, torch.linalg.inv(A))
    raise ValueError(dist)


def seeded_raw(dist, M, bp, g):
    """well conditioned seeded parameters with batch shape bp"""
    m = torch.randn(*bp, M, generator=g, dtype=D) * 0.7
    C = torch.tril(torch.randn(*bp, M, M, generator=g, dtype=D) * 0.25, -1) + torch.diag_embed(0.6 + 0.6 * torch.rand(*bp, M, generator=g, dtype=D))
    if dist == "Cholesky":
        junk = torch.triu(torch.ones(M, M, dtype=D), 1) * 3.7          # the strictly upper part is not part of the encoding
        return (m, C + junk)
    if dist == "MeanField":
        sd = C.diagonal(dim1=-1, dim2=-2).clone()
        sd[..., 0] = -sd[..., 0]                                       # the sign of a standard deviation is irrelevant
        return (m, sd)
    if dist == "Delta":
        return (m,)
    if dist == "Natural":
        return (m, -0.5 * (C @ C.transpose(-1, -2)))
    if dist == "TrilNatural":
        return (m, C)
    raise ValueError(dist)


# VariationalQF.tla part "qu": structure / conditioning of q(u) (QClasses) x number of inducing points relative to the iteration cap of
# the Lanczos eigenvalue estimate (MSizes; QuM must equal MOf of the spec, compared with TLC's states on every run)
QU_CLASSES = ("nearprior", "diag", "dense", "ill")
QU_M = dict(below=16, above=24)
QU_SPECTRUM = dict(diag=2.0, dense=2.0, ill=4.0)      # log10 of the condition number of the precision of q (eigenvalues 1 .. 10^x)


def qu_raw(dist, qclass, M, bp, g, prior=None):
    """parameters of the q-class in the coordinates of the strategy.  prior: (mean, covariance) of the prior in those coordinates
    (None: N(0, I), the whitened strategies).  nearprior: the prior, perturbed by 1e-2 (mean) / 1e-3 (covariance factor);
    diag: diagonal precision with entries 1..1e2; dense: dense precision (random orthogonal eigenvectors) with eigenvalues 1..1e2;
    ill: the same with eigenvalues 1..1e4 (diagonal for a mean-field module)."""
    bp = tuple(bp)
    I = eye(M).expand(*bp, M, M)
    if qclass == "nearprior":
        m0, S0 = prior if prior is not None else (torch.zeros(*bp, M, dtype=D), I)
        m0, S0 = m0.expand(*bp, M), S0.expand(*bp, M, M)
        E = I + 1e-3 * torch.randn(*bp, M, M, generator=g, dtype=D)
        m = m0 + 1e-2 * torch.randn(*bp, M, generator=g, dtype=D)
        S = E @ S0 @ E.transpose(-1, -2)
    else:
        lam = torch.logspace(0, QU_SPECTRUM[qclass], M, dtype=D)
        lam = torch.stack([lam[torch.randperm(M, generator=g)] for _ in range(int(torch.Size(bp).numel()))]).reshape(*bp, M)
        if qclass == "diag" or dist == "MeanField":
            Qm = I
        else:
            Qm, _ = torch.linalg.qr(torch.randn(*bp, M, M, generator=g, dtype=D))
        S = Qm @ torch.diag_embed(1.0 / lam) @ Qm.transpose(-1, -2)
        m = torch.randn(*bp, M, generator=g, dtype=D) * 0.7
    S = 0.5 * (S + S.transpose(-1, -2))
    if dist == "MeanField":
        S = torch.diag_embed(S.diagonal(dim1=-1, dim2=-2))
    raw = raw_from_moments(dist, m, S)
    if dist == "Natural":
        raw = (raw[0], 0.5 * (raw[1] + raw[1].transpose(-1, -2)))
    return raw


# ------------------------------------------------------------------------------------------------------------------
# the closed forms of the property
def qf_closed(mx, Kxx, Kxz, Kzz, mz, mu, Su):
    """mean mx + Kxz Kzz^-1 (mu - mz);  covariance Kxx - Kxz Kzz^-1 (Kzz - Su) Kzz^-1 Kzx  (Su None: point mass)"""
    A = torch.linalg.solve(Kzz, Kxz.transpose(-1, -2)).transpose(-1, -2)
    mean = mx + (A @ (mu - mz).unsqueeze(-1)).squeeze(-1)
    mid = Kzz if Su is None else Kzz - Su
    cov = Kxx - A @ mid @ A.transpose(-1, -2)
    return mean, cov


def kl_closed(mu, Su, mz, Kzz):
    """KL(N(mu, Su) || N(mz, Kzz)); for a point mass the convention of the code base: -log N(mu; mz, Kzz)"""
    k = Kzz.shape[-1]
    dlt = (mu - mz).unsqueeze(-1)
    quad = (dlt.transpose(-1, -2) @ torch.linalg.solve(Kzz, dlt)).squeeze(-1).squeeze(-1)
    ldK = torch.linalg.slogdet(Kzz)[1]
    if Su is None:
        return 0.5 * (k * math.log(2 * math.pi) + ldK + quad)
    tr = torch.linalg.solve(Kzz, Su.expand(torch.broadcast_shapes(Su.shape, Kzz.shape))).diagonal(dim1=-1, dim2=-2).sum(-1)
    return 0.5 * (tr + quad - k + ldK - torch.linalg.slogdet(Su)[1])


def white_point_kl(m):
    """point mass in a whitened strategy: -log N(m; 0, I) (the density is taken in the strategy's own coordinates)"""
    return 0.5 * (m.shape[-1] * math.log(2 * math.pi) + (m * m).sum(-1))


def sym_sqrt(K):
    ev, U = torch.linalg.eigh(K)
    return U @ torch.diag_embed(ev.sqrt()) @ U.transpose(-1, -2)


def unwhiten(W, mz, m, S):
    """u = mz + W e with e ~ N(m, S)"""
    mu = mz + (W @ m.unsqueeze(-1)).squeeze(-1)
    return mu, (None if S is None else W @ S @ W.transpose(-1, -2))


def whiten(W, mz, mu, Su):
    Wi = torch.linalg.inv(W)
    m = (Wi @ (mu - mz).unsqueeze(-1)).squeeze(-1)
    return m, (None if Su is None else Wi @ Su @ Wi.transpose(-1, -2))


# ------------------------------------------------------------------------------------------------------------------
# building the real model of a cell
def base_name(cfg):
    return cfg.get("base", "VariationalStrategy")


def latent_dim(cfg):
    """the batch dimension of the wrapped strategy that holds the latent functions / tasks (negative index; VariationalQF.tla
    LatentDim); cfg["given"] is the same dimension as the independent wrapper is given it (may be non-negative)"""
    return cfg.get("ld", -1)


def mv_dim(cfg):
    """mean_var_batch_dim of the batch-decoupled strategy (VariationalQF.tla MVInfo; None: not named)"""
    if "mvd" in cfg:
        return cfg["mvd"]
    return -1 if cfg.get("variant") == "split" else None


def build(cfg, Z, prior_hyper=None, Zc=None):
    """cfg: strat, dist, bp (batch shape of the variational parameters), kernel, jitter (None = library default),
    variant.  Z: inducing points [*bz, M, d] (ignored by the grid strategy).  Returns the model in float64 with
    `variational_params_initialized` set so that the parameters written afterwards are the ones compared."""
    strat, dist = cfg["strat"], cfg["dist"]
    bp = torch.Size(cfg.get("bp", ()))
    jv = cfg.get("jitter")
    d = Z.shape[-1] if Z is not None else 1
    kbatch = ()
    if strat == "BatchDecoupledVariationalStrategy" and cfg.get("variant") == "split":
        kbatch = tuple(cfg["kb"]) if cfg.get("kb") is not None else (2,)
    if strat in ("LMCVariationalStrategy", "IndependentMultitaskVariationalStrategy") and cfg.get("variant") == "batchkernel":
        kbatch = tuple(cfg["kb"]) if cfg.get("kb") is not None else (cfg["Q"],)
    mean, covar = make_prior(cfg["kernel"], d, kbatch, prior_hyper)
    M = Z.shape[-2] if Z is not None else None
    kw = {} if jv is None else dict(jitter_val=jv)

    def mk(model):
        if strat in ("VariationalStrategy", "UnwhitenedVariationalStrategy", "CiqVariationalStrategy"):
            return getattr(V, strat)(model, Z, DIST_CLS[dist](M, batch_shape=bp), learn_inducing_locations=True, **kw)
        if strat == "BatchDecoupledVariationalStrategy":
            # Z: [*bz, 2, M, d] (mean set, variance set) - for mean_var_batch_dim = -2: [2, *bp, M, d]; the constructor stacks one set
            # twice, the parameter is overwritten below
            mvd = mv_dim(cfg)
            return V.BatchDecoupledVariationalStrategy(model, Z.select((mvd or -1) - 2, 0), DIST_CLS[dist](M, batch_shape=bp), learn_inducing_locations=True,
                                                       mean_var_batch_dim=mvd, **kw)
        if strat == "OrthogonallyDecoupledVariationalStrategy":
            cov_vs = getattr(V, base_name(cfg))(model, Zc, DIST_CLS[dist](Zc.shape[-2], batch_shape=torch.Size(cfg.get("bpc", ()))), learn_inducing_locations=True, **kw)
            return V.OrthogonallyDecoupledVariationalStrategy(cov_vs, Z, V.DeltaVariationalDistribution(M, batch_shape=bp), **kw)
        if strat == "GridInterpolationVariationalStrategy":
            gs, gb = cfg["grid_size"], [tuple(b) for b in cfg["grid_bounds"]]
            return V.GridInterpolationVariationalStrategy(model, gs, gb, DIST_CLS[dist](gs ** len(gb), batch_shape=bp))
        if strat == "LMCVariationalStrategy":
            b = getattr(V, base_name(cfg))(model, Z, DIST_CLS[dist](M, batch_shape=bp), learn_inducing_locations=True, **kw)
            return V.LMCVariationalStrategy(b, num_tasks=cfg["T"], num_latents=cfg["Q"], latent_dim=latent_dim(cfg), **kw)
        if strat == "IndependentMultitaskVariationalStrategy":
            b = getattr(V, base_name(cfg))(model, Z, DIST_CLS[dist](M, batch_shape=bp), learn_inducing_locations=True, **kw)
            return V.IndependentMultitaskVariationalStrategy(b, num_tasks=cfg["Q"], task_dim=cfg.get("given", latent_dim(cfg)))
        raise ValueError(strat)

    model = Model(mk, mean, covar).to(D)
    vs = model.variational_strategy
    for mod in model.modules():
        if "variational_params_initialized" in getattr(mod, "_buffers", {}):
            mod.variational_params_initialized.fill_(1)
    if strat == "BatchDecoupledVariationalStrategy":
        with torch.no_grad():
            vs.inducing_points.copy_(Z.expand(vs.inducing_points.shape) if Z.dim() == vs.inducing_points.dim() else Z)
    return model


def param_module(cfg, model):
    """the _VariationalDistribution module that carries q(u) of the cell (the covariance strategy's for the
    orthogonally decoupled strategy; its Delta mean distribution is returned by mean_module_of)"""
    vs = model.variational_strategy
    s = cfg["strat"]
    if s in ("LMCVariationalStrategy", "IndependentMultitaskVariationalStrategy"):
        return vs.base_variational_strategy._variational_distribution
    if s == "OrthogonallyDecoupledVariationalStrategy":
        return vs.base_variational_strategy._variational_distribution
    return vs._variational_distribution


def joint(model, Z, X):
    """prior on [Z; X] with broadcast batch shapes: mz, mx, Kzz, Kxz, Kxx"""
    bs = torch.broadcast_shapes(Z.shape[:-2], X.shape[:-2])
    Zb, Xb = Z.expand(*bs, *Z.shape[-2:]), X.expand(*bs, *X.shape[-2:])
    mu, K = prior_on(model, torch.cat([Zb, Xb], dim=-2))
    M = Z.shape[-2]
    return mu[..., :M], mu[..., M:], K[..., :M, :M], K[..., M:, :M], K[..., M:, M:]


def jit(cfg):
    return DEFAULT_JITTER if cfg.get("jitter") is None else cfg["jitter"]


# where the strategies add jitter and in which coordinates their parameters live: must equal StratInfo of VariationalQF.tla
# (checked against TLC's lattice states on every run)
FACTS = {
    "VariationalStrategy": dict(white="chol", xjit=1, kljit="jv", wraps=False),
    "UnwhitenedVariationalStrategy": dict(white="none", xjit=0, kljit="1e-3/jv", wraps=False),
    "BatchDecoupledVariationalStrategy": dict(white="chol", xjit=1, kljit="jv", wraps=False),
    "OrthogonallyDecoupledVariationalStrategy": dict(white="none", xjit=0, kljit="jv", wraps=True),
    "CiqVariationalStrategy": dict(white="sym", xjit=2, kljit="jv", wraps=False),
    "GridInterpolationVariationalStrategy": dict(white="interp", xjit=0, kljit="1e-3", wraps=False),
    "LMCVariationalStrategy": dict(white="base", xjit=0, kljit="base", wraps=True),
    "IndependentMultitaskVariationalStrategy": dict(white="base", xjit=0, kljit="base", wraps=True),
}


def inducing_qf(strat, cfg, model, vs, dist, mod, X, mode, kl_after_forward):
    """closed form for one inducing-point strategy object vs (VariationalStrategy / Unwhitened / Ciq) whose variational
    distribution module is mod: mean, cov, kl, plus per strategy facts"""
    j = jit(cfg)
    Z = vs.inducing_points.detach()
    mz, mx, Kzz, Kxz, Kxx = joint(model, Z, X)
    M = Z.shape[-2]
    m, S = dist_moments(dist, read_raw(dist, mod))
    Kj = Kzz + j * eye(M)
    f = FACTS[strat]
    ov = cfg.get("ov") or {}
    if f["white"] in ("chol", "sym"):
        W = torch.linalg.cholesky(Kj) if f["white"] == "chol" else sym_sqrt(Kj)
        mu, Su = unwhiten(W, mz, m, S)
        if cfg.get("qu_direct") is not None:
            # a legacy checkpoint was loaded: q(u) is what the checkpoint's parameters encode in the coordinates of u (VariationalQF.tla LoadLegacy)
            mu, Su = cfg["qu_direct"]
            if Su is None:
                raise ValueError("oracle: a legacy checkpoint of a point mass is not part of the model")
        xj = f["xjit"] * j
        if strat == "CiqVariationalStrategy" and dist == "Natural":
            xj = j                                                    # its NGD path adds jitter_val to Kxx once
        if "xjit" in ov:
            xj = ov["xjit"] * j
        mean, cov = qf_closed(mx, Kxx + xj * eye(X.shape[-2]), Kxz, Kj, mz, mu, Su)
        kl = kl_closed(mu, Su, mz, Kj) if S is not None else white_point_kl(m)
    elif f["white"] == "none":
        mean, cov = qf_closed(mx, Kxx, Kxz, Kj, mz, m, S)
        # p(u) of kl_divergence(): training mode after a forward call: Kzz + jitter_val I; otherwise Kzz + 1e-3 I
        jk = j if (mode == "train" and kl_after_forward) or UNWHITENED_EVAL_PRIOR_JITTER is None else UNWHITENED_EVAL_PRIOR_JITTER
        if ov.get("klswap") and UNWHITENED_EVAL_PRIOR_JITTER is not None:
            jk = UNWHITENED_EVAL_PRIOR_JITTER if jk == j else j
        mzz, Kz0 = prior_on(model, Z)
        kl = kl_closed(m, S, mzz, Kz0 + jk * eye(M)) if jk != j else kl_closed(m, S, mz, Kj)
    else:
        raise ValueError(strat)
    return mean, cov, kl


def oracle(cfg, model, X, mode="eval", kl_after_forward=True):
    """closed form of the cell on the model's own prior and CURRENT parameters -> dict(mean, cov, kl[, note])"""
    strat, dist = cfg["strat"], cfg["dist"]
    vs = model.variational_strategy
    j = jit(cfg)
    with torch.no_grad():
        if strat in ("VariationalStrategy", "UnwhitenedVariationalStrategy", "CiqVariationalStrategy"):
            if strat == "UnwhitenedVariationalStrategy" and cfg.get("x_is_z"):
                m, S = dist_moments(dist, read_raw(dist, vs._variational_distribution))
                _, _, kl = inducing_qf(strat, cfg, model, vs, dist, vs._variational_distribution, X, mode, False)
                return dict(mean=m, cov=S, kl=kl)
            mean, cov, kl = inducing_qf(strat, cfg, model, vs, dist, vs._variational_distribution, X, mode, kl_after_forward)
            return dict(mean=mean, cov=cov, kl=kl)
        if strat == "BatchDecoupledVariationalStrategy":
            Z = vs.inducing_points.detach()                      # [*bz, 2, M, d]; the mean / variance dimension sits at batch index mvd
            mvd = mv_dim(cfg) or -1
            Xe = X.unsqueeze(mvd - 2)                            # the inputs have no mean / variance dimension
            mz, mx, Kzz, Kxz, Kxx = joint(model, Z, Xe)
            # the closed form below reads the mean set / variance set from the LAST batch dimension
            mz, mx = mz.movedim(mvd - 1, -2), mx.movedim(mvd - 1, -2)
            Kzz, Kxz, Kxx = Kzz.movedim(mvd - 2, -3), Kxz.movedim(mvd - 2, -3), Kxx.movedim(mvd - 2, -3)      # [..., 2, ...]
            M, N = Z.shape[-2], X.shape[-2]
            m, S = dist_moments(dist, read_raw(dist, vs._variational_distribution))
            Kj = Kzz + j * eye(M)
            W = torch.linalg.cholesky(Kj)
            sel = lambda t, h, nd: t.select(-1 - nd, h)
            mu, _ = unwhiten(sel(W, 0, 2), sel(mz, 0, 1), m, None)
            mean, _ = qf_closed(sel(mx, 0, 1), sel(Kxx, 0, 2), sel(Kxz, 0, 2), sel(Kj, 0, 2), sel(mz, 0, 1), mu, None)
            _, Su = unwhiten(sel(W, 1, 2), sel(mz, 1, 1), m, S)
            _, cov = qf_closed(sel(mx, 1, 1), sel(Kxx, 1, 2) + j * eye(N), sel(Kxz, 1, 2), sel(Kj, 1, 2), sel(mz, 1, 1), sel(mz, 1, 1), Su)
            kl = kl_closed(m, S, torch.zeros_like(m), eye(M).expand(*m.shape[:-1], M, M))
            return dict(mean=mean, cov=cov, kl=kl)
        if strat == "OrthogonallyDecoupledVariationalStrategy":
            base = vs.base_variational_strategy
            bname = base_name(cfg)
            Zm = vs.inducing_points.detach()
            a = vs._variational_distribution.variational_mean.detach()
            N, Mm = X.shape[-2], Zm.shape[-2]
            bs = torch.broadcast_shapes(Zm.shape[:-2], X.shape[:-2])
            pts = torch.cat([X.expand(*bs, *X.shape[-2:]), Zm.expand(*bs, *Zm.shape[-2:])], dim=-2)
            # in training mode the base strategy is called once per outer call: its KL is the one after that call
            bmean, bcov, bkl = inducing_qf(bname, cfg, model, base, dist, base._variational_distribution, pts, mode, kl_after_forward)
            mean = bmean[..., :N] + (bcov[..., :N, N:] @ a.unsqueeze(-1)).squeeze(-1)
            cov = bcov[..., :N, :N]
            if (mode == "train" and kl_after_forward) != bool((cfg.get("ov") or {}).get("orthswap")):
                C = bcov[..., N:, N:]                                # cached from the joint call, no further jitter
            else:
                _, C, _ = inducing_qf(bname, cfg, model, base, dist, base._variational_distribution, Zm, mode, kl_after_forward)
                C = C + j * eye(Mm)
            kl = bkl + 0.5 * (a.unsqueeze(-2) @ C @ a.unsqueeze(-1)).squeeze(-1).squeeze(-1)
            return dict(mean=mean, cov=cov, kl=kl)
        if strat == "GridInterpolationVariationalStrategy":
            Z = vs.inducing_points.detach()
            M = Z.shape[-2]
            m, S = dist_moments(dist, read_raw(dist, vs._variational_distribution))
            mz, Kzz = prior_on(model, Z)
            kl = kl_closed(m, S, mz, Kzz + GRID_PRIOR_JITTER * eye(M))
            if cfg.get("x_at_nodes") is not None:
                idx = torch.tensor(cfg["x_at_nodes"])
                return dict(mean=m[..., idx], cov=S[..., idx, :][..., :, idx], kl=kl)
            ii, vv = vs._compute_grid(X)
            Wm = torch.zeros(*ii.shape[:-1], M, dtype=D)
            Wm.scatter_add_(-1, ii, vv.to(D))
            mean = (Wm @ m.unsqueeze(-1)).squeeze(-1)
            return dict(mean=mean, cov=Wm @ S @ Wm.transpose(-1, -2), kl=kl)
        if strat in ("LMCVariationalStrategy", "IndependentMultitaskVariationalStrategy"):
            base = vs.base_variational_strategy
            lm, lc, lkl = inducing_qf(base_name(cfg), cfg, model, base, dist, base._variational_distribution, X, mode, kl_after_forward)
            Q, N = cfg["Q"], X.shape[-2]
            ld = latent_dim(cfg)
            lj = 0.0 if (cfg.get("ov") or {}).get("lmcjit") == 0 else getattr(vs, "jitter_val", 0.0)
            pshape = tuple(base._variational_distribution.batch_shape)
            full = torch.broadcast_shapes(lm.shape[:-1], lc.shape[:-2], pshape)
            klfull = torch.broadcast_shapes(lkl.shape, pshape)      # KL(q(u) || p(u)): one value per GP of the batch; the inputs play no role
            if full[ld] != Q or klfull[ld] != Q:
                raise ValueError("oracle: dimension %d of the latent batch %s is not the latent dimension (Q = %d)" % (ld, tuple(full), Q))
            # the denotation is indexed by (remaining batch entry, latent): bring the latent dimension behind the remaining ones
            lm = lm.expand(*full, N).movedim(ld - 1, -2)                  # [..., Q, N]
            lc = lc.expand(*full, N, N).movedim(ld - 2, -3)               # [..., Q, N, N]
            kl = lkl.expand(klfull).movedim(ld, -1).sum(-1)               # sum over the latents, one value per remaining batch entry
            if strat == "LMCVariationalStrategy":
                A = vs.lmc_coefficients.detach()                          # [*pshape, T]
                A = A.expand(*full, A.shape[-1]).movedim(ld - 1, -2)      # [..., Q, T]
                ti = cfg.get("task_indices")
                if ti is None:
                    mean = torch.einsum("...qn,...qt->...nt", lm, A)
                    cov = torch.einsum("...qnm,...qt,...qs->...ntms", lc, A, A)
                    T = A.shape[-1]
                    cov = cov.reshape(*cov.shape[:-4], N * T, N * T) + lj * eye(N * T)
                else:
                    Asel = A[..., torch.tensor(ti)]                          # [..., Q, N]
                    mean = (lm * Asel).sum(-2)
                    cov = (lc * Asel.unsqueeze(-1) * Asel.unsqueeze(-2)).sum(-3) + lj * eye(N)
                return dict(mean=mean, cov=cov, kl=kl, latent_kl=lkl.expand(klfull))
            ti = cfg.get("task_indices")
            if ti is None:
                mean = lm.transpose(-1, -2)                               # [..., N, T]
                cov = torch.einsum("...tnm,ts->...ntms", lc, eye(Q))
                cov = cov.reshape(*cov.shape[:-4], N * Q, N * Q)
            else:
                t = torch.tensor(ti)
                ar = torch.arange(N)
                mean = lm[..., t, ar]
                cov = lc[..., t, :, :][..., ar, ar, :] * (t.unsqueeze(-1) == t.unsqueeze(-2)).to(D)
            return dict(mean=mean, cov=cov, kl=kl, latent_kl=lkl.expand(klfull))
    raise ValueError(strat)


def alt_overrides(cfg):
    """other admissible placements of the jitter (everything except Kzz + jitter_val I, which defines p(u) and the whitening):
    a comparison that fails under StratInfo's placement but holds under one of these is reported as MODEL-DRIFT, not as a
    violation - moving jitter between call sites does not break the property"""
    def base_ovs(name):
        if name in ("VariationalStrategy", "BatchDecoupledVariationalStrategy"):
            return [{}, {"xjit": 0}]
        if name == "CiqVariationalStrategy":
            return [{}, {"xjit": 2}, {"xjit": 1}, {"xjit": 0}]
        if name == "UnwhitenedVariationalStrategy":
            return [{}, {"klswap": True}]
        return [{}]
    s = cfg["strat"]
    if s == "OrthogonallyDecoupledVariationalStrategy":
        ovs = [dict(a, **o) for a in base_ovs(base_name(cfg)) for o in ({}, {"orthswap": True})]
    elif s == "LMCVariationalStrategy":
        ovs = [dict(a, **o) for a in base_ovs(base_name(cfg)) for o in ({}, {"lmcjit": 0})]
    elif s == "IndependentMultitaskVariationalStrategy":
        ovs = base_ovs(base_name(cfg))
    else:
        ovs = base_ovs(s)
    return [o for o in ovs if o]
