"""C09 helpers: float64 replays of structured kernels and kernel-specific prediction strategies against their dense meaning.

dense_worker     (2) kernel(x1, x2).to_dense() vs the explicit dense formula (einsum / enumeration-free tensor products)
strategy_worker  (3) the kernel's own prediction strategy vs DefaultPredictionStrategy on the SAME approximate matrix
                     (a second ExactGP whose kernel is a thin dense wrapper) and vs the Gaussian conditional computed here
objective_worker (4) SGPR training objective * N vs the Titsias collapsed bound computed densely
refine_worker    (5) error table |SKI - base| on three grid sizes
gridsm_worker    (6) kernel-level histories of the grid kernels (Structured.tla part "gridsm")
access_worker    (7) every access form (full / diag=True / lazy diagonal / evaluated diagonal / MVN.variance) of every structured family x mode x
                     setting against the projection of the dense meaning (Structured.tla part "access")
gridpred_worker  (8) model-level predictions of a KISS-GP exact GP on a data-driven grid, test extent in every position relative to the training
                     extent, against the dense conditional of covar_module(cat(train, test)).to_dense() (Structured.tla part "gridpred")
"""
import math
import os
from contextlib import ExitStack

from harness import core

PID = "C09"
CG_ITERS = 100            # linear_cg freezes a column at residual 1e-10 and never reports tolerance 1e-12 as reached: it always runs all iterations
CG_RTOL = 5e-4            # see ck.assumptions (calibration of the iterative cells)
CG_FANTASY_RTOL = 5e-3


# ------------------------------------------------------------------------------------------------
# helpers
def _imports():
    torch = core.setup_torch()
    import gpytorch
    return torch, gpytorch


def gen(torch, seed):
    return torch.Generator().manual_seed(int(seed))


def base_kernel(torch, gpytorch, name, d, g, ard=False, active_dims=None):
    """a stationary base kernel with seeded hyperparameters (float64)"""
    K = gpytorch.kernels
    if name == "rbf":
        k = K.RBFKernel(ard_num_dims=d if ard else None, active_dims=active_dims)
    elif name == "matern15":
        k = K.MaternKernel(nu=1.5, ard_num_dims=d if ard else None, active_dims=active_dims)
    elif name == "matern25":
        k = K.MaternKernel(nu=2.5, ard_num_dims=d if ard else None, active_dims=active_dims)
    else:
        raise core.Machinery("unknown base kernel %r" % name)
    k = k.to(torch.float64)
    with torch.no_grad():
        if ard:
            k.lengthscale = 0.4 + 0.9 * torch.rand(1, d, generator=g, dtype=torch.float64)
        else:
            k.lengthscale = 0.4 + 0.5 * float(torch.rand(1, generator=g, dtype=torch.float64))
    return k


def precise_grid(torch, gpytorch, kern):
    """GridInterpolationKernel builds its grid with create_grid's float32 default and .to(float64) keeps the float32-rounded values, so
    the grid is equally spaced only to 1e-8; Toeplitz structure presupposes an equally spaced grid: rebuild it in float64"""
    from gpytorch.utils.grid import create_grid
    kern.update_grid(create_grid(kern.grid_sizes, kern.grid_bounds, dtype=torch.float64))
    return kern


def weights_1d(torch, grid_1d, x_1d):
    """dense n x g matrix of the 1-D interpolation weights, through the real interpolate() on ONE dimension"""
    from gpytorch.utils.interpolation import Interpolation
    idx, val = Interpolation().interpolate([grid_1d], x_1d.reshape(-1, 1))
    W = torch.zeros(x_1d.numel(), grid_1d.numel(), dtype=torch.float64)
    W.scatter_add_(1, idx, val)
    return W


def ski_dense(torch, base, grid, x1, x2, outputscale=None):
    """enumeration-free meaning of the interpolated kernel: sum_{u,u'} w_u(x) k(u, u') w_u'(x'), w_u(x) = prod_c w^c_{u_c}(x_c);
    grid points are enumerated HERE in C order and the weights are combined in the same order"""
    def full(x):
        out = None
        for c, gc in enumerate(grid):
            w = weights_1d(torch, gc, x[:, c])
            out = w if out is None else (out.unsqueeze(-1) * w.unsqueeze(-2)).reshape(out.shape[0], -1)
        return out
    pts = torch.stack([t.reshape(-1) for t in torch.meshgrid(*grid, indexing="ij")], -1)
    Kuu = base(pts, pts).to_dense()
    res = full(x1) @ Kuu @ full(x2).transpose(-1, -2)
    return res if outputscale is None else outputscale * res


def product_of_1d(torch, base, pts1, pts2):
    """prod_c k_c(x[c], x'[c]) with k_c the base kernel restricted to dimension c (its own lengthscale when ARD)"""
    cov = base(pts1, pts2, last_dim_is_batch=True).to_dense()        # d x n x m
    return cov.prod(dim=-3)


def cg_contexts(settings, n):
    return [settings.max_cholesky_size(0), settings.fast_computations(solves=True, covar_root_decomposition=True, log_prob=True),
            settings.eval_cg_tolerance(1e-12), settings.cg_tolerance(1e-12), settings.max_cg_iterations(CG_ITERS),
            settings.max_root_decomposition_size(max(100, 2 * n)), settings.max_preconditioner_size(0),
            settings.max_lanczos_quadrature_iterations(max(100, 2 * n))]


def make_gp(torch, gpytorch, X, y, kernel, noise, mean_const, lik=None):
    lik = lik or gpytorch.likelihoods.GaussianLikelihood()

    class M(gpytorch.models.ExactGP):
        def __init__(s_):
            super().__init__(X, y, lik)
            s_.mean_module = gpytorch.means.ConstantMean()
            s_.covar_module = kernel

        def forward(s_, x):
            return gpytorch.distributions.MultivariateNormal(s_.mean_module(x), s_.covar_module(x))
    m = M().to(torch.float64)
    lik.to(torch.float64)
    with torch.no_grad():
        lik.noise = torch.tensor(float(noise), dtype=torch.float64)
        m.mean_module.constant = torch.tensor(float(mean_const), dtype=torch.float64)
    return m, lik


NOISE_KINDS = ("homo", "fixed", "fixedadd", "hetero")          # Structured.tla NoiseKinds


def table_noise_model(torch, gpytorch, Xtab, nv):
    """stub noise model of HeteroskedasticNoise: the noise variance is a function of the input - here the table Xtab[p] -> nv[p]
    (nearest row); off the table the value of the nearest row"""
    class TableNoise(torch.nn.Module):
        def forward(s_, x, *a, **k):
            idx = torch.cdist(x.to(Xtab), Xtab).argmin(-1)
            mean = nv[idx]
            return gpytorch.distributions.MultivariateNormal(mean, torch.diag_embed(torch.full_like(mean, 1e-6)))
    return TableNoise()


def smooth_noise_model(torch, gpytorch, w, lo, hi):
    """stub noise model: noise(x) = lo + (hi - lo) sigmoid(3 x . w)"""
    class SmoothNoise(torch.nn.Module):
        def forward(s_, x, *a, **k):
            mean = lo + (hi - lo) * torch.sigmoid(3.0 * (x @ w.to(x)))
            return gpytorch.distributions.MultivariateNormal(mean, torch.diag_embed(torch.full_like(mean, 1e-6)))
    return SmoothNoise()


def make_lik(torch, gpytorch, nk, s2, nv=None, noise_model=None):
    """a likelihood of the Gaussian family for the noise model nk of Structured.tla; -> (likelihood, needs the inputs as mll / likelihood params)"""
    D = torch.float64
    L = gpytorch.likelihoods
    if nk == "homo":
        lik = L.GaussianLikelihood().to(D)
        with torch.no_grad():
            lik.noise = torch.tensor(float(s2), dtype=D)
        return lik, False
    if nk == "fixed":
        return L.FixedNoiseGaussianLikelihood(noise=nv.clone().to(D)).to(D), False
    if nk == "fixedadd":
        lik = L.FixedNoiseGaussianLikelihood(noise=nv.clone().to(D), learn_additional_noise=True).to(D)
        with torch.no_grad():
            lik.second_noise = torch.tensor(float(s2), dtype=D)
        return lik, False
    if nk == "hetero":
        from gpytorch.likelihoods.gaussian_likelihood import _GaussianLikelihoodBase
        from gpytorch.likelihoods.noise_models import HeteroskedasticNoise
        from gpytorch.constraints import GreaterThan
        lik = _GaussianLikelihoodBase(noise_covar=HeteroskedasticNoise(noise_model, noise_constraint=GreaterThan(1e-4, transform=None, inv_transform=None)))
        return lik.to(D), True
    raise core.Machinery("unknown noise kind %r" % nk)


def lik_noise_vector(torch, lik, X, needs_params):
    """diagonal of the observation noise covariance the likelihood adds at the training inputs (read back from the likelihood)"""
    n = X.shape[-2]
    with torch.no_grad():
        nc = lik._shaped_noise_covar(torch.Size([n]), X) if needs_params else lik._shaped_noise_covar(torch.Size([n]))
        return nc.diagonal(dim1=-1, dim2=-2).detach().clone().to(torch.float64).expand(*nc.shape[:-2], n)


def make_gp_with(torch, gpytorch, X, y, kernel, lik, mean_const, batch_shape=None):
    """ExactGP with ConstantMean and the given likelihood (no hyperparameter of the likelihood is touched)"""
    bs = torch.Size(batch_shape or [])

    class M(gpytorch.models.ExactGP):
        def __init__(s_):
            super().__init__(X, y, lik)
            s_.mean_module = gpytorch.means.ConstantMean(batch_shape=bs)
            s_.covar_module = kernel

        def forward(s_, x):
            return gpytorch.distributions.MultivariateNormal(s_.mean_module(x), s_.covar_module(x))
    m = M().to(torch.float64)
    with torch.no_grad():
        mc = torch.as_tensor(mean_const, dtype=torch.float64)
        m.mean_module.constant = mc.expand(bs) if bs else mc
    return m


def dense_wrapper_class(gpytorch):
    class DenseOf(gpytorch.kernels.Kernel):
        """the SAME approximate matrix as `inner`, as a plain dense kernel (prediction_strategy = the default one)"""

        def __init__(s_, inner):
            super().__init__()
            s_.inner = inner

        def forward(s_, x1, x2, diag=False, **params):
            K = s_.inner(x1, x2).to_dense()
            return K.diagonal(dim1=-1, dim2=-2) if diag else K
    return DenseOf


def sgpr_wrapper_class(torch, gpytorch):
    class SGPRDense(gpytorch.kernels.Kernel):
        """joint prior the SGPR predictive equations condition on (see ck.assumptions): training block Qxx (+ diag(Kxx - Qxx) when the
        diagonal correction is on), cross block Q*x, test block the BASE kernel K**; Q = K.z Kzz^-1 Kz. computed with dense solves"""

        def __init__(s_, ipk, Xtrain, corr):
            super().__init__()
            s_.ipk = ipk
            s_.Xtrain = Xtrain
            s_.corr = corr

        def _train_index(s_, x):
            eq = (x.unsqueeze(-2) == s_.Xtrain.unsqueeze(-3)).all(-1)        # rows of x that ARE training points
            return eq.any(-1), eq.double().argmax(-1)

        def forward(s_, x1, x2, diag=False, **params):
            base, Z = s_.ipk.base_kernel, s_.ipk.inducing_points
            Kzz = base(Z, Z).to_dense()
            K1z, K2z = base(x1, Z).to_dense(), base(x2, Z).to_dense()
            Q = K1z @ torch.linalg.solve(Kzz, K2z.transpose(-1, -2))
            K12 = base(x1, x2).to_dense()
            t1, i1 = s_._train_index(x1)
            t2, i2 = s_._train_index(x2)
            both_test = (~t1).unsqueeze(-1) & (~t2).unsqueeze(-2)
            same_train = t1.unsqueeze(-1) & t2.unsqueeze(-2) & (i1.unsqueeze(-1) == i2.unsqueeze(-2))
            res = torch.where(both_test, K12, Q)
            if s_.corr:
                res = torch.where(same_train, Q + (K12 - Q).clamp_min(0), res)
            return res.diagonal(dim1=-1, dim2=-2) if diag else res
    return SGPRDense


def res_cell(key, sig, case, nontrivial=True):
    return dict(key=key, ok=True, nontrivial=nontrivial, sig=sig, detail="", case=case)


def fail(r, sig, detail):
    if r["ok"]:
        r.update(ok=False, sig=sig, detail=detail)
    return r


# ------------------------------------------------------------------------------------------------
# (2) dense meaning of every structured kernel
def dense_worker(item):
    torch, gpytorch = _imports()
    out = []
    for c in item["cases"]:
        out.append(_dense_case(torch, gpytorch, c))
    return out


def _task_matrix(torch, ik):
    return (ik.covar_factor @ ik.covar_factor.transpose(-1, -2) + torch.diag_embed(ik.var)).detach()


def _seed_index_kernel(torch, ik, g):
    with torch.no_grad():
        ik.covar_factor.copy_(torch.randn(ik.covar_factor.shape, generator=g, dtype=torch.float64))
        ik.var = 0.2 + torch.rand(ik.raw_var.shape, generator=g, dtype=torch.float64)


def _dense_case(torch, gpytorch, c):
    D = torch.float64
    K = gpytorch.kernels
    settings = gpytorch.settings
    kind = c["kind"]
    g = gen(torch, c["seed"])
    desc = " ".join("%s=%s" % (k, v) for k, v in sorted(c.items()) if k not in ("section",))
    r = res_cell(["dense", {k: v for k, v in c.items() if k != "seed"}], "C09/dense/%s" % kind, dict(c, section="dense"))
    rt, at = 1e-9, 1e-11

    def cmp(got, want, sig, what, rtol=rt, atol=at):
        ok, why = core.close(got, want, rtol, atol)
        if not ok:
            fail(r, sig, "%s: %s: %s" % (desc, what, why))

    def rand_x(n, d):
        return torch.rand(n, d, generator=g, dtype=D) * 2 - 1

    with torch.no_grad():
        if kind in ("mtask", "lcm"):
            n, m, t, d, rank = c["n"], c["m"], c["t"], c["d"], c["rank"]
            x1 = rand_x(n, d)
            x2 = x1 if c["same"] else rand_x(m, d)
            names = ["rbf"] if kind == "mtask" else ["rbf", "matern15", "matern25"][:c["q"]]
            bases = [base_kernel(torch, gpytorch, nm, d, g, ard=(d > 1)) for nm in names]
            if kind == "mtask":
                ok, kern = core.guarded(lambda: K.MultitaskKernel(bases[0], num_tasks=t, rank=rank).to(D))
                mts = [kern] if ok else []
            else:
                ok, kern = core.guarded(lambda: K.LCMKernel(bases, num_tasks=t, rank=rank).to(D))
                mts = list(kern.covar_module_list) if ok else []
            sig = "C09/dense/%s/rank%s" % (kind, "0" if rank == 0 else ("full" if rank == t else "low"))
            if not ok:
                return fail(r, sig + "/raises", "%s: constructor: %s" % (desc, kern))
            for mt in mts:
                _seed_index_kernel(torch, mt.task_covar_module, g)
            want = sum(torch.einsum("ij,ab->iajb", b(x1, x2).to_dense(), _task_matrix(torch, mt.task_covar_module)).reshape(x1.shape[0] * t, x2.shape[0] * t)
                       for b, mt in zip(bases, mts))
            ok, got = core.guarded(lambda: kern(x1, x2).to_dense())
            if not ok:
                return fail(r, sig + "/raises", "%s: %s" % (desc, got))
            cmp(got, want, sig, "to_dense() differs from sum_q K_q[i,j] B_q[a,b] at row i*t+a, column j*t+b")
            ok, dg = core.guarded(lambda: kern(x1, x2, diag=True)) if c["same"] else (True, None)
            if c["same"]:
                if not ok:
                    return fail(r, sig + "/diag-raises", "%s: %s" % (desc, dg))
                cmp(dg, want.diagonal(), sig + "/diag", "diag=True differs from the diagonal of the dense matrix")
        elif kind == "index":
            n, m, t, d, rank = c["n"], c["m"], c["t"], c["d"], c["rank"]
            ik = K.IndexKernel(num_tasks=t, rank=rank).to(D)
            _seed_index_kernel(torch, ik, g)
            B = _task_matrix(torch, ik)
            i1 = torch.randint(0, t, (n, 1), generator=g)
            i2 = i1 if c["same"] else torch.randint(0, t, (m, 1), generator=g)
            sig = "C09/dense/index/%s" % c["use"]
            if c["use"] == "alone":
                ok, got = core.guarded(lambda: ik(i1, i2).to_dense())
                want = B[i1.squeeze(-1)][:, i2.squeeze(-1)]
            else:
                x1 = rand_x(n, d)
                x2 = x1 if c["same"] else rand_x(m, d)
                b = base_kernel(torch, gpytorch, "rbf", d, g, active_dims=tuple(range(d)))
                want = b(x1, x2).to_dense() * B[i1.squeeze(-1)][:, i2.squeeze(-1)]
                if c["use"] == "hadamard-mul":
                    ok, got = core.guarded(lambda: b(x1, x2).mul(ik(i1, i2)).to_dense())
                else:       # ProductKernel over active dimensions: the task index is the last input column
                    ik2 = K.IndexKernel(num_tasks=t, rank=rank, active_dims=(d,)).to(D)
                    ik2.load_state_dict(ik.state_dict(), strict=False)
                    pk = b * ik2
                    z1 = torch.cat([x1, i1.to(D)], -1)
                    z2 = z1 if c["same"] else torch.cat([x2, i2.to(D)], -1)
                    ok, got = core.guarded(lambda: pk(z1, z2).to_dense())
            if not ok:
                return fail(r, sig + "/raises", "%s: %s" % (desc, got))
            cmp(got, want, sig, "entry (r, c) is not K[r,c] * (B B^T + diag v)[task_r, task_c]")
        elif kind == "grid":
            sizes, d = c["sizes"], len(c["sizes"])
            grid = []
            for gs in sizes:
                lo = float(torch.rand(1, generator=g, dtype=D)) - 0.5
                grid.append(torch.linspace(lo, lo + 0.25 * (gs - 1) * (1 + float(torch.rand(1, generator=g, dtype=D))), gs, dtype=D))
            b = base_kernel(torch, gpytorch, c["base"], d, g, ard=c["ard"])
            kern = K.GridKernel(b, grid=grid).to(D)
            sig = "C09/dense/grid/%dd-%s-%s" % (d, "ragged" if len(set(sizes)) > 1 else "square", "toeplitz" if c["toeplitz"] else "dense")
            if c["mode"] == "eval":
                kern.eval()
            pts = kern.full_grid
            # the points of full_grid are the grid points (every combination exactly once)
            want_pts = set(tuple(float(grid[i][j]) for i, j in enumerate(idx)) for idx in __import__("itertools").product(*[range(s) for s in sizes]))
            if set(tuple(float(v) for v in p) for p in pts) != want_pts or pts.shape[0] != len(want_pts):
                fail(r, sig + "/full_grid", "%s: full_grid is not the set of all grid points" % desc)
            want = product_of_1d(torch, b, pts, pts)
            with settings.use_toeplitz(bool(c["toeplitz"])):
                ok, got = core.guarded(lambda: kern(pts, pts).to_dense())
                if ok and c["mode"] == "eval":      # second call answers from the cache
                    ok, got2 = core.guarded(lambda: kern(pts, pts).to_dense())
                    if ok:
                        cmp(got2, got, sig + "/cached", "second evaluation in eval mode differs from the first", 0, 0)
            if not ok:
                return fail(r, sig + "/raises", "%s: %s" % (desc, got))
            cmp(got, want, sig, "to_dense() on full_grid differs from prod_c k_c(x[c], x'[c]) on the points of full_grid")
            if c["base"] == "rbf":
                cmp(got, b(pts, pts).to_dense(), sig + "/base", "to_dense() on full_grid differs from base_kernel(full_grid, full_grid)")
            x1, x2 = rand_x(3, d), rand_x(2, d)
            ok, got = core.guarded(lambda: kern(x1, x2).to_dense())
            if not ok:
                return fail(r, sig + "/off-grid-raises", "%s: %s" % (desc, got))
            cmp(got, b(x1, x2).to_dense(), sig + "/off-grid", "off the grid the kernel must be the base kernel")
        elif kind == "ski":
            sizes, d = c["sizes"], len(c["sizes"])
            dynamic = c["bounds"] is None          # no grid_bounds: the kernel lays its grid over the data it sees
            bounds = [tuple(bd) for bd in c["bounds"]] if not dynamic else [(-1.0, 1.0)] * d
            b = base_kernel(torch, gpytorch, c["base"], d, g, ard=c["ard"])
            if dynamic:
                kern = K.GridInterpolationKernel(b, grid_size=list(sizes), num_dims=d).to(D)
            else:
                kern = precise_grid(torch, gpytorch, K.GridInterpolationKernel(b, grid_size=list(sizes), grid_bounds=bounds).to(D))
            sym = len(set(sizes)) == 1 and len(set(bounds)) == 1 and not c["ard"]
            sig = "C09/dense/ski/%dd-%s-%s" % (d, "symmetric" if sym or d == 1 else "asymmetric", "toeplitz" if c["toeplitz"] else "dense")
            top = kern
            osc = None
            if c["scale"]:
                top = K.ScaleKernel(kern).to(D)
                top.outputscale = torch.tensor(1.7, dtype=D)
                osc = float(top.outputscale)          # (a Python float is stored through float32)
            if c["mode"] == "eval":
                top.eval()

            def rx(n):
                cols = [bd[0] + (bd[1] - bd[0]) * (0.03 + 0.94 * torch.rand(n, generator=g, dtype=D)) for bd in bounds]
                return torch.stack(cols, -1)
            x1 = rx(c["n"])
            x2 = x1 if c["same"] else rx(c["m"])
            with settings.use_toeplitz(bool(c["toeplitz"])):
                ok, got = core.guarded(lambda: top(x1, x2).to_dense())
            if not ok:
                return fail(r, sig + "/raises", "%s: %s" % (desc, got))
            want = ski_dense(torch, b, kern.grid, x1, x2, osc)          # (after the call: a dynamic grid is laid out by it)
            cmp(got, want, sig, "to_dense() differs from W1 K_grid W2^T (cubic weights per dimension, K_grid the base kernel on the grid points)", 1e-8, 1e-10)
            if d == 1:      # W exactly as interpolate() returns it for the whole input
                from gpytorch.utils.interpolation import Interpolation
                def Wof(x):
                    idx, val = Interpolation().interpolate(kern.grid, x)
                    W = torch.zeros(x.shape[0], sizes[0], dtype=D)
                    return W.scatter_add_(1, idx, val)
                Kuu = b(kern.grid[0].unsqueeze(-1), kern.grid[0].unsqueeze(-1)).to_dense()
                cmp(got, (osc or 1.0) * Wof(x1) @ Kuu @ Wof(x2).T, sig + "/W", "to_dense() differs from W K_grid W^T with W from interpolate()", 1e-8, 1e-10)
            r["sample"] = dict(case=desc, err_vs_base=float((got - (osc or 1.0) * b(x1, x2).to_dense()).abs().max()))
        elif kind == "nystrom":
            n, m, d, nz = c["n"], c["m"], c["d"], c["nz"]
            b = K.ScaleKernel(base_kernel(torch, gpytorch, c["base"], d, g, ard=(d > 1))).to(D)
            b.outputscale = torch.tensor(1.3, dtype=D)
            Z = rand_x(nz, d)
            lik = gpytorch.likelihoods.GaussianLikelihood().to(D)
            kern = K.InducingPointKernel(b, inducing_points=Z.clone(), likelihood=lik).to(D)
            x1 = rand_x(n, d)
            x2 = x1 if c["same"] else rand_x(m, d)
            Kzz = b(Z, Z).to_dense()
            if float(torch.linalg.cond(Kzz)) > 1e6:
                r.update(nontrivial=False, n=0)
                return r
            Q = b(x1, Z).to_dense() @ torch.linalg.solve(Kzz, b(Z, x2).to_dense())
            sig = "C09/dense/nystrom/%s%s" % (c["mode"], "" if c["mode"] == "train" else ("-corr" if c["corr"] else "-nocorr"))
            if c["mode"] == "eval":
                kern.eval()
            want = Q
            if c["mode"] == "eval" and c["corr"] and c["same"]:
                want = Q + torch.diag_embed((b(x1, x1).to_dense().diagonal() - Q.diagonal()).clamp_min(0))
            with settings.sgpr_diagonal_correction(bool(c["corr"])):
                ok, got = core.guarded(lambda: kern(x1, x2).to_dense())
            if not ok:
                if c["mode"] == "train" and not c["same"]:
                    r.update(nontrivial=False)        # documented: training mode wants x1 == x2
                    return r
                return fail(r, sig + "/raises", "%s: %s" % (desc, got))
            cmp(got, want, sig, "to_dense() differs from Kxz Kzz^-1 Kzx%s" % (" + diag(Kxx - Qxx)" if want is not Q else ""), 1e-7, 1e-9)
        elif kind == "rff":
            n, m, d, ns = c["n"], c["m"], c["d"], c["num_samples"]
            kern = K.RFFKernel(num_samples=ns, num_dims=d, ard_num_dims=d if c["ard"] else None).to(D)
            kern.randn_weights = torch.randn(d, ns, generator=g, dtype=D)
            kern.lengthscale = (0.5 + torch.rand(1, d, generator=g, dtype=D)) if c["ard"] else 0.8
            top, osc = kern, 1.0
            if c["scale"]:
                top = K.ScaleKernel(kern).to(D)
                top.outputscale = torch.tensor(0.6, dtype=D)
                osc = float(top.outputscale)
            x1 = rand_x(n, d)
            x2 = x1 if c["same"] else rand_x(m, d)

            def phi(x):
                a = x @ (kern.randn_weights / kern.lengthscale.transpose(-1, -2))
                return torch.cat([a.cos(), a.sin()], -1)
            want = osc * phi(x1) @ phi(x2).T / ns
            sig = "C09/dense/rff/%s" % ("lowrank" if 2 * ns < n else "fullrank")
            ok, got = core.guarded(lambda: top(x1, x2).to_dense())
            if not ok:
                return fail(r, sig + "/raises", "%s: %s" % (desc, got))
            cmp(got, want, sig, "to_dense() differs from Phi(x1) Phi(x2)^T / D with Phi = [cos(x W / l), sin(x W / l)]")
            # and it is the Monte-Carlo form of the documented sum (1/D) sum_i cos(w_i^T (x - x'))
            a = (x1.unsqueeze(1) - x2.unsqueeze(0)) @ (kern.randn_weights / kern.lengthscale.transpose(-1, -2))
            cmp(got, osc * a.cos().mean(-1), sig + "/cos-sum", "to_dense() differs from (1/D) sum_i cos(w_i^T (x - x'))")
        else:
            raise core.Machinery("unknown dense kind %r" % kind)
    return r


# ------------------------------------------------------------------------------------------------
# (3) kernel-specific prediction strategies vs the default strategy on the same approximate matrix
def strategy_worker(item):
    torch, gpytorch = _imports()
    return [_strategy_case(torch, gpytorch, c) for c in item["cases"]]


def _conditional(torch, Kxx, Ksx, Kss, noise, y, mx, ms):
    A = Kxx + torch.diag_embed(torch.as_tensor(noise, dtype=torch.float64).expand(Kxx.shape[-1]))
    L = torch.linalg.cholesky(A)
    mean = ms + (Ksx @ torch.cholesky_solve((y - mx).unsqueeze(-1), L)).squeeze(-1)
    cov = Kss - Ksx @ torch.cholesky_solve(Ksx.transpose(-1, -2), L)
    return mean, cov, float(torch.linalg.cond(A))


def build_structured(torch, gpytorch, c, g):
    """-> (kernel for the structured model, factory of the dense twin kernel, X, y, Xs, Xf, yf, expected strategy class name)"""
    D = torch.float64
    K = gpytorch.kernels
    fam, d, n, ns = c["fam"], c["d"], c["n"], c["ns"]

    def rx(k, lo=-1.0, hi=1.0):
        return lo + (hi - lo) * torch.rand(k, d, generator=g, dtype=D)
    if fam == "kiss":
        b = base_kernel(torch, gpytorch, "rbf", d, g, ard=c["ard"])
        if c["bounds"] is None:          # dynamic grid: laid over the training inputs; test / fantasy inputs strictly inside their range
            bounds = [(-1.0, 1.0)] * d
            inner = K.GridInterpolationKernel(b, grid_size=list(c["sizes"]), num_dims=d).to(D)
        else:
            bounds = [tuple(bd) for bd in c["bounds"]]
            inner = precise_grid(torch, gpytorch, K.GridInterpolationKernel(b, grid_size=list(c["sizes"]), grid_bounds=bounds).to(D))

        def rk(k, lo=0.03, hi=0.97):
            return torch.stack([bd[0] + (bd[1] - bd[0]) * (lo + (hi - lo) * torch.rand(k, generator=g, dtype=D)) for bd in bounds], -1)
        X = rk(n)
        if c["bounds"] is None:
            X[0], X[1] = torch.tensor([bd[0] for bd in bounds], dtype=D), torch.tensor([bd[1] for bd in bounds], dtype=D)
            Xs, Xf = rk(ns, 0.1, 0.9), rk(c.get("nf", 2), 0.1, 0.9)
        else:
            Xs, Xf = rk(ns), rk(c.get("nf", 2))
        cls = "InterpolatedPredictionStrategy"
    elif fam == "sgpr":
        b = base_kernel(torch, gpytorch, "rbf", d, g, ard=(d > 1))
        X, Xs, Xf = rx(n), rx(ns), rx(2)
        Z = rx(c["nz"])
        inner = None
        cls = "SGPRPredictionStrategy"
    elif fam == "rff":
        inner = K.RFFKernel(num_samples=c["num_samples"], num_dims=d).to(D)
        inner.randn_weights = torch.randn(d, c["num_samples"], generator=g, dtype=D)
        with torch.no_grad():
            inner.lengthscale = 0.7
        X, Xs, Xf = rx(n), rx(ns), rx(2)
        cls = "RFFPredictionStrategy"
    else:
        raise core.Machinery("unknown family %r" % fam)
    y = torch.sin(3 * X.sum(-1)) + 0.1 * torch.randn(n, generator=g, dtype=D)
    yf = torch.sin(3 * Xf.sum(-1)) + 0.1 * torch.randn(Xf.shape[0], generator=g, dtype=D)
    lik = gpytorch.likelihoods.GaussianLikelihood().to(D)
    aux = dict(nk="homo", needs=False)
    if fam == "sgpr" and c.get("nk", "homo") != "homo":
        # the other noise models of the Gaussian family (Structured.tla NoiseKinds): per-point variances pairwise different
        nv = 0.05 + 0.5 * torch.rand(n, generator=g, dtype=D)
        nm = smooth_noise_model(torch, gpytorch, torch.randn(d, generator=g, dtype=D), 0.05, 0.6) if c["nk"] == "hetero" else None
        lik, needs = make_lik(torch, gpytorch, c["nk"], c["noise"], nv, nm)
        aux = dict(nk=c["nk"], needs=needs, twin=lambda: make_lik(torch, gpytorch, c["nk"], c["noise"], nv, nm)[0])
    if fam == "sgpr":
        bb = K.ScaleKernel(b).to(D) if c["scale"] else b
        if c["scale"]:
            with torch.no_grad():
                bb.outputscale = torch.tensor(1.4, dtype=D)
        inner = K.InducingPointKernel(bb, inducing_points=Z, likelihood=lik).to(D)
        top = inner
    else:
        top = inner
        if c["scale"]:
            top = K.ScaleKernel(inner).to(D)
            with torch.no_grad():
                top.outputscale = torch.tensor(1.4, dtype=D)
    return top, inner, lik, X, y, Xs, Xf, yf, cls, aux


def _strategy_case(torch, gpytorch, c):
    D = torch.float64
    settings = gpytorch.settings
    g = gen(torch, c["seed"])
    fam = c["fam"]
    famname = "kiss-dynamic-grid" if (fam == "kiss" and c.get("bounds") is None) else fam
    if fam == "sgpr" and c.get("nk", "homo") != "homo":
        famname = "sgpr-%s-noise" % c["nk"]
    cellname = "%s/%s/fpv%d/corr%d/toep%d%s" % (famname, c["solve"], c["fpv"], c.get("corr", 1), c.get("toeplitz", 1), "/fantasy" if c.get("fantasy") else "")
    desc = " ".join("%s=%s" % (k, v) for k, v in sorted(c.items()) if k != "section")
    r = res_cell(["strategy", {k: v for k, v in c.items() if k != "seed"}], "C09/strategy/" + cellname, dict(c, section="strategy"))
    noise, mc = c["noise"], c["mean"]
    top, inner, lik, X, y, Xs, Xf, yf, cls, aux = build_structured(torch, gpytorch, c, g)
    homo = aux["nk"] == "homo"
    if homo:
        model, lik = make_gp(torch, gpytorch, X, y, top, noise, mc, lik)
    else:
        model = make_gp_with(torch, gpytorch, X, y, top, lik, mc)
    for p in model.parameters():
        p.requires_grad_(False)
    model.eval()
    lik.eval()
    n = X.shape[0]
    mc = float(model.mean_module.constant)      # as stored (a Python float goes through float32)
    noise = float(lik.noise) if homo else lik_noise_vector(torch, lik, X, aux["needs"])      # scalar, or the per-point variances
    # the twin: same approximate matrix, default strategy
    if fam == "sgpr":
        twin_kernel = sgpr_wrapper_class(torch, gpytorch)(inner, X, bool(c["corr"]))
    else:
        twin_kernel = dense_wrapper_class(gpytorch)(top)
    if homo:
        twin, tlik = make_gp(torch, gpytorch, X, y, twin_kernel, noise, mc)
        same = abs(float(tlik.noise) - noise) <= 1e-12
    else:
        tlik = aux["twin"]()
        twin = make_gp_with(torch, gpytorch, X, y, twin_kernel, tlik, mc)
        same = bool((lik_noise_vector(torch, tlik, X, aux["needs"]) - noise).abs().max() <= 1e-12) and float(noise.max() - noise.min()) > 1e-3
    if not same or abs(float(twin.mean_module.constant) - mc) > 1e-12:
        raise core.Machinery("twin hyperparameters differ from the structured model's")
    twin.eval()
    tlik.eval()

    cms = [settings.fast_pred_var(bool(c["fpv"])), settings.sgpr_diagonal_correction(bool(c.get("corr", 1))), settings.use_toeplitz(bool(c.get("toeplitz", 1)))]
    rtol = 1e-7
    if c["solve"] == "cg":
        cms += cg_contexts(settings, n + 8)
        rtol = CG_RTOL
    elif c["fpv"] and fam == "kiss":
        rtol = 1e-6                  # root-inverse caches
    errs = {}

    def near(a, b, scale, what, rt=None):
        """|a - b| <= rtol * scale, scale = the magnitude of the PRIOR quantities the result is a difference of"""
        if a.shape != b.shape:
            return False, "shape %s vs %s" % (tuple(a.shape), tuple(b.shape))
        if not (torch.isfinite(a).all() and torch.isfinite(b).all()):
            return False, "non-finite values"
        e = float((a - b).abs().max()) / scale
        errs[what] = max(errs.get(what, 0.0), e)
        ok = e <= (rt or rtol)
        return ok, "" if ok else "max|diff|=%.3e, scale of the prior %.3e (tol %.1e relative to it)" % (e * scale, scale, rt or rtol)

    def predict(m, l, xs):
        post = m(xs)
        return post.mean.detach().clone(), post.covariance_matrix.detach().clone(), post.variance.detach().clone(), type(m.prediction_strategy).__name__

    with torch.no_grad():
        # oracle first, under the default settings (Cholesky), only the settings that change the MATRIX are applied
        with settings.sgpr_diagonal_correction(bool(c.get("corr", 1))), settings.use_toeplitz(bool(c.get("toeplitz", 1))):
            wm, wc, wv, tcls = predict(twin, tlik, Xs)
            if tcls != "DefaultPredictionStrategy":
                raise core.Machinery("the dense twin uses %s" % tcls)
            # cross-check of the oracle against the Gaussian conditional computed here from the twin's own matrix
            Z = torch.cat([X, Xs], 0)
            J = twin_kernel(Z, Z).to_dense()
            fm, fc, cond = _conditional(torch, J[:n, :n], J[n:, :n], J[n:, n:], noise, y, torch.full((n,), float(mc), dtype=D), torch.full((Xs.shape[0],), float(mc), dtype=D))
        if cond > 1e4:
            r.update(nontrivial=False, n=0)
            return r
        cs = float(J.abs().max())                                    # covariance scale: the prior's
        ms = max(1.0, float(y.abs().max()), float(fm.abs().max()))  # mean scale
        for a, b_, what in ((wm, fm, "mean"), (wc, fc, "covariance")):
            ok, why = core.close(a, b_, 1e-7, 1e-9 * cs)
            if not ok:
                raise core.Machinery("oracle disagreement (default strategy on the dense twin vs Gaussian conditional), %s: %s: %s" % (what, desc, why))
        with ExitStack() as st:
            for cm in cms:
                st.enter_context(cm)
            ok, got = core.guarded(lambda: predict(model, lik, Xs))
            if not ok:
                return fail(r, r["sig"] + "/raises", "%s: %s" % (desc, got))
            gm, gc, gv, scls = got
            if scls != cls:
                r["drift"] = "%s: prediction strategy is %s, expected %s" % (fam, scls, cls)
            ok, why = near(gm, wm, ms, "mean")
            if not ok:
                fail(r, r["sig"] + "/mean", "%s: %s mean differs from the default strategy on the same approximate matrix: %s" % (desc, scls, why))
            ok, why = near(gc, wc, cs, "covariance")
            if not ok:
                fail(r, r["sig"] + "/covariance", "%s: %s covariance differs from the default strategy on the same approximate matrix: %s" % (desc, scls, why))
            ok, why = near(gv, wc.diagonal().clamp_min(0), cs, "variance")
            if not ok:
                fail(r, r["sig"] + "/variance", "%s: %s variance differs from the diagonal of the dense conditional covariance: %s" % (desc, scls, why))
            # a second call answers from the caches
            ok, got2 = core.guarded(lambda: predict(model, lik, Xs))
            if not ok:
                fail(r, r["sig"] + "/second-call-raises", "%s: %s" % (desc, got2))
            else:
                ok, why = near(got2[1], wc, cs, "covariance")
                ok2, why2 = near(got2[0], wm, ms, "mean")
                if not (ok and ok2):
                    fail(r, r["sig"] + "/second-call", "%s: second call (caches) differs from the dense conditional: %s %s" % (desc, why, why2))
            if c.get("fps"):
                with settings.fast_pred_samples(True):
                    ok, smp = core.guarded(lambda: model(Xs).rsample(torch.Size([3])))
                if not ok:
                    fail(r, r["sig"] + "/fast_pred_samples-raises", "%s: %s" % (desc, smp))
                elif list(smp.shape) != [3, Xs.shape[0]]:
                    fail(r, r["sig"] + "/fast_pred_samples-shape", "%s: samples have shape %s" % (desc, list(smp.shape)))
            if c.get("fantasy"):
                # fantasy update of the structured model vs the default strategy on the same approximate matrix with the fantasy
                # observations appended to the training data
                ok, fmod = core.guarded(lambda: model.get_fantasy_model(Xf, yf))
                if not ok:
                    return fail(r, r["sig"] + "/get_fantasy_model-raises", "%s: %s" % (desc, fmod))
                ok, got = core.guarded(lambda: predict(fmod, fmod.likelihood, Xs))
                if not ok:
                    return fail(r, r["sig"] + "/fantasy-predict-raises", "%s: %s" % (desc, got))
                twin2, tlik2 = make_gp(torch, gpytorch, torch.cat([X, Xf], 0), torch.cat([y, yf], 0), dense_wrapper_class(gpytorch)(top), noise, mc)
                twin2.eval()
                tlik2.eval()
                with settings.fast_pred_var(False), settings.max_cholesky_size(800), settings.fast_computations(False, False, False):
                    wm2, wc2, wv2, _ = predict(twin2, tlik2, Xs)
                frt = CG_FANTASY_RTOL if c["solve"] == "cg" else 1e-5          # (Cholesky of the rank-deficient W' D^-1 W cache takes jitter)
                ok, why = near(got[0], wm2, ms, "fantasy-mean", frt)
                if not ok:
                    fail(r, r["sig"] + "/mean", "%s: fantasy model mean differs from conditioning the same approximate matrix on train + fantasy data: %s" % (desc, why))
                ok, why = near(got[1], wc2, cs, "fantasy-covariance", frt)
                if not ok:
                    fail(r, r["sig"] + "/covariance", "%s: fantasy model covariance differs from conditioning the same approximate matrix on train + fantasy data: %s" % (desc, why))
    if c["seed"] % 7 == 0:
        r["sample"] = dict(case=desc, strategy=cls)
    r["errs"] = errs
    r["scls"] = scls
    return r


# ------------------------------------------------------------------------------------------------
# (4) SGPR objective = Titsias collapsed bound, under every noise model of the Gaussian likelihood family
def titsias_bound(torch, Kxx_diag, Kxz, Kzz, y, mx, noise):
    """log N(y; m, Qxx + N) - tr(N^-1 (Kxx - Qxx)) / 2 with N = diag(noise) (a scalar noise is one variance for all points)"""
    n = y.shape[0]
    nz = torch.as_tensor(noise, dtype=torch.float64).expand(n)
    Q = Kxz @ torch.linalg.solve(Kzz, Kxz.transpose(-1, -2))
    A = Q + torch.diag_embed(nz)
    L = torch.linalg.cholesky(A)
    z = torch.linalg.solve_triangular(L, (y - mx).unsqueeze(-1), upper=False).squeeze(-1)
    logn = -0.5 * (z * z).sum() - L.diagonal().log().sum() - 0.5 * n * math.log(2 * math.pi)
    return float(logn - ((Kxx_diag - Q.diagonal()) / nz).sum() / 2), float(torch.linalg.cond(A)), float(torch.linalg.cond(Kzz))


def multitask_bound(torch, Kxx_diag, Kxz, Kzz, B, S, Y, M):
    """collapsed bound of the Kronecker multitask SGPR model: prior K (x) B approximated by Q (x) B (inducing variables: all tasks at the
    inducing inputs), noise I (x) S (interleaved layout):  log N(vec Y; vec M, Q (x) B + I (x) S) - tr((I (x) S)^-1 ((Kxx - Q) (x) B)) / 2"""
    n, t = Y.shape
    Q = Kxz @ torch.linalg.solve(Kzz, Kxz.transpose(-1, -2))
    A = torch.kron(Q, B) + torch.kron(torch.eye(n, dtype=torch.float64), S)
    L = torch.linalg.cholesky(A)
    z = torch.linalg.solve_triangular(L, (Y - M).reshape(-1, 1), upper=False).squeeze(-1)
    logn = -0.5 * (z * z).sum() - L.diagonal().log().sum() - 0.5 * n * t * math.log(2 * math.pi)
    trace = (Kxx_diag - Q.diagonal()).sum() * torch.trace(torch.linalg.solve(S, B))
    return float(logn - trace / 2), float(torch.linalg.cond(A)), float(torch.linalg.cond(Kzz))


def sgpr_objective(torch, gpytorch, model, lik, X, y, params=()):
    """N * ExactMarginalLogLikelihood in training mode (per batch element when the model is batched)"""
    model.train()
    lik.train()
    mll = gpytorch.mlls.ExactMarginalLogLikelihood(lik, model)
    out = model(X)
    val = mll(out, y, *params) * out.event_shape.numel()
    return float(val) if val.dim() == 0 else val.detach().clone()


OBJECTIVE_KINDS = NOISE_KINDS + ("homo-batch", "fixed-batch", "fixedadd-batch", "dirichlet", "dirichlet-add", "mtask")


def objective_worker(item):
    torch, gpytorch = _imports()
    out = []
    for c in item["cases"]:
        out.append(_objective_mtask(torch, gpytorch, c) if c.get("nk") == "mtask" else _objective_case(torch, gpytorch, c))
    return out


def _objective_case(torch, gpytorch, c):
    D = torch.float64
    K = gpytorch.kernels
    L = gpytorch.likelihoods
    settings = gpytorch.settings
    g = gen(torch, c["seed"])
    n, d, nz_, nk = c["n"], c["d"], c["nz"], c.get("nk", "homo")
    desc = " ".join("%s=%s" % (k, v) for k, v in sorted(c.items()) if k != "section")
    r = res_cell(["objective", {k: v for k, v in c.items() if k != "seed"}], "C09/objective/sgpr/%s/%s" % (nk, c["solve"]), dict(c, section="objective"))
    X = torch.rand(n, d, generator=g, dtype=D) * 2 - 1
    Z = torch.rand(nz_, d, generator=g, dtype=D) * 2 - 1
    y = torch.sin(3 * X.sum(-1)) + 0.1 * torch.randn(n, generator=g, dtype=D)
    batch = None
    if nk.endswith("-batch"):
        batch = [2]
    labels = None
    if nk.startswith("dirichlet"):
        labels = torch.randint(0, 3, (n,), generator=g)
        labels[:3] = torch.arange(3)
        batch = [3]
    bs = torch.Size(batch or [])
    inner = base_kernel(torch, gpytorch, c["base"], d, g, ard=(d > 1))
    if batch:       # a batch of GPs with pairwise different hyperparameters
        kw = dict(ard_num_dims=d if d > 1 else None, batch_shape=bs)
        inner = (K.RBFKernel(**kw) if c["base"] == "rbf" else K.MaternKernel(nu=2.5, **kw)).to(D)
        with torch.no_grad():
            inner.lengthscale = 0.4 + 0.9 * torch.rand(*bs, 1, d if d > 1 else 1, generator=g, dtype=D)
    b = K.ScaleKernel(inner, batch_shape=bs).to(D)
    with torch.no_grad():
        b.outputscale = 0.8 + torch.rand(bs, generator=g, dtype=D) if batch else 0.8 + float(torch.rand(1, generator=g, dtype=D))
    # the likelihood
    s2 = float(c["noise"])
    nv = 0.05 + 0.5 * torch.rand(*bs, n, generator=g, dtype=D)            # per-point variances, pairwise different
    needs = False
    if nk in NOISE_KINDS:
        nm = smooth_noise_model(torch, gpytorch, torch.randn(d, generator=g, dtype=D), 0.05, 0.6) if nk == "hetero" else None
        lik, needs = make_lik(torch, gpytorch, nk, s2, nv, nm)
    elif nk == "homo-batch":
        lik = L.GaussianLikelihood(batch_shape=bs).to(D)
        with torch.no_grad():
            lik.noise = s2 * (1.0 + torch.arange(bs[0], dtype=D)).unsqueeze(-1)
    elif nk in ("fixed-batch", "fixedadd-batch"):
        lik = L.FixedNoiseGaussianLikelihood(noise=nv.clone(), learn_additional_noise=nk == "fixedadd-batch", batch_shape=bs).to(D)
        if nk == "fixedadd-batch":
            with torch.no_grad():
                lik.second_noise = s2 * (1.0 + torch.arange(bs[0], dtype=D)).unsqueeze(-1)
    elif nk in ("dirichlet", "dirichlet-add"):
        lik = L.DirichletClassificationLikelihood(labels, alpha_epsilon=0.05, learn_additional_noise=nk == "dirichlet-add", dtype=D).to(D)
        if nk == "dirichlet-add":
            with torch.no_grad():
                lik.second_noise = s2 * (1.0 + torch.arange(3, dtype=D)).unsqueeze(-1)
    else:
        raise core.Machinery("unknown objective noise kind %r" % nk)
    if labels is not None:
        Y = lik.transformed_targets.to(D)
    elif batch:
        Y = torch.stack([y * (1.0 + 0.5 * k) + 0.2 * k for k in range(bs[0])])
    else:
        Y = y
    kern = K.InducingPointKernel(b, inducing_points=Z, likelihood=lik).to(D)
    mc = torch.tensor(float(c["mean"]), dtype=D) * (1.0 + torch.arange(bs[0], dtype=D)) if batch else float(c["mean"])
    model = make_gp_with(torch, gpytorch, X, Y, kern, lik, mc, batch)
    params = (X,) if needs else ()
    with torch.no_grad():
        nvec = lik_noise_vector(torch, lik, X, needs)                    # (*bs, n) as the likelihood reports it
        if nk == "homo" and abs(float(nvec[0]) - float(lik.noise)) > 1e-12 or nvec.shape != torch.Size([*bs, n]):
            raise core.Machinery("noise vector read back from the likelihood has shape %s" % (tuple(nvec.shape),))
        # the noise the family member DENOTES, assembled here from its parameters (property level: not read through _shaped_noise_covar)
        if nk == "homo":
            meant = torch.full((n,), float(lik.noise), dtype=D)
        elif nk == "fixed" or nk == "fixed-batch":
            meant = nv
        elif nk == "fixedadd":
            meant = nv + float(lik.second_noise)
        elif nk == "hetero":
            meant = nm(X).mean
        elif nk == "homo-batch":
            meant = lik.noise.expand(*bs, n)
        elif nk == "fixedadd-batch":
            meant = nv + lik.second_noise
        elif nk == "dirichlet":
            meant = lik.noise_covar.noise
        else:
            meant = lik.noise_covar.noise + lik.second_noise
        meant = meant.to(D).expand(*bs, n)
        wants, conds = [], []
        for k in range(bs[0] if batch else 1):
            bk = b[k] if batch else b
            mk = float(model.mean_module.constant[k]) if batch else float(model.mean_module.constant)
            w, condA, condZ = titsias_bound(torch, bk(X, X).to_dense().diagonal(), bk(X, Z).to_dense(), bk(Z, Z).to_dense(), Y[k] if batch else Y, mk,
                                            meant[k] if batch else meant)
            wants.append(w)
            conds.append((condA, condZ))
    if any(ca > 1e4 or cz > 1e6 for ca, cz in conds):
        r.update(nontrivial=False, n=0)
        return r
    cms, tol = [], (1e-7, 1e-8)
    if c["solve"] == "cg":
        cms, tol = cg_contexts(settings, n), (2e-5, 2e-5)
    with ExitStack() as st:
        for cm in cms:
            st.enter_context(cm)
        ok, got = core.guarded(lambda: sgpr_objective(torch, gpytorch, model, lik, X, Y, params))
    if not ok:
        return fail(r, r["sig"] + "/raises", "%s: %s" % (desc, got))
    gt = torch.as_tensor(got, dtype=D).reshape(-1)
    wt = torch.tensor(wants, dtype=D)
    if gt.shape != wt.shape:
        return fail(r, r["sig"] + "/shape", "%s: the objective has shape %s for a model of batch shape %s" % (desc, tuple(torch.as_tensor(got).shape), list(bs)))
    ok, why = core.close(gt, wt, *tol)
    if not ok:
        fail(r, r["sig"], "%s: N * mll = %s but the collapsed bound log N(y; m, Qxx + N) - tr(N^-1 (Kxx - Qxx))/2 with N = diag(noise of the %s likelihood) = %s (%s)" % (
            desc, [float("%.10g" % v) for v in gt], nk, [float("%.10g" % v) for v in wt], why))
    if c["seed"] % 5 == 0:
        r["sample"] = dict(case=desc, bound=wants)
    return r


MTASK_NOISES = (("global", 0, 1, 0), ("task-diag", 0, 0, 1), ("global+task-diag", 0, 1, 1), ("global+task-rank1", 1, 1, 1), ("task-full-rank", -1, 0, 1))


def _objective_mtask(torch, gpytorch, c):
    """MultitaskKernel(InducingPointKernel) under MultitaskGaussianLikelihood: the multitask branch of the added loss term"""
    D = torch.float64
    K = gpytorch.kernels
    g = gen(torch, c["seed"])
    n, d, nz_, t = c["n"], c["d"], c["nz"], c["t"]
    name, rank_noise, has_global, has_task = [m for m in MTASK_NOISES if m[0] == c["mnoise"]][0]
    rank_noise = t if rank_noise < 0 else rank_noise
    desc = " ".join("%s=%s" % (k, v) for k, v in sorted(c.items()) if k != "section")
    # the cells the unchanged tree is expected to satisfy (unit task variances, diagonal task noise) are kept apart from the others
    area = "correlated-task-noise" if rank_noise > 0 else ("task-covar-not-unit-diagonal" if not c["bunit"] else "unit-task-diag")
    r = res_cell(["objective", {k: v for k, v in c.items() if k != "seed"}], "C09/objective/sgpr-multitask/%s/%s" % (area, name), dict(c, section="objective"))
    X = torch.rand(n, d, generator=g, dtype=D) * 2 - 1
    Z = torch.rand(nz_, d, generator=g, dtype=D) * 2 - 1
    Y = torch.sin(3 * X.sum(-1, keepdim=True) + torch.arange(t, dtype=D)) + 0.1 * torch.randn(n, t, generator=g, dtype=D)
    lik = gpytorch.likelihoods.MultitaskGaussianLikelihood(num_tasks=t, rank=rank_noise, has_global_noise=bool(has_global), has_task_noise=bool(has_task)).to(D)
    base = base_kernel(torch, gpytorch, c["base"], d, g, ard=(d > 1))
    ipk = K.InducingPointKernel(base, inducing_points=Z, likelihood=lik).to(D)
    mk = K.MultitaskKernel(ipk, num_tasks=t, rank=c["rank"]).to(D)

    class M(gpytorch.models.ExactGP):
        def __init__(s_):
            super().__init__(X, Y, lik)
            s_.mean_module = gpytorch.means.MultitaskMean(gpytorch.means.ConstantMean(), num_tasks=t)
            s_.covar_module = mk

        def forward(s_, x):
            return gpytorch.distributions.MultitaskMultivariateNormal(s_.mean_module(x), s_.covar_module(x))
    model = M().to(D)
    ik = mk.task_covar_module
    with torch.no_grad():
        for a_, mm in enumerate(model.mean_module.base_means):
            mm.constant = torch.tensor(0.2 * a_ - 0.1, dtype=D)
        F = 0.6 * torch.rand(t, c["rank"], generator=g, dtype=D) - 0.3
        ik.covar_factor.copy_(F)
        ik.var = (1.0 - (F * F).sum(-1)) if c["bunit"] else 0.3 + torch.rand(t, generator=g, dtype=D)
        S = torch.zeros(t, t, dtype=D)
        if has_global:
            lik.noise = torch.tensor(0.1 + float(c["noise"]), dtype=D)
            S = S + float(lik.noise) * torch.eye(t, dtype=D)
        if has_task:
            if rank_noise == 0:
                lik.task_noises = 0.1 + 0.4 * torch.rand(t, generator=g, dtype=D)
                S = S + torch.diag_embed(lik.task_noises)
            else:
                lik.task_noise_covar_factor.copy_((0.5 * torch.eye(t, dtype=D) + 0.1 + 0.2 * torch.rand(t, t, generator=g, dtype=D))[:, :rank_noise])
                S = S + lik.task_noise_covar_factor @ lik.task_noise_covar_factor.transpose(-1, -2)
        B = F @ F.transpose(-1, -2) + torch.diag_embed(ik.var)
        Mx = torch.stack([mm.constant.expand(n) for mm in model.mean_module.base_means], -1)
        want, condA, condZ = multitask_bound(torch, base(X, X).to_dense().diagonal(), base(X, Z).to_dense(), base(Z, Z).to_dense(), B, S, Y, Mx)
    if condA > 1e4 or condZ > 1e6:
        r.update(nontrivial=False, n=0)
        return r
    ok, got = core.guarded(lambda: sgpr_objective(torch, gpytorch, model, lik, X, Y))
    if not ok:
        return fail(r, r["sig"] + "/raises", "%s: %s" % (desc, got))
    ok, why = core.close(torch.tensor(got), torch.tensor(want), 1e-7, 1e-8)
    if not ok:
        fail(r, r["sig"], "%s: N * mll = %.10g but the collapsed bound of the Kronecker multitask model, log N(vec Y; vec M, Qxx (x) B + I (x) S) - tr(Kxx - Qxx) tr(S^-1 B) / 2 "
             "(B the task covariance, S the task noise covariance) = %.10g (%s)" % (desc, got, want, why))
    return r


# (6) histories of the grid kernels (Structured.tla part "gridsm"): after every step the kernel must denote W K_UU W^T of its CURRENT grid
GSM_SIZES = {"fixed": {1: [8], 2: [6, 7]}, "dyn": {1: [8], 2: [6, 7]}, "plain": {1: [5], 2: [3, 4]}}
GSM_BOUNDS = {0: [(0.0, 1.0), (0.0, 1.0)], 1: [(-1.0, 2.0), (-0.5, 1.5)], 2: [(-0.3, 1.4), (-2.0, 3.0)]}      # grid id -> bounds per dimension (all cover [0, 1]^d)
GSM_AFFINE = [(0.0, 1.0), (0.3, 0.7)]                                                                        # "dyn": dimension i sees a_i + s_i * u, u in the spec's range


def gsm_grid(torch, kind, d, gid):
    from gpytorch.utils.grid import create_grid
    sizes = GSM_SIZES[kind][d]
    if kind == "plain":       # equally spaced, a different spacing per grid id and dimension
        return [torch.linspace(GSM_BOUNDS[gid][i][0], GSM_BOUNDS[gid][i][1], sizes[i], dtype=torch.float64) for i in range(d)]
    return create_grid(sizes, GSM_BOUNDS[gid][:d], dtype=torch.float64)


def gsm_kernel(torch, gpytorch, kind, d, base, gid=0):
    K = gpytorch.kernels
    D = torch.float64
    if kind == "plain":
        return K.GridKernel(base, grid=[t.clone() for t in gsm_grid(torch, kind, d, gid)]).to(D)
    if kind == "dyn":
        return K.GridInterpolationKernel(base, grid_size=list(GSM_SIZES[kind][d]), num_dims=d).to(D)
    kern = K.GridInterpolationKernel(base, grid_size=list(GSM_SIZES[kind][d]), grid_bounds=GSM_BOUNDS[gid][:d]).to(D)
    kern.update_grid([t.clone() for t in gsm_grid(torch, kind, d, gid)])          # float64 grid (the constructor's is float32 cast)
    return kern


def gridsm_worker(item):
    torch, gpytorch = _imports()
    return [_gridsm_case(torch, gpytorch, c) for c in item["cases"]]


def _gridsm_case(torch, gpytorch, c):
    import copy
    D = torch.float64
    settings = gpytorch.settings
    kind, d, toep, hist = c["kind"], c["d"], bool(c["toep"]), c["hist"]
    g = gen(torch, c["seed"])
    names = []
    for st in hist:
        names.append(("refit" if st.get("refit") else "eval") if st["a"] == "eval" else st["a"])
    desc = "%s kernel d=%d use_toeplitz=%s start=%s history=%s" % (
        {"fixed": "GridInterpolationKernel(grid_bounds)", "dyn": "GridInterpolationKernel(dynamic grid)", "plain": "GridKernel"}[kind], d, toep, c["mode0"],
        " > ".join("%s%s" % (nm, "(%s)" % ",".join(str(v) for v in st["x"]) if st["a"] == "eval" else ("(%s)" % st.get("g", st.get("mode")))) for nm, st in zip(names, hist)))
    moved = any(nm in ("update", "load") for nm in names) or names.count("refit") > 1
    r = res_cell(["gridsm", kind, d, int(toep), c["mode0"], [[st["a"]] + [st.get(k) for k in ("x", "g", "mode")] for st in hist]],
                 "C09/gridsm/%s" % kind, dict(c, section="gridsm"), nontrivial=moved)
    base = base_kernel(torch, gpytorch, "rbf", d, g, ard=(d > 1))

    def sig(k, what=""):
        prev = names[k - 1] if k else "construction"
        return "C09/gridsm/%s/%s-mode/%s-after-%s%s" % (kind, hist[k]["mode"], names[k], prev, what)

    with torch.no_grad():
        ok, kern = core.guarded(lambda: gsm_kernel(torch, gpytorch, kind, d, base))
        if not ok:
            return fail(r, "C09/gridsm/%s/constructor-raises" % kind, "%s: %s" % (desc, kern))
        kern.train(c["mode0"] == "train")
        for k, st in enumerate(hist):
            a = st["a"]
            if a == "switch":
                ok, e = core.guarded(lambda: kern.train(st["mode"] == "train"))
                if not ok:
                    return fail(r, "C09/gridsm/%s/switch-raises" % kind, "%s: step %d: %s" % (desc, k, e))
                continue
            if a == "update":
                ok, e = core.guarded(lambda: kern.update_grid([t.clone() for t in gsm_grid(torch, kind, d, st["g"])]))
                if not ok:
                    return fail(r, "C09/gridsm/%s/update_grid-raises" % kind, "%s: step %d: %s" % (desc, k, e))
                continue
            if a == "load":
                donor = gsm_kernel(torch, gpytorch, kind, d, copy.deepcopy(base), st["g"])
                ok, e = core.guarded(lambda: kern.load_state_dict(donor.state_dict()))
                if not ok:
                    return fail(r, "C09/gridsm/%s/load_state_dict-raises" % kind, "%s: step %d: %s" % (desc, k, e))
                continue
            # ---- an evaluation
            if kern.training != (st["mode"] == "train"):
                raise core.Machinery("mode of the replayed kernel differs from the spec's at step %d: %s" % (k, desc))
            if kind == "dyn":
                def draw(rng, exact, n):
                    lo, hi = rng[0] / 2.0, rng[1] / 2.0
                    if not exact:
                        lo, hi = lo + 0.02 * (hi - lo), hi - 0.02 * (hi - lo)
                    u = lo + (hi - lo) * torch.rand(n, d, generator=g, dtype=D)
                    if exact:
                        u[0], u[1] = lo, hi
                    return torch.stack([GSM_AFFINE[i][0] + GSM_AFFINE[i][1] * u[:, i] for i in range(d)], -1)
                ranges = {"A": (0, 2), "B": (-2, 4), "C": (6, 10)}
                x1 = draw(ranges[st["x"][0]], st["refit"], 4)
                x2 = x1 if st["x"][0] == st["x"][1] else draw(ranges[st["x"][1]], st["refit"], 3)
                before = [t.clone() for t in kern.grid]
            elif kind == "fixed":
                x1 = 0.05 + 0.9 * torch.rand(4, d, generator=g, dtype=D)
                x2 = x1 if st["x"][0] else 0.05 + 0.9 * torch.rand(3, d, generator=g, dtype=D)
            else:
                want_grid = gsm_grid(torch, kind, d, st["grid"][0])
                from gpytorch.utils.grid import create_data_from_grid
                pts = create_data_from_grid(want_grid)
                x1 = pts if st["x"][0] else 0.05 + 0.9 * torch.rand(4, d, generator=g, dtype=D)
                x2 = x1 if st["x"][0] else 0.05 + 0.9 * torch.rand(3, d, generator=g, dtype=D)
            with settings.use_toeplitz(toep):
                ok, got = core.guarded(lambda: kern(x1, x2).to_dense())
            if not ok:
                return fail(r, sig(k, "/raises"), "%s: step %d: %s" % (desc, k, got))
            cur = [t.clone() for t in kern.grid]
            last = k == len(hist) - 1          # the verdict is taken at the last step (every prefix is a history of its own)
            if kind != "dyn":
                # the current grid is the one last supplied (constructor / update_grid / load_state_dict)
                want_grid = gsm_grid(torch, kind, d, st["grid"][0])
                if len(cur) != len(want_grid) or not all(torch.equal(p, q) for p, q in zip(cur, want_grid)):
                    return fail(r, sig(k, "/grid"), "%s: step %d: kernel.grid is not the grid last supplied (grid %d)" % (desc, k, st["grid"][0]))
            else:
                changed = not all(torch.equal(p, q) for p, q in zip(cur, before))
                if changed != bool(st["refit"]):
                    r["drift"] = "gridsm dyn: step %d of %s: the grid %s, the model says refit = %s" % (k, desc, "moved" if changed else "stayed", st["refit"])
            if not last:
                continue
            if kind == "plain":
                if not torch.equal(kern.full_grid, create_data_from_grid(want_grid)):
                    return fail(r, sig(k, "/full_grid"), "%s: step %d: full_grid is not the point set of the current grid" % (desc, k))
                want = product_of_1d(torch, base, x1, x2) if st["x"][0] else base(x1, x2).to_dense()
                what = "prod_c k_c on the points of the CURRENT grid" if st["x"][0] else "the base kernel (off the grid)"
                tol = (1e-9, 1e-11)
            else:
                want = ski_dense(torch, base, cur, x1, x2)
                what = "W1 K_UU W2^T with K_UU the base kernel on the points of the CURRENT grid"
                tol = (1e-8, 1e-10)
            ok, why = core.close(got, want, *tol)
            if not ok:
                return fail(r, sig(k), "%s: step %d: the evaluated kernel differs from %s: %s" % (desc, k, what, why))
            # a fresh kernel with the same grid, no history
            fresh = gsm_kernel(torch, gpytorch, "fixed" if kind == "dyn" else kind, d, base)
            fresh.update_grid([t.clone() for t in cur])
            fresh.train(kern.training)
            with settings.use_toeplitz(toep):
                ok, ref = core.guarded(lambda: fresh(x1, x2).to_dense())
            if not ok:
                raise core.Machinery("fresh kernel raises: %s: %s" % (desc, ref))
            ok, why = core.close(got, ref, 1e-10, 1e-12)
            if not ok:
                return fail(r, sig(k, "/vs-fresh"), "%s: step %d: differs from a fresh kernel with the same grid and mode: %s" % (desc, k, why))
    if c["seed"] % 211 == 0:
        r["sample"] = dict(case=desc)
    return r


# ------------------------------------------------------------------------------------------------
# (7) access forms (Structured.tla part "access"): every way of reading a structured kernel is a projection of ONE dense meaning
ACCESS_FORMS = ("full", "diagarg", "lazydiag", "evaldiag", "variance")


def read_form(torch, gpytorch, kern, x1, x2, form):
    """the value the access form `form` of Structured.tla yields on the real kernel"""
    if form == "full":
        return kern(x1, x2).to_dense()
    if form == "diagarg":
        return kern(x1, x2, diag=True)
    if form == "lazydiag":
        return kern(x1, x2).diagonal(dim1=-1, dim2=-2)
    if form == "evaldiag":
        return kern(x1, x2).evaluate_kernel().diagonal(dim1=-1, dim2=-2)
    if form == "variance":
        lazy = kern(x1)
        return gpytorch.distributions.MultivariateNormal(torch.zeros(lazy.shape[-1], dtype=torch.float64), lazy).variance
    raise core.Machinery("unknown access form %r" % form)


def project_form(torch, gpytorch, want, form):
    if form == "full":
        return want
    dg = want.diagonal(dim1=-1, dim2=-2)
    if form == "variance":          # MultivariateNormal.variance rounds up to settings.min_variance
        dg = dg.clamp_min(gpytorch.settings.min_variance.value(torch.float64))
    return dg


def access_build(torch, gpytorch, fam, mode, on, same, g):
    """-> (kernel in the given mode, x1, x2, want(corrected) -> dense meaning (called AFTER the kernel has been read), setting context)"""
    D = torch.float64
    K = gpytorch.kernels
    settings = gpytorch.settings
    n, d, t = 5, 2, 2

    def rx(k, dd=d):
        return torch.rand(k, dd, generator=g, dtype=D) * 2 - 1
    x1 = rx(n)
    x2 = x1 if same else rx(n)
    ctx = None
    if fam in ("nystrom", "mtask-nystrom"):
        b = K.ScaleKernel(base_kernel(torch, gpytorch, "rbf" if int(torch.randint(0, 2, (1,), generator=g)) else "matern25", d, g, ard=True)).to(D)
        b.outputscale = torch.tensor(1.3, dtype=D)
        Z = rx(3)
        kern = ipk = K.InducingPointKernel(b, inducing_points=Z.clone(), likelihood=gpytorch.likelihoods.GaussianLikelihood().to(D)).to(D)
        Q = b(x1, Z).to_dense() @ torch.linalg.solve(b(Z, Z).to_dense(), b(Z, x2).to_dense())
        gap = (b(x1, x2).to_dense().diagonal() - Q.diagonal()).clamp_min(0)
        B = None
        if fam == "mtask-nystrom":
            kern = K.MultitaskKernel(ipk, num_tasks=t, rank=1).to(D)
            _seed_index_kernel(torch, kern.task_covar_module, g)
            B = _task_matrix(torch, kern.task_covar_module)
        if float(torch.linalg.cond(b(Z, Z).to_dense())) > 1e6 or (same and float(gap.max()) < 1e-3):
            return None

        def want(corrected):
            M = Q + torch.diag_embed(gap) if corrected else Q
            return M if B is None else torch.einsum("ij,ab->iajb", M, B).reshape(n * t, n * t)
        ctx = settings.sgpr_diagonal_correction(bool(on))
    elif fam in ("ski", "ski-dyn"):
        sizes = [8, 9]
        b = base_kernel(torch, gpytorch, "rbf", d, g, ard=True)
        if fam == "ski":
            inner = precise_grid(torch, gpytorch, K.GridInterpolationKernel(b, grid_size=sizes, grid_bounds=[(-1.2, 1.2), (-1.3, 1.4)]).to(D))
        else:
            inner = K.GridInterpolationKernel(b, grid_size=sizes, num_dims=d).to(D)
        kern = K.ScaleKernel(inner).to(D)
        kern.outputscale = torch.tensor(1.7, dtype=D)
        osc = float(kern.outputscale)

        def want(corrected):
            return ski_dense(torch, b, inner.grid, x1, x2, osc)
        ctx = settings.use_toeplitz(bool(on))
    elif fam == "grid":
        b = base_kernel(torch, gpytorch, "rbf", d, g, ard=True)
        grid = [torch.linspace(-0.5, 0.7, 3, dtype=D), torch.linspace(-1.0, 0.4, 4, dtype=D)]
        kern = K.GridKernel(b, grid=grid).to(D)
        if same:          # the structured path: on the kernel's own grid
            x1 = x2 = kern.full_grid.clone()

        def want(corrected):
            return product_of_1d(torch, b, x1, x2) if same else b(x1, x2).to_dense()
        ctx = settings.use_toeplitz(bool(on))
    elif fam in ("mtask", "lcm"):
        bases = [base_kernel(torch, gpytorch, nm, d, g, ard=True) for nm in (["rbf"] if fam == "mtask" else ["rbf", "matern15"])]
        kern = (K.MultitaskKernel(bases[0], num_tasks=t, rank=1) if fam == "mtask" else K.LCMKernel(bases, num_tasks=t, rank=1)).to(D)
        mts = [kern] if fam == "mtask" else list(kern.covar_module_list)
        for mt in mts:
            _seed_index_kernel(torch, mt.task_covar_module, g)

        def want(corrected):
            return sum(torch.einsum("ij,ab->iajb", b(x1, x2).to_dense(), _task_matrix(torch, mt.task_covar_module)).reshape(n * t, n * t) for b, mt in zip(bases, mts))
    elif fam in ("index", "index-product"):
        t3 = 3
        i1 = torch.randint(0, t3, (n, 1), generator=g)
        i2 = i1 if same else torch.randint(0, t3, (n, 1), generator=g)
        if fam == "index":
            kern = ik = K.IndexKernel(num_tasks=t3, rank=1).to(D)
            z1, z2 = i1, i2
            b = None
        else:
            b = base_kernel(torch, gpytorch, "rbf", d, g, active_dims=tuple(range(d)))
            ik = K.IndexKernel(num_tasks=t3, rank=1, active_dims=(d,)).to(D)
            kern = b * ik
            z1 = torch.cat([x1, i1.to(D)], -1)
            z2 = z1 if same else torch.cat([x2, i2.to(D)], -1)
        _seed_index_kernel(torch, ik, g)
        xa, xb = x1, x2

        def want(corrected):
            Bm = _task_matrix(torch, ik)[i1.squeeze(-1)][:, i2.squeeze(-1)]
            return Bm if b is None else b(xa, xb).to_dense() * Bm
        x1, x2 = z1, z2
    elif fam == "rff":
        ns = 2 if int(torch.randint(0, 2, (1,), generator=g)) else 6          # fewer / more features than points
        inner = K.RFFKernel(num_samples=ns, num_dims=d).to(D)
        inner.randn_weights = torch.randn(d, ns, generator=g, dtype=D)
        inner.lengthscale = 0.8
        kern = K.ScaleKernel(inner).to(D)
        kern.outputscale = torch.tensor(0.6, dtype=D)
        osc = float(kern.outputscale)

        def want(corrected):
            def phi(x):
                a = x @ (inner.randn_weights / inner.lengthscale.transpose(-1, -2))
                return torch.cat([a.cos(), a.sin()], -1)
            return osc * phi(x1) @ phi(x2).T / ns
    else:
        raise core.Machinery("unknown access family %r" % fam)
    kern.train(mode == "train")
    return kern, x1, x2, want, ctx


def access_worker(item):
    """item["cases"]: groups dict(fam, mode, on, same, setting, forms=[dict(form, proj, corrected, route)], seed): one kernel instance per group,
    every form of the group read from it and compared with the projection the spec names of the dense meaning the spec names"""
    torch, gpytorch = _imports()
    out = []
    for c in item["cases"]:
        fam, mode, on, same = c["fam"], c["mode"], bool(c["on"]), bool(c["same"])
        cellname = "%s/%s%s/%s" % (fam, mode, "" if c["setting"] == "none" else ("-%s-%s" % (c["setting"], "on" if on else "off")), "same" if same else "cross")
        built = None
        for k in range(5):          # (an ill-conditioned Kzz / a vanishing gap: next seeded instance)
            g = gen(torch, c["seed"] + 7919 * k)
            with torch.no_grad():
                built = access_build(torch, gpytorch, fam, mode, on, same, g)
            if built is not None:
                break
        for f in c["forms"]:
            form = f["form"]
            r = res_cell(["access", fam, mode, int(on), int(same), form], "C09/access/%s/%s" % (cellname, form), dict(c, forms=[f], section="access"))
            out.append(r)
            if built is None:
                r.update(nontrivial=False, n=0)
                continue
            kern, x1, x2, want, ctx = built
            desc = "%s kernel, %s mode%s, %s, read as %s" % (fam, mode, "" if c["setting"] == "none" else ", %s(%s)" % (c["setting"], on), "x1 is x2" if same else "x1 != x2",
                                                          {"full": "kernel(x1, x2).to_dense()", "diagarg": "kernel(x1, x2, diag=True)", "lazydiag": "kernel(x1, x2).diagonal() (lazy)",
                                                           "evaldiag": "kernel(x1, x2).evaluate_kernel().diagonal()", "variance": "MultivariateNormal(0, kernel(x)).variance"}[form])
            if (f["proj"] == "full") != (form == "full"):
                raise core.Machinery("projection %r for form %r" % (f["proj"], form))
            with torch.no_grad(), ExitStack() as st:
                if ctx is not None:
                    st.enter_context(ctx)
                ok, got = core.guarded(lambda: read_form(torch, gpytorch, kern, x1, x2, form))
                if not ok:
                    fail(r, r["sig"] + "/raises", "%s: %s" % (desc, got))
                    continue
                w = project_form(torch, gpytorch, want(bool(f["corrected"])), form)
            ok, why = core.close(got, w, 1e-8, 1e-10)
            if not ok:
                fail(r, r["sig"], "%s: differs from %s of the dense meaning (%s): %s" % (
                    desc, "the whole matrix" if form == "full" else "the diagonal",
                    "Kxz Kzz^-1 Kzx + diag(Kxx - Qxx): eval mode, correction on, x1 = x2" if f["corrected"] else
                    ("Kxz Kzz^-1 Kzx, NO diagonal correction" if fam in ("nystrom", "mtask-nystrom") else "the explicit dense formula"), why))
    return out


# ------------------------------------------------------------------------------------------------
# (8) model-level predictions on a data-driven grid (Structured.tla part "gridpred")
GP_SIZES = {1: ([10], [13], [16]), 2: ([8, 9], [9, 8], [8, 8])}
GP_SLIVER = (1e-4, 0.02, 0.2, 0.6)          # "sl": distance from the training extreme, in grid cells (cell = extent / (grid_size - 4.02))


def gridpred_worker(item):
    torch, gpytorch = _imports()
    return [_gridpred_case(torch, gpytorch, c) for c in item["cases"]]


def _gridpred_case(torch, gpytorch, c):
    D = torch.float64
    K = gpytorch.kernels
    settings = gpytorch.settings
    d, fpv, toep, scale, hist = c["d"], bool(c["fpv"]), bool(c["toep"]), bool(c["scale"]), c["hist"]
    g = gen(torch, c["seed"])
    sizes = list(GP_SIZES[d][int(torch.randint(0, 3, (1,), generator=g))])
    lastpos = [st for st in hist if st["a"] == "predict"][-1]["pos"]
    clean = bool(hist[-1]["clean"])
    desc = "KISS-GP exact GP, data-driven grid %s, d=%d fast_pred_var=%s use_toeplitz=%s scale=%s history=%s" % (
        sizes, d, fpv, toep, scale, " > ".join("predict(test extent: lower %s, upper %s)" % tuple(st["pos"]) if st["a"] == "predict" else "train();eval()" for st in hist))
    # three classes: a test extent outside the training extent since the last strategy reset (known finding C03/ext/gridi), a test extent that shares
    # exactly ONE extreme with the training extent (the other end inside), everything else inside
    cls = "test-outside-training-extent" if not clean else ("test-shares-one-training-extreme" if (lastpos[0] == "eq") != (lastpos[1] == "eq") else "test-inside-training-extent")
    area = "C09/gridpred/%s/lower-%s-upper-%s" % (cls, lastpos[0], lastpos[1])
    r = res_cell(["gridpred", d, int(fpv), int(toep), int(scale), [[st["a"]] + list(st.get("pos", [])) for st in hist]], area, dict(c, section="gridpred"),
                 nontrivial=any(p != "in" for p in lastpos))
    r["clean"] = clean
    n, ns = (12, 5) if d == 1 else (14, 5)
    a = -1.0 + 0.5 * torch.rand(d, generator=g, dtype=D)
    b = 0.5 + 0.7 * torch.rand(d, generator=g, dtype=D)
    X = a + (b - a) * torch.rand(n, d, generator=g, dtype=D)
    X[0], X[1] = a, b
    y = torch.sin(3 * X.sum(-1)) + 0.1 * torch.randn(n, generator=g, dtype=D)
    base = base_kernel(torch, gpytorch, "rbf", d, g, ard=(d > 1))
    inner = K.GridInterpolationKernel(base, grid_size=sizes, num_dims=d).to(D)
    top = inner
    if scale:
        top = K.ScaleKernel(inner).to(D)
        with torch.no_grad():
            top.outputscale = torch.tensor(1.4, dtype=D)
    model, lik = make_gp(torch, gpytorch, X, y, top, 0.2, 0.3)
    for p in model.parameters():
        p.requires_grad_(False)
    model.eval()
    lik.eval()
    noise, mc = float(lik.noise), float(model.mean_module.constant)
    osc = float(top.outputscale) if scale else None

    def extreme(pos, side, i):
        """coordinate of the test extreme in dimension i for the spec's position class"""
        L = float(b[i] - a[i])
        cell = L / (sizes[i] - 4.02)
        u = float(torch.rand(1, generator=g, dtype=D))
        off = {"in": (0.15 + 0.25 * u) * L, "sl": GP_SLIVER[int(4 * u) % 4] * cell, "eq": 0.0, "out": -(0.08 + 0.2 * u) * L}[pos]
        return float(a[i]) + off if side == 0 else float(b[i]) - off

    with torch.no_grad():
        for k, st in enumerate(hist):
            if st["a"] == "reset":
                model.train()
                lik.train()
                model.eval()
                lik.eval()
                continue
            pl, pu = st["pos"]
            # dimension 0 takes the spec's (lower, upper) positions, dimension 1 the same pair with the sides exchanged
            lo = torch.tensor([extreme((pl, pu)[i % 2], 0, i) for i in range(d)], dtype=D)
            hi = torch.tensor([extreme((pu, pl)[i % 2], 1, i) for i in range(d)], dtype=D)
            Xs = lo + (hi - lo) * torch.rand(ns, d, generator=g, dtype=D)
            Xs[0], Xs[1] = lo, hi
            with settings.fast_pred_var(fpv), settings.use_toeplitz(toep):
                ok, got = core.guarded(lambda: (lambda post: (post.mean.clone(), post.covariance_matrix.clone(), post.variance.clone()))(model(Xs)))
            last = k == len(hist) - 1
            if not ok:
                if last:
                    fail(r, r["sig"] + "/raises", "%s: step %d: %s" % (desc, k, got))
                    break
                if clean:
                    return fail(r, r["sig"] + "/earlier-step-raises", "%s: step %d: %s" % (desc, k, got))
                r.update(nontrivial=False)
                return r
            if not last:
                continue
            # the dense conditional of the approximate matrix of the joint inputs, read from the model's own covar_module after the prediction
            Z = torch.cat([X, Xs], 0)
            with settings.use_toeplitz(toep):
                J = top(Z).to_dense()
            wm, wc, cond = _conditional(torch, J[:n, :n], J[n:, :n], J[n:, n:], noise, y, torch.full((n,), mc, dtype=D), torch.full((ns,), mc, dtype=D))
            if cond > 1e4:
                r.update(nontrivial=False, n=0)
                return r
            cs = float(J.abs().max())
            msc = max(1.0, float(y.abs().max()), float(wm.abs().max()))
            if clean:
                # ... which is W K_UU W^T on the grid the kernel has NOW (the meaning of the interpolated kernel)
                ok, why = core.close(J, ski_dense(torch, base, inner.grid, Z, Z, osc), 1e-8, 1e-10)
                if not ok:
                    fail(r, r["sig"] + "/joint-matrix", "%s: covar_module(cat(train, test)) differs from W K_UU W^T on the kernel's current grid: %s" % (desc, why))
            rtol = 1e-6 if fpv else 1e-7
            for what, gq, wq, sc in (("mean", got[0], wm, msc), ("covariance", got[1], wc, cs), ("variance", got[2], wc.diagonal().clamp_min(0), cs)):
                e = float((gq - wq).abs().max()) / sc if gq.shape == wq.shape else float("inf")
                r.setdefault("errs", {})[what] = e
                if not e <= rtol:
                    fail(r, r["sig"] + "/" + what, "%s: predictive %s differs from the dense conditional of covar_module(cat(train, test)).to_dense(): max|diff| = %.3e "
                         "(scale of the prior %.3e, tol %.0e relative to it); last test inputs span %s .. %s, training inputs %s .. %s" % (
                             desc, what, e * sc, sc, rtol, lo.tolist(), hi.tolist(), a.tolist(), b.tolist()))
    if not clean and not r["ok"] and os.environ.get("VERIF_C09_OUTSIDE") != "violation":
        # the class of known finding C03/ext/gridi/strategy-kept-across-update_grid (decided by C03): recorded, not a verdict of this check
        r.update(ok=True, outside_deviates=r["sig"], outside_detail=r["detail"][:400], sig=area, detail="")
    if c["seed"] % 53 == 0:
        r["sample"] = dict(case=desc, errs=r.get("errs"))
    return r


# ------------------------------------------------------------------------------------------------
# (5) refinement table
def refine_worker(item):
    torch, gpytorch = _imports()
    D = torch.float64
    K = gpytorch.kernels
    out = []
    for c in item["cases"]:
        g = gen(torch, c["seed"])
        d = c["d"]
        b = base_kernel(torch, gpytorch, c["base"], d, g)
        x = 0.1 + 0.8 * torch.rand(c["n"], d, generator=g, dtype=D)
        errs = []
        with torch.no_grad():
            # in more than one dimension the grid kernels represent the product over dimensions of the 1-D base kernel (Kronecker structure);
            # that IS the base kernel for RBF, for other stationary kernels the table is taken against the product form
            Kb = b(x, x).to_dense() if (d == 1 or c["base"] == "rbf") else product_of_1d(torch, b, x, x)
            for gs in c["sizes"]:
                kern = precise_grid(torch, gpytorch, K.GridInterpolationKernel(b, grid_size=gs, grid_bounds=[(0.0, 1.0)] * d).to(D))
                errs.append(float((kern(x, x).to_dense() - Kb).abs().max()))
        r = res_cell(["refine", {k: v for k, v in c.items() if k != "seed"}], "C09/refine/%s/%dd" % (c["base"], d), dict(c, section="refine"))
        r["table"] = dict(base=c["base"], d=d, sizes=c["sizes"], max_abs_error=errs)
        if not (errs[0] > errs[1] > errs[2]):
            fail(r, r["sig"], "errors of the interpolated kernel do not decrease with the grid size: sizes %s errors %s" % (c["sizes"], errs))
        out.append(r)
    return out
