"""C09 helpers: float64 replays of structured kernels and kernel-specific prediction strategies against their dense meaning.

dense_worker     (2) kernel(x1, x2).to_dense() vs the explicit dense formula (einsum / enumeration-free tensor products)
strategy_worker  (3) the kernel's own prediction strategy vs DefaultPredictionStrategy on the SAME approximate matrix
                     (a second ExactGP whose kernel is a thin dense wrapper) and vs the Gaussian conditional computed here
objective_worker (4) SGPR training objective * N vs the Titsias collapsed bound computed densely
refine_worker    (5) error table |SKI - base| on three grid sizes
"""
import math
from contextlib import ExitStack

from harness import core

PID = "C09"
CG_ITERS = 100            # linear_cg freezes a column at residual 1e-10 and never reports tolerance 1e-12 as reached: it always runs all iterations
CG_RTOL = 5e-4            # see ck.assumptions (calibration of the iterative cells)
CG_FANTASY_RTOL = 5e-3


# ------------------------------------------------------------------------------------------------
# helpers
def _imports():
    torch = core.setup_torch()
    import gpytorch
    return torch, gpytorch


def gen(torch, seed):
    return torch.Generator().manual_seed(int(seed))


def base_kernel(torch, gpytorch, name, d, g, ard=False, active_dims=None):
    """a stationary base kernel with seeded hyperparameters (float64)"""
    K = gpytorch.kernels
    if name == "rbf":
        k = K.RBFKernel(ard_num_dims=d if ard else None, active_dims=active_dims)
    elif name == "matern15":
        k = K.MaternKernel(nu=1.5, ard_num_dims=d if ard else None, active_dims=active_dims)
    elif name == "matern25":
        k = K.MaternKernel(nu=2.5, ard_num_dims=d if ard else None, active_dims=active_dims)
    else:
        raise core.Machinery("unknown base kernel %r" % name)
    k = k.to(torch.float64)
    with torch.no_grad():
        if ard:
            k.lengthscale = 0.4 + 0.9 * torch.rand(1, d, generator=g, dtype=torch.float64)
        else:
            k.lengthscale = 0.4 + 0.5 * float(torch.rand(1, generator=g, dtype=torch.float64))
    return k


def precise_grid(torch, gpytorch, kern):
    """GridInterpolationKernel builds its grid with create_grid's float32 default and .to(float64) keeps the float32-rounded values, so
    the grid is equally spaced only to 1e-8; Toeplitz structure presupposes an equally spaced grid: rebuild it in float64"""
    from gpytorch.utils.grid import create_grid
    kern.update_grid(create_grid(kern.grid_sizes, kern.grid_bounds, dtype=torch.float64))
    return kern


def weights_1d(torch, grid_1d, x_1d):
    """dense n x g matrix of the 1-D interpolation weights, through the real interpolate() on ONE dimension"""
    from gpytorch.utils.interpolation import Interpolation
    idx, val = Interpolation().interpolate([grid_1d], x_1d.reshape(-1, 1))
    W = torch.zeros(x_1d.numel(), grid_1d.numel(), dtype=torch.float64)
    W.scatter_add_(1, idx, val)
    return W


def ski_dense(torch, base, grid, x1, x2, outputscale=None):
    """enumeration-free meaning of the interpolated kernel: sum_{u,u'} w_u(x) k(u, u') w_u'(x'), w_u(x) = prod_c w^c_{u_c}(x_c);
    grid points are enumerated HERE in C order and the weights are combined in the same order"""
    def full(x):
        out = None
        for c, gc in enumerate(grid):
            w = weights_1d(torch, gc, x[:, c])
            out = w if out is None else (out.unsqueeze(-1) * w.unsqueeze(-2)).reshape(out.shape[0], -1)
        return out
    pts = torch.stack([t.reshape(-1) for t in torch.meshgrid(*grid, indexing="ij")], -1)
    Kuu = base(pts, pts).to_dense()
    res = full(x1) @ Kuu @ full(x2).transpose(-1, -2)
    return res if outputscale is None else outputscale * res


def product_of_1d(torch, base, pts1, pts2):
    """prod_c k_c(x[c], x'[c]) with k_c the base kernel restricted to dimension c (its own lengthscale when ARD)"""
    cov = base(pts1, pts2, last_dim_is_batch=True).to_dense()        # d x n x m
    return cov.prod(dim=-3)


def cg_contexts(settings, n):
    return [settings.max_cholesky_size(0), settings.fast_computations(solves=True, covar_root_decomposition=True, log_prob=True),
            settings.eval_cg_tolerance(1e-12), settings.cg_tolerance(1e-12), settings.max_cg_iterations(CG_ITERS),
            settings.max_root_decomposition_size(max(100, 2 * n)), settings.max_preconditioner_size(0),
            settings.max_lanczos_quadrature_iterations(max(100, 2 * n))]


def make_gp(torch, gpytorch, X, y, kernel, noise, mean_const, lik=None):
    lik = lik or gpytorch.likelihoods.GaussianLikelihood()

    class M(gpytorch.models.ExactGP):
        def __init__(s_):
            super().__init__(X, y, lik)
            s_.mean_module = gpytorch.means.ConstantMean()
            s_.covar_module = kernel

        def forward(s_, x):
            return gpytorch.distributions.MultivariateNormal(s_.mean_module(x), s_.covar_module(x))
    m = M().to(torch.float64)
    lik.to(torch.float64)
    with torch.no_grad():
        lik.noise = torch.tensor(float(noise), dtype=torch.float64)
        m.mean_module.constant = torch.tensor(float(mean_const), dtype=torch.float64)
    return m, lik


def dense_wrapper_class(gpytorch):
    class DenseOf(gpytorch.kernels.Kernel):
        """the SAME approximate matrix as `inner`, as a plain dense kernel (prediction_strategy = the default one)"""

        def __init__(s_, inner):
            super().__init__()
            s_.inner = inner

        def forward(s_, x1, x2, diag=False, **params):
            K = s_.inner(x1, x2).to_dense()
            return K.diagonal(dim1=-1, dim2=-2) if diag else K
    return DenseOf


def sgpr_wrapper_class(torch, gpytorch):
    class SGPRDense(gpytorch.kernels.Kernel):
        """joint prior the SGPR predictive equations condition on (see ck.assumptions): training block Qxx (+ diag(Kxx - Qxx) when the
        diagonal correction is on), cross block Q*x, test block the BASE kernel K**; Q = K.z Kzz^-1 Kz. computed with dense solves"""

        def __init__(s_, ipk, Xtrain, corr):
            super().__init__()
            s_.ipk = ipk
            s_.Xtrain = Xtrain
            s_.corr = corr

        def _train_index(s_, x):
            eq = (x.unsqueeze(-2) == s_.Xtrain.unsqueeze(-3)).all(-1)        # rows of x that ARE training points
            return eq.any(-1), eq.double().argmax(-1)

        def forward(s_, x1, x2, diag=False, **params):
            base, Z = s_.ipk.base_kernel, s_.ipk.inducing_points
            Kzz = base(Z, Z).to_dense()
            K1z, K2z = base(x1, Z).to_dense(), base(x2, Z).to_dense()
            Q = K1z @ torch.linalg.solve(Kzz, K2z.transpose(-1, -2))
            K12 = base(x1, x2).to_dense()
            t1, i1 = s_._train_index(x1)
            t2, i2 = s_._train_index(x2)
            both_test = (~t1).unsqueeze(-1) & (~t2).unsqueeze(-2)
            same_train = t1.unsqueeze(-1) & t2.unsqueeze(-2) & (i1.unsqueeze(-1) == i2.unsqueeze(-2))
            res = torch.where(both_test, K12, Q)
            if s_.corr:
                res = torch.where(same_train, Q + (K12 - Q).clamp_min(0), res)
            return res.diagonal(dim1=-1, dim2=-2) if diag else res
    return SGPRDense


def res_cell(key, sig, case, nontrivial=True):
    return dict(key=key, ok=True, nontrivial=nontrivial, sig=sig, detail="", case=case)


def fail(r, sig, detail):
    if r["ok"]:
        r.update(ok=False, sig=sig, detail=detail)
    return r


# ------------------------------------------------------------------------------------------------
# (2) dense meaning of every structured kernel
def dense_worker(item):
    torch, gpytorch = _imports()
    out = []
    for c in item["cases"]:
        out.append(_dense_case(torch, gpytorch, c))
    return out


def _task_matrix(torch, ik):
    return (ik.covar_factor @ ik.covar_factor.transpose(-1, -2) + torch.diag_embed(ik.var)).detach()


def _seed_index_kernel(torch, ik, g):
    with torch.no_grad():
        ik.covar_factor.copy_(torch.randn(ik.covar_factor.shape, generator=g, dtype=torch.float64))
        ik.var = 0.2 + torch.rand(ik.raw_var.shape, generator=g, dtype=torch.float64)


def _dense_case(torch, gpytorch, c):
    D = torch.float64
    K = gpytorch.kernels
    settings = gpytorch.settings
    kind = c["kind"]
    g = gen(torch, c["seed"])
    desc = " ".join("%s=%s" % (k, v) for k, v in sorted(c.items()) if k not in ("section",))
    r = res_cell(["dense", {k: v for k, v in c.items() if k != "seed"}], "C09/dense/%s" % kind, dict(c, section="dense"))
    rt, at = 1e-9, 1e-11

    def cmp(got, want, sig, what, rtol=rt, atol=at):
        ok, why = core.close(got, want, rtol, atol)
        if not ok:
            fail(r, sig, "%s: %s: %s" % (desc, what, why))

    def rand_x(n, d):
        return torch.rand(n, d, generator=g, dtype=D) * 2 - 1

    with torch.no_grad():
        if kind in ("mtask", "lcm"):
            n, m, t, d, rank = c["n"], c["m"], c["t"], c["d"], c["rank"]
            x1 = rand_x(n, d)
            x2 = x1 if c["same"] else rand_x(m, d)
            names = ["rbf"] if kind == "mtask" else ["rbf", "matern15", "matern25"][:c["q"]]
            bases = [base_kernel(torch, gpytorch, nm, d, g, ard=(d > 1)) for nm in names]
            if kind == "mtask":
                ok, kern = core.guarded(lambda: K.MultitaskKernel(bases[0], num_tasks=t, rank=rank).to(D))
                mts = [kern] if ok else []
            else:
                ok, kern = core.guarded(lambda: K.LCMKernel(bases, num_tasks=t, rank=rank).to(D))
                mts = list(kern.covar_module_list) if ok else []
            sig = "C09/dense/%s/rank%s" % (kind, "0" if rank == 0 else ("full" if rank == t else "low"))
            if not ok:
                return fail(r, sig + "/raises", "%s: constructor: %s" % (desc, kern))
            for mt in mts:
                _seed_index_kernel(torch, mt.task_covar_module, g)
            want = sum(torch.einsum("ij,ab->iajb", b(x1, x2).to_dense(), _task_matrix(torch, mt.task_covar_module)).reshape(x1.shape[0] * t, x2.shape[0] * t)
                       for b, mt in zip(bases, mts))
            ok, got = core.guarded(lambda: kern(x1, x2).to_dense())
            if not ok:
                return fail(r, sig + "/raises", "%s: %s" % (desc, got))
            cmp(got, want, sig, "to_dense() differs from sum_q K_q[i,j] B_q[a,b] at row i*t+a, column j*t+b")
            ok, dg = core.guarded(lambda: kern(x1, x2, diag=True)) if c["same"] else (True, None)
            if c["same"]:
                if not ok:
                    return fail(r, sig + "/diag-raises", "%s: %s" % (desc, dg))
                cmp(dg, want.diagonal(), sig + "/diag", "diag=True differs from the diagonal of the dense matrix")
        elif kind == "index":
            n, m, t, d, rank = c["n"], c["m"], c["t"], c["d"], c["rank"]
            ik = K.IndexKernel(num_tasks=t, rank=rank).to(D)
            _seed_index_kernel(torch, ik, g)
            B = _task_matrix(torch, ik)
            i1 = torch.randint(0, t, (n, 1), generator=g)
            i2 = i1 if c["same"] else torch.randint(0, t, (m, 1), generator=g)
            sig = "C09/dense/index/%s" % c["use"]
            if c["use"] == "alone":
                ok, got = core.guarded(lambda: ik(i1, i2).to_dense())
                want = B[i1.squeeze(-1)][:, i2.squeeze(-1)]
            else:
                x1 = rand_x(n, d)
                x2 = x1 if c["same"] else rand_x(m, d)
                b = base_kernel(torch, gpytorch, "rbf", d, g, active_dims=tuple(range(d)))
                want = b(x1, x2).to_dense() * B[i1.squeeze(-1)][:, i2.squeeze(-1)]
                if c["use"] == "hadamard-mul":
                    ok, got = core.guarded(lambda: b(x1, x2).mul(ik(i1, i2)).to_dense())
                else:       # ProductKernel over active dimensions: the task index is the last input column
                    ik2 = K.IndexKernel(num_tasks=t, rank=rank, active_dims=(d,)).to(D)
                    ik2.load_state_dict(ik.state_dict(), strict=False)
                    pk = b * ik2
                    z1 = torch.cat([x1, i1.to(D)], -1)
                    z2 = z1 if c["same"] else torch.cat([x2, i2.to(D)], -1)
                    ok, got = core.guarded(lambda: pk(z1, z2).to_dense())
            if not ok:
                return fail(r, sig + "/raises", "%s: %s" % (desc, got))
            cmp(got, want, sig, "entry (r, c) is not K[r,c] * (B B^T + diag v)[task_r, task_c]")
        elif kind == "grid":
            sizes, d = c["sizes"], len(c["sizes"])
            grid = []
            for gs in sizes:
                lo = float(torch.rand(1, generator=g, dtype=D)) - 0.5
                grid.append(torch.linspace(lo, lo + 0.25 * (gs - 1) * (1 + float(torch.rand(1, generator=g, dtype=D))), gs, dtype=D))
            b = base_kernel(torch, gpytorch, c["base"], d, g, ard=c["ard"])
            kern = K.GridKernel(b, grid=grid).to(D)
            sig = "C09/dense/grid/%dd-%s-%s" % (d, "ragged" if len(set(sizes)) > 1 else "square", "toeplitz" if c["toeplitz"] else "dense")
            if c["mode"] == "eval":
                kern.eval()
            pts = kern.full_grid
            # the points of full_grid are the grid points (every combination exactly once)
            want_pts = set(tuple(float(grid[i][j]) for i, j in enumerate(idx)) for idx in __import__("itertools").product(*[range(s) for s in sizes]))
            if set(tuple(float(v) for v in p) for p in pts) != want_pts or pts.shape[0] != len(want_pts):
                fail(r, sig + "/full_grid", "%s: full_grid is not the set of all grid points" % desc)
            want = product_of_1d(torch, b, pts, pts)
            with settings.use_toeplitz(bool(c["toeplitz"])):
                ok, got = core.guarded(lambda: kern(pts, pts).to_dense())
                if ok and c["mode"] == "eval":      # second call answers from the cache
                    ok, got2 = core.guarded(lambda: kern(pts, pts).to_dense())
                    if ok:
                        cmp(got2, got, sig + "/cached", "second evaluation in eval mode differs from the first", 0, 0)
            if not ok:
                return fail(r, sig + "/raises", "%s: %s" % (desc, got))
            cmp(got, want, sig, "to_dense() on full_grid differs from prod_c k_c(x[c], x'[c]) on the points of full_grid")
            if c["base"] == "rbf":
                cmp(got, b(pts, pts).to_dense(), sig + "/base", "to_dense() on full_grid differs from base_kernel(full_grid, full_grid)")
            x1, x2 = rand_x(3, d), rand_x(2, d)
            ok, got = core.guarded(lambda: kern(x1, x2).to_dense())
            if not ok:
                return fail(r, sig + "/off-grid-raises", "%s: %s" % (desc, got))
            cmp(got, b(x1, x2).to_dense(), sig + "/off-grid", "off the grid the kernel must be the base kernel")
        elif kind == "ski":
            sizes, d = c["sizes"], len(c["sizes"])
            dynamic = c["bounds"] is None          # no grid_bounds: the kernel lays its grid over the data it sees
            bounds = [tuple(bd) for bd in c["bounds"]] if not dynamic else [(-1.0, 1.0)] * d
            b = base_kernel(torch, gpytorch, c["base"], d, g, ard=c["ard"])
            if dynamic:
                kern = K.GridInterpolationKernel(b, grid_size=list(sizes), num_dims=d).to(D)
            else:
                kern = precise_grid(torch, gpytorch, K.GridInterpolationKernel(b, grid_size=list(sizes), grid_bounds=bounds).to(D))
            sym = len(set(sizes)) == 1 and len(set(bounds)) == 1 and not c["ard"]
            sig = "C09/dense/ski/%dd-%s-%s" % (d, "symmetric" if sym or d == 1 else "asymmetric", "toeplitz" if c["toeplitz"] else "dense")
            top = kern
            osc = None
            if c["scale"]:
                top = K.ScaleKernel(kern).to(D)
                top.outputscale = torch.tensor(1.7, dtype=D)
                osc = float(top.outputscale)          # (a Python float is stored through float32)
            if c["mode"] == "eval":
                top.eval()

            def rx(n):
                cols = [bd[0] + (bd[1] - bd[0]) * (0.03 + 0.94 * torch.rand(n, generator=g, dtype=D)) for bd in bounds]
                return torch.stack(cols, -1)
            x1 = rx(c["n"])
            x2 = x1 if c["same"] else rx(c["m"])
            with settings.use_toeplitz(bool(c["toeplitz"])):
                ok, got = core.guarded(lambda: top(x1, x2).to_dense())
            if not ok:
                return fail(r, sig + "/raises", "%s: %s" % (desc, got))
            want = ski_dense(torch, b, kern.grid, x1, x2, osc)          # (after the call: a dynamic grid is laid out by it)
            cmp(got, want, sig, "to_dense() differs from W1 K_grid W2^T (cubic weights per dimension, K_grid the base kernel on the grid points)", 1e-8, 1e-10)
            if d == 1:      # W exactly as interpolate() returns it for the whole input
                from gpytorch.utils.interpolation import Interpolation
                def Wof(x):
                    idx, val = Interpolation().interpolate(kern.grid, x)
                    W = torch.zeros(x.shape[0], sizes[0], dtype=D)
                    return W.scatter_add_(1, idx, val)
                Kuu = b(kern.grid[0].unsqueeze(-1), kern.grid[0].unsqueeze(-1)).to_dense()
                cmp(got, (osc or 1.0) * Wof(x1) @ Kuu @ Wof(x2).T, sig + "/W", "to_dense() differs from W K_grid W^T with W from interpolate()", 1e-8, 1e-10)
            r["sample"] = dict(case=desc, err_vs_base=float((got - (osc or 1.0) * b(x1, x2).to_dense()).abs().max()))
        elif kind == "nystrom":
            n, m, d, nz = c["n"], c["m"], c["d"], c["nz"]
            b = K.ScaleKernel(base_kernel(torch, gpytorch, c["base"], d, g, ard=(d > 1))).to(D)
            b.outputscale = torch.tensor(1.3, dtype=D)
            Z = rand_x(nz, d)
            lik = gpytorch.likelihoods.GaussianLikelihood().to(D)
            kern = K.InducingPointKernel(b, inducing_points=Z.clone(), likelihood=lik).to(D)
            x1 = rand_x(n, d)
            x2 = x1 if c["same"] else rand_x(m, d)
            Kzz = b(Z, Z).to_dense()
            if float(torch.linalg.cond(Kzz)) > 1e6:
                r.update(nontrivial=False, n=0)
                return r
            Q = b(x1, Z).to_dense() @ torch.linalg.solve(Kzz, b(Z, x2).to_dense())
            sig = "C09/dense/nystrom/%s%s" % (c["mode"], "" if c["mode"] == "train" else ("-corr" if c["corr"] else "-nocorr"))
            if c["mode"] == "eval":
                kern.eval()
            want = Q
            if c["mode"] == "eval" and c["corr"] and c["same"]:
                want = Q + torch.diag_embed((b(x1, x1).to_dense().diagonal() - Q.diagonal()).clamp_min(0))
            with settings.sgpr_diagonal_correction(bool(c["corr"])):
                ok, got = core.guarded(lambda: kern(x1, x2).to_dense())
            if not ok:
                if c["mode"] == "train" and not c["same"]:
                    r.update(nontrivial=False)        # documented: training mode wants x1 == x2
                    return r
                return fail(r, sig + "/raises", "%s: %s" % (desc, got))
            cmp(got, want, sig, "to_dense() differs from Kxz Kzz^-1 Kzx%s" % (" + diag(Kxx - Qxx)" if want is not Q else ""), 1e-7, 1e-9)
        elif kind == "rff":
            n, m, d, ns = c["n"], c["m"], c["d"], c["num_samples"]
            kern = K.RFFKernel(num_samples=ns, num_dims=d, ard_num_dims=d if c["ard"] else None).to(D)
            kern.randn_weights = torch.randn(d, ns, generator=g, dtype=D)
            kern.lengthscale = (0.5 + torch.rand(1, d, generator=g, dtype=D)) if c["ard"] else 0.8
            top, osc = kern, 1.0
            if c["scale"]:
                top = K.ScaleKernel(kern).to(D)
                top.outputscale = torch.tensor(0.6, dtype=D)
                osc = float(top.outputscale)
            x1 = rand_x(n, d)
            x2 = x1 if c["same"] else rand_x(m, d)

            def phi(x):
                a = x @ (kern.randn_weights / kern.lengthscale.transpose(-1, -2))
                return torch.cat([a.cos(), a.sin()], -1)
            want = osc * phi(x1) @ phi(x2).T / ns
            sig = "C09/dense/rff/%s" % ("lowrank" if 2 * ns < n else "fullrank")
            ok, got = core.guarded(lambda: top(x1, x2).to_dense())
            if not ok:
                return fail(r, sig + "/raises", "%s: %s" % (desc, got))
            cmp(got, want, sig, "to_dense() differs from Phi(x1) Phi(x2)^T / D with Phi = [cos(x W / l), sin(x W / l)]")
            # and it is the Monte-Carlo form of the documented sum (1/D) sum_i cos(w_i^T (x - x'))
            a = (x1.unsqueeze(1) - x2.unsqueeze(0)) @ (kern.randn_weights / kern.lengthscale.transpose(-1, -2))
            cmp(got, osc * a.cos().mean(-1), sig + "/cos-sum", "to_dense() differs from (1/D) sum_i cos(w_i^T (x - x'))")
        else:
            raise core.Machinery("unknown dense kind %r" % kind)
    return r


# ------------------------------------------------------------------------------------------------
# (3) kernel-specific prediction strategies vs the default strategy on the same approximate matrix
def strategy_worker(item):
    torch, gpytorch = _imports()
    return [_strategy_case(torch, gpytorch, c) for c in item["cases"]]


def _conditional(torch, Kxx, Ksx, Kss, noise, y, mx, ms):
    A = Kxx + noise * torch.eye(Kxx.shape[-1], dtype=torch.float64)
    L = torch.linalg.cholesky(A)
    mean = ms + (Ksx @ torch.cholesky_solve((y - mx).unsqueeze(-1), L)).squeeze(-1)
    cov = Kss - Ksx @ torch.cholesky_solve(Ksx.transpose(-1, -2), L)
    return mean, cov, float(torch.linalg.cond(A))


def build_structured(torch, gpytorch, c, g):
    """-> (kernel for the structured model, factory of the dense twin kernel, X, y, Xs, Xf, yf, expected strategy class name)"""
    D = torch.float64
    K = gpytorch.kernels
    fam, d, n, ns = c["fam"], c["d"], c["n"], c["ns"]

    def rx(k, lo=-1.0, hi=1.0):
        return lo + (hi - lo) * torch.rand(k, d, generator=g, dtype=D)
    if fam == "kiss":
        b = base_kernel(torch, gpytorch, "rbf", d, g, ard=c["ard"])
        if c["bounds"] is None:          # dynamic grid: laid over the training inputs; test / fantasy inputs strictly inside their range
            bounds = [(-1.0, 1.0)] * d
            inner = K.GridInterpolationKernel(b, grid_size=list(c["sizes"]), num_dims=d).to(D)
        else:
            bounds = [tuple(bd) for bd in c["bounds"]]
            inner = precise_grid(torch, gpytorch, K.GridInterpolationKernel(b, grid_size=list(c["sizes"]), grid_bounds=bounds).to(D))

        def rk(k, lo=0.03, hi=0.97):
            return torch.stack([bd[0] + (bd[1] - bd[0]) * (lo + (hi - lo) * torch.rand(k, generator=g, dtype=D)) for bd in bounds], -1)
        X = rk(n)
        if c["bounds"] is None:
            X[0], X[1] = torch.tensor([bd[0] for bd in bounds], dtype=D), torch.tensor([bd[1] for bd in bounds], dtype=D)
            Xs, Xf = rk(ns, 0.1, 0.9), rk(c.get("nf", 2), 0.1, 0.9)
        else:
            Xs, Xf = rk(ns), rk(c.get("nf", 2))
        cls = "InterpolatedPredictionStrategy"
    elif fam == "sgpr":
        b = base_kernel(torch, gpytorch, "rbf", d, g, ard=(d > 1))
        X, Xs, Xf = rx(n), rx(ns), rx(2)
        Z = rx(c["nz"])
        inner = None
        cls = "SGPRPredictionStrategy"
    elif fam == "rff":
        inner = K.RFFKernel(num_samples=c["num_samples"], num_dims=d).to(D)
        inner.randn_weights = torch.randn(d, c["num_samples"], generator=g, dtype=D)
        with torch.no_grad():
            inner.lengthscale = 0.7
        X, Xs, Xf = rx(n), rx(ns), rx(2)
        cls = "RFFPredictionStrategy"
    else:
        raise core.Machinery("unknown family %r" % fam)
    y = torch.sin(3 * X.sum(-1)) + 0.1 * torch.randn(n, generator=g, dtype=D)
    yf = torch.sin(3 * Xf.sum(-1)) + 0.1 * torch.randn(Xf.shape[0], generator=g, dtype=D)
    lik = gpytorch.likelihoods.GaussianLikelihood().to(D)
    if fam == "sgpr":
        bb = K.ScaleKernel(b).to(D) if c["scale"] else b
        if c["scale"]:
            with torch.no_grad():
                bb.outputscale = torch.tensor(1.4, dtype=D)
        inner = K.InducingPointKernel(bb, inducing_points=Z, likelihood=lik).to(D)
        top = inner
    else:
        top = inner
        if c["scale"]:
            top = K.ScaleKernel(inner).to(D)
            with torch.no_grad():
                top.outputscale = torch.tensor(1.4, dtype=D)
    return top, inner, lik, X, y, Xs, Xf, yf, cls


def _strategy_case(torch, gpytorch, c):
    D = torch.float64
    settings = gpytorch.settings
    g = gen(torch, c["seed"])
    fam = c["fam"]
    famname = "kiss-dynamic-grid" if (fam == "kiss" and c.get("bounds") is None) else fam
    cellname = "%s/%s/fpv%d/corr%d/toep%d%s" % (famname, c["solve"], c["fpv"], c.get("corr", 1), c.get("toeplitz", 1), "/fantasy" if c.get("fantasy") else "")
    desc = " ".join("%s=%s" % (k, v) for k, v in sorted(c.items()) if k != "section")
    r = res_cell(["strategy", {k: v for k, v in c.items() if k != "seed"}], "C09/strategy/" + cellname, dict(c, section="strategy"))
    noise, mc = c["noise"], c["mean"]
    top, inner, lik, X, y, Xs, Xf, yf, cls = build_structured(torch, gpytorch, c, g)
    model, lik = make_gp(torch, gpytorch, X, y, top, noise, mc, lik)
    for p in model.parameters():
        p.requires_grad_(False)
    model.eval()
    lik.eval()
    n = X.shape[0]
    noise, mc = float(lik.noise), float(model.mean_module.constant)      # as stored (a Python float goes through float32)
    # the twin: same approximate matrix, default strategy
    if fam == "sgpr":
        twin_kernel = sgpr_wrapper_class(torch, gpytorch)(inner, X, bool(c["corr"]))
    else:
        twin_kernel = dense_wrapper_class(gpytorch)(top)
    twin, tlik = make_gp(torch, gpytorch, X, y, twin_kernel, noise, mc)
    if abs(float(tlik.noise) - noise) > 1e-12 or abs(float(twin.mean_module.constant) - mc) > 1e-12:
        raise core.Machinery("twin hyperparameters differ from the structured model's")
    twin.eval()
    tlik.eval()

    cms = [settings.fast_pred_var(bool(c["fpv"])), settings.sgpr_diagonal_correction(bool(c.get("corr", 1))), settings.use_toeplitz(bool(c.get("toeplitz", 1)))]
    rtol = 1e-7
    if c["solve"] == "cg":
        cms += cg_contexts(settings, n + 8)
        rtol = CG_RTOL
    elif c["fpv"] and fam == "kiss":
        rtol = 1e-6                  # root-inverse caches
    errs = {}

    def near(a, b, scale, what, rt=None):
        """|a - b| <= rtol * scale, scale = the magnitude of the PRIOR quantities the result is a difference of"""
        if a.shape != b.shape:
            return False, "shape %s vs %s" % (tuple(a.shape), tuple(b.shape))
        if not (torch.isfinite(a).all() and torch.isfinite(b).all()):
            return False, "non-finite values"
        e = float((a - b).abs().max()) / scale
        errs[what] = max(errs.get(what, 0.0), e)
        ok = e <= (rt or rtol)
        return ok, "" if ok else "max|diff|=%.3e, scale of the prior %.3e (tol %.1e relative to it)" % (e * scale, scale, rt or rtol)

    def predict(m, l, xs):
        post = m(xs)
        return post.mean.detach().clone(), post.covariance_matrix.detach().clone(), post.variance.detach().clone(), type(m.prediction_strategy).__name__

    with torch.no_grad():
        # oracle first, under the default settings (Cholesky), only the settings that change the MATRIX are applied
        with settings.sgpr_diagonal_correction(bool(c.get("corr", 1))), settings.use_toeplitz(bool(c.get("toeplitz", 1))):
            wm, wc, wv, tcls = predict(twin, tlik, Xs)
            if tcls != "DefaultPredictionStrategy":
                raise core.Machinery("the dense twin uses %s" % tcls)
            # cross-check of the oracle against the Gaussian conditional computed here from the twin's own matrix
            Z = torch.cat([X, Xs], 0)
            J = twin_kernel(Z, Z).to_dense()
            fm, fc, cond = _conditional(torch, J[:n, :n], J[n:, :n], J[n:, n:], noise, y, torch.full((n,), float(mc), dtype=D), torch.full((Xs.shape[0],), float(mc), dtype=D))
        if cond > 1e4:
            r.update(nontrivial=False, n=0)
            return r
        cs = float(J.abs().max())                                    # covariance scale: the prior's
        ms = max(1.0, float(y.abs().max()), float(fm.abs().max()))  # mean scale
        for a, b_, what in ((wm, fm, "mean"), (wc, fc, "covariance")):
            ok, why = core.close(a, b_, 1e-7, 1e-9 * cs)
            if not ok:
                raise core.Machinery("oracle disagreement (default strategy on the dense twin vs Gaussian conditional), %s: %s: %s" % (what, desc, why))
        with ExitStack() as st:
            for cm in cms:
                st.enter_context(cm)
            ok, got = core.guarded(lambda: predict(model, lik, Xs))
            if not ok:
                return fail(r, r["sig"] + "/raises", "%s: %s" % (desc, got))
            gm, gc, gv, scls = got
            if scls != cls:
                r["drift"] = "%s: prediction strategy is %s, expected %s" % (fam, scls, cls)
            ok, why = near(gm, wm, ms, "mean")
            if not ok:
                fail(r, r["sig"] + "/mean", "%s: %s mean differs from the default strategy on the same approximate matrix: %s" % (desc, scls, why))
            ok, why = near(gc, wc, cs, "covariance")
            if not ok:
                fail(r, r["sig"] + "/covariance", "%s: %s covariance differs from the default strategy on the same approximate matrix: %s" % (desc, scls, why))
            ok, why = near(gv, wc.diagonal().clamp_min(0), cs, "variance")
            if not ok:
                fail(r, r["sig"] + "/variance", "%s: %s variance differs from the diagonal of the dense conditional covariance: %s" % (desc, scls, why))
            # a second call answers from the caches
            ok, got2 = core.guarded(lambda: predict(model, lik, Xs))
            if not ok:
                fail(r, r["sig"] + "/second-call-raises", "%s: %s" % (desc, got2))
            else:
                ok, why = near(got2[1], wc, cs, "covariance")
                ok2, why2 = near(got2[0], wm, ms, "mean")
                if not (ok and ok2):
                    fail(r, r["sig"] + "/second-call", "%s: second call (caches) differs from the dense conditional: %s %s" % (desc, why, why2))
            if c.get("fps"):
                with settings.fast_pred_samples(True):
                    ok, smp = core.guarded(lambda: model(Xs).rsample(torch.Size([3])))
                if not ok:
                    fail(r, r["sig"] + "/fast_pred_samples-raises", "%s: %s" % (desc, smp))
                elif list(smp.shape) != [3, Xs.shape[0]]:
                    fail(r, r["sig"] + "/fast_pred_samples-shape", "%s: samples have shape %s" % (desc, list(smp.shape)))
            if c.get("fantasy"):
                # fantasy update of the structured model vs the default strategy on the same approximate matrix with the fantasy
                # observations appended to the training data
                ok, fmod = core.guarded(lambda: model.get_fantasy_model(Xf, yf))
                if not ok:
                    return fail(r, r["sig"] + "/get_fantasy_model-raises", "%s: %s" % (desc, fmod))
                ok, got = core.guarded(lambda: predict(fmod, fmod.likelihood, Xs))
                if not ok:
                    return fail(r, r["sig"] + "/fantasy-predict-raises", "%s: %s" % (desc, got))
                twin2, tlik2 = make_gp(torch, gpytorch, torch.cat([X, Xf], 0), torch.cat([y, yf], 0), dense_wrapper_class(gpytorch)(top), noise, mc)
                twin2.eval()
                tlik2.eval()
                with settings.fast_pred_var(False), settings.max_cholesky_size(800), settings.fast_computations(False, False, False):
                    wm2, wc2, wv2, _ = predict(twin2, tlik2, Xs)
                frt = CG_FANTASY_RTOL if c["solve"] == "cg" else 1e-5          # (Cholesky of the rank-deficient W' D^-1 W cache takes jitter)
                ok, why = near(got[0], wm2, ms, "fantasy-mean", frt)
                if not ok:
                    fail(r, r["sig"] + "/mean", "%s: fantasy model mean differs from conditioning the same approximate matrix on train + fantasy data: %s" % (desc, why))
                ok, why = near(got[1], wc2, cs, "fantasy-covariance", frt)
                if not ok:
                    fail(r, r["sig"] + "/covariance", "%s: fantasy model covariance differs from conditioning the same approximate matrix on train + fantasy data: %s" % (desc, why))
    if c["seed"] % 7 == 0:
        r["sample"] = dict(case=desc, strategy=cls)
    r["errs"] = errs
    r["scls"] = scls
    return r


# ------------------------------------------------------------------------------------------------
# (4) SGPR objective = Titsias collapsed bound
def titsias_bound(torch, Kxx_diag, Kxz, Kzz, y, mx, s2):
    n = y.shape[0]
    Q = Kxz @ torch.linalg.solve(Kzz, Kxz.transpose(-1, -2))
    A = Q + s2 * torch.eye(n, dtype=torch.float64)
    L = torch.linalg.cholesky(A)
    z = torch.linalg.solve_triangular(L, (y - mx).unsqueeze(-1), upper=False).squeeze(-1)
    logn = -0.5 * (z * z).sum() - L.diagonal().log().sum() - 0.5 * n * math.log(2 * math.pi)
    return float(logn - (Kxx_diag - Q.diagonal()).sum() / (2 * s2)), float(torch.linalg.cond(A)), float(torch.linalg.cond(Kzz))


def sgpr_objective(torch, gpytorch, model, lik, X, y):
    model.train()
    lik.train()
    mll = gpytorch.mlls.ExactMarginalLogLikelihood(lik, model)
    out = model(X)
    return float(mll(out, y)) * y.shape[0]


def objective_worker(item):
    torch, gpytorch = _imports()
    D = torch.float64
    K = gpytorch.kernels
    settings = gpytorch.settings
    out = []
    for c in item["cases"]:
        g = gen(torch, c["seed"])
        n, d, nz = c["n"], c["d"], c["nz"]
        desc = " ".join("%s=%s" % (k, v) for k, v in sorted(c.items()) if k != "section")
        r = res_cell(["objective", {k: v for k, v in c.items() if k != "seed"}], "C09/objective/sgpr/%s" % c["solve"], dict(c, section="objective"))
        X = torch.rand(n, d, generator=g, dtype=D) * 2 - 1
        Z = torch.rand(nz, d, generator=g, dtype=D) * 2 - 1
        y = torch.sin(3 * X.sum(-1)) + 0.1 * torch.randn(n, generator=g, dtype=D)
        b = K.ScaleKernel(base_kernel(torch, gpytorch, c["base"], d, g, ard=(d > 1))).to(D)
        with torch.no_grad():
            b.outputscale = 0.8 + float(torch.rand(1, generator=g, dtype=D))
        lik = gpytorch.likelihoods.GaussianLikelihood().to(D)
        kern = K.InducingPointKernel(b, inducing_points=Z, likelihood=lik).to(D)
        model, lik = make_gp(torch, gpytorch, X, y, kern, c["noise"], c["mean"], lik)
        with torch.no_grad():
            want, condA, condZ = titsias_bound(torch, b(X, X).to_dense().diagonal(), b(X, Z).to_dense(), b(Z, Z).to_dense(), y,
                                               float(model.mean_module.constant), float(lik.noise))
        if condA > 1e4 or condZ > 1e6:
            r.update(nontrivial=False, n=0)
            out.append(r)
            continue
        cms, tol = [], (1e-7, 1e-8)
        if c["solve"] == "cg":
            cms, tol = cg_contexts(settings, n), (2e-5, 2e-5)
        with ExitStack() as st:
            for cm in cms:
                st.enter_context(cm)
            ok, got = core.guarded(lambda: sgpr_objective(torch, gpytorch, model, lik, X, y))
        if not ok:
            fail(r, r["sig"] + "/raises", "%s: %s" % (desc, got))
        else:
            ok, why = core.close(torch.tensor(got), torch.tensor(want), *tol)
            if not ok:
                fail(r, r["sig"], "%s: N * mll = %.10g but the collapsed bound log N(y; m, Qxx + s2 I) - tr(Kxx - Qxx)/(2 s2) = %.10g (%s)" % (desc, got, want, why))
        if c["seed"] % 5 == 0:
            r["sample"] = dict(case=desc, bound=want)
        out.append(r)
    return out


# ------------------------------------------------------------------------------------------------
# (5) refinement table
def refine_worker(item):
    torch, gpytorch = _imports()
    D = torch.float64
    K = gpytorch.kernels
    out = []
    for c in item["cases"]:
        g = gen(torch, c["seed"])
        d = c["d"]
        b = base_kernel(torch, gpytorch, c["base"], d, g)
        x = 0.1 + 0.8 * torch.rand(c["n"], d, generator=g, dtype=D)
        errs = []
        with torch.no_grad():
            # in more than one dimension the grid kernels represent the product over dimensions of the 1-D base kernel (Kronecker structure);
            # that IS the base kernel for RBF, for other stationary kernels the table is taken against the product form
            Kb = b(x, x).to_dense() if (d == 1 or c["base"] == "rbf") else product_of_1d(torch, b, x, x)
            for gs in c["sizes"]:
                kern = precise_grid(torch, gpytorch, K.GridInterpolationKernel(b, grid_size=gs, grid_bounds=[(0.0, 1.0)] * d).to(D))
                errs.append(float((kern(x, x).to_dense() - Kb).abs().max()))
        r = res_cell(["refine", {k: v for k, v in c.items() if k != "seed"}], "C09/refine/%s/%dd" % (c["base"], d), dict(c, section="refine"))
        r["table"] = dict(base=c["base"], d=d, sizes=c["sizes"], max_abs_error=errs)
        if not (errs[0] > errs[1] > errs[2]):
            fail(r, r["sig"], "errors of the interpolated kernel do not decrease with the grid size: sizes %s errors %s" % (c["sizes"], errs))
        out.append(r)
    return out
