"""C17, second half: the transform contract on the float range, prior densities against the documented formulas
(points from ConstraintPriors.tla, reference values by mpmath), priors registered on modules (closure = constrained
value, sample_from_prior stores the sample, the marginal log likelihood adds the documented log densities), and the HISTORY of a
prior object (HSpec of ConstraintPriors.tla: construct / assign attributes / load_state_dict directly or through the module it is
registered on / deepcopy, pickle / dtype conversion; after every step log_prob is the documented density at the hyper-parameters the
spec says the object has, and its attributes and state_dict report them)."""
import math
import os
import random

from harness import core, tlc

PID = "C17"


PRIOR_ALIAS_FIXED = True


def write_mc(workdir, thorough):
    """(module, cfg of the density lattice, cfg of the history machine as coded, cfg of the history machine with the alias kept)"""
    os.makedirs(workdir, exist_ok=True)
    mod = "MC_ConstraintPriors"
    with open(os.path.join(workdir, mod + ".tla"), "w") as f:
        f.write("---- MODULE %s ----\nEXTENDS ConstraintPriors\nPtsDef == %s\nHIdxDef == %s\n====\n" % (
            mod, "-8..12" if not thorough else "-12..20", "{1, 2, 3}" if thorough else "{1, 2}"))
    # AliasSurvivesConv: FALSE models the pinned code (Module._apply separated the _transformed_* buffers from base_dist); the /repo fix
    # "transformed priors kept reading their old hyper-parameters ..." re-points base_dist after _apply, which is the TRUE variant
    consts = {"Pts": "<- PtsDef", "Thorough": bool(thorough), "HIdx": "<- HIdxDef", "HMaxLen": 3, "AliasSurvivesConv": PRIOR_ALIAS_FIXED}
    cfg = os.path.join(workdir, mod + ".cfg")
    tlc.write_cfg(cfg, spec="Spec", constants=consts,
                  invariants=["BoxDistanceIsDistance", "BoxSupport", "UniformNormalised", "DetIsPivotProduct", "CorrIffMinors", "CovPositiveDefinite"])
    # the history machine: the code as it is (the property holds on every history without a buffer-replacing conversion; the rest is
    # predicted stale and the replay decides), and the repaired design (the property holds on every history)
    hcfg = os.path.join(workdir, mod + "_hist.cfg")
    tlc.write_cfg(hcfg, spec="HSpec", constants=consts, invariants=["HWellFormed", "HStaleOnlyByAlias", "HAgreeUnlessConverted"])
    rcfg = os.path.join(workdir, mod + "_hist_repaired.cfg")
    # the other variant: with the fix in the tree the as-coded model keeps the alias and HAgree holds on every history; the pinned design
    # (alias lost by a conversion) must then be REJECTED by HAgree (the invariant can fail).  Before the fix it is the other way round.
    tlc.write_cfg(rcfg, spec="HSpec", constants=dict(consts, AliasSurvivesConv=not PRIOR_ALIAS_FIXED), invariants=["HWellFormed", "HAgree"])
    return os.path.join(workdir, mod + ".tla"), cfg, hcfg, rcfg


def _env():
    from checks import c17
    return c17._env()


# ---------------------------------------------------------------------------------------------
# transform contract on the float range
# ---------------------------------------------------------------------------------------------
def transform_configs(thorough):
    inf = math.inf
    out = []
    iv = [(0.1, 0.9), (-1.0, 0.3), (1e-3, 1e3), (-5.0, 5.0), (1e-6, 1e-2), (0.0, 1e300), (-1e300, 1e300), (1.0 - 1e-12, 1.0 + 1e-12),
          (-504.4082462406216, 0.002578103183273795), ([0.1, -1.0, 1e-3], [0.9, 0.3, 1e3]), ([0.0, 0.0], [1.0, 1e10])]
    for lo, hi in iv:
        out.append(dict(cls="Interval", tf="sigmoid", lo=lo, hi=hi))
    for tf in ("softplus", "exp"):
        for lo in (1e-4, 2.0, -3.0, 1e6, -1e6, 1e-300, [0.0, 1e-4, 2.0]):
            out.append(dict(cls="GreaterThan", tf=tf, lo=lo, hi=inf))
        out.append(dict(cls="Positive", tf=tf, lo=0.0, hi=inf))
        for hi in (0.0, 2.0, -0.5, 1e6, [0.0, -0.5, 2.0]):
            out.append(dict(cls="LessThan", tf=tf, lo=-inf, hi=hi))
    # how the constraint object came to have these bounds (Constraint.tla: LoadState / AssignBound / Convert / Copy): the contract
    # is the same whatever the route; "wide" / "narrow" = the object was constructed with a wider / narrower interval, both bounds different
    routes = []
    for c in out:
        vias = ["double", "f32", "deepcopy"]
        if c["cls"] != "Positive":
            vias += ["%s_%s" % (r, w) for r in ("load", "modload", "assign", "inplace", "copyload") for w in ("wide", "narrow")]
        routes += [dict(c, via=v) for v in vias]
    return out + routes


def other_bounds(torch, cfg, which):
    """Bounds of another width (both finite bounds different) of the same class, or None when not representable."""
    t64 = dict(dtype=torch.float64)
    lo, hi = torch.as_tensor(cfg["lo"], **t64), torch.as_tensor(cfg["hi"], **t64)
    sgn = -1.0 if which == "wide" else 1.0
    if cfg["cls"] == "Interval":
        w = hi - lo
        lo2, hi2 = (lo - 0.3 * w, hi + 0.9 * w) if which == "wide" else (lo + 0.1 * w, hi - 0.4 * w)
    elif cfg["cls"] == "LessThan":
        lo2, hi2 = lo, hi - sgn * (1.5 + hi.abs() / 2)
    else:
        lo2, hi2 = lo + sgn * (1.5 + lo.abs() / 2), hi
    fin = lambda a, b: bool((torch.isfinite(a) == torch.isfinite(b)).all())
    if not (fin(lo, lo2) and fin(hi, hi2) and bool((lo2 < hi2).all())):
        return None
    if bool(((lo2 == lo) & torch.isfinite(lo)).any()) or bool(((hi2 == hi) & torch.isfinite(hi)).any()):
        return None
    return lo2, hi2


def _construct(torch, gp, cfg, lo, hi):
    C = gp.constraints
    kw = dict(transform=torch.exp, inv_transform=torch.log) if cfg["tf"] == "exp" else {}
    if cfg["cls"] == "Interval":
        return C.Interval(lo.clone(), hi.clone())
    if cfg["cls"] == "LessThan":
        return C.LessThan(hi.clone(), **kw)
    if cfg["cls"] == "Positive":
        return C.Positive(**kw)
    return C.GreaterThan(lo.clone(), **kw)


def build_via(torch, gp, cfg):
    """(constraint, lower, upper) with the bounds of cfg reached by the route cfg['via']; None when the route does not apply."""
    import copy
    t64 = dict(dtype=torch.float64)
    lo, hi = torch.as_tensor(cfg["lo"], **t64), torch.as_tensor(cfg["hi"], **t64)
    via = cfg["via"]
    if via == "double":
        return build_constraint(torch, gp, cfg).double(), lo, hi
    if via == "deepcopy":
        return copy.deepcopy(build_constraint(torch, gp, cfg)), lo, hi
    if via == "f32":
        lo2, hi2 = lo.float().double(), hi.float().double()
        if not (bool((torch.isfinite(lo2) == torch.isfinite(lo)).all()) and bool((torch.isfinite(hi2) == torch.isfinite(hi)).all())
                and bool((hi2 - lo2 > 1e-3 * torch.maximum(lo2.abs(), hi2.abs()).clamp(max=1e300)).all())):
            return None
        return build_constraint(torch, gp, cfg).float().double(), lo2, hi2
    route, which = via.split("_")
    ob = other_bounds(torch, cfg, which)
    if ob is None:
        return None
    con = _construct(torch, gp, cfg, *ob)
    if route == "assign":
        if torch.isfinite(lo).all():
            con.lower_bound = lo.clone()
        if torch.isfinite(hi).all():
            con.upper_bound = hi.clone()
    elif route == "inplace":
        con.lower_bound.copy_(lo)
        con.upper_bound.copy_(hi)
    elif route in ("load", "copyload"):
        if route == "copyload":
            con = copy.deepcopy(con).double()
        con.load_state_dict(_construct(torch, gp, cfg, lo, hi).state_dict())
    elif route == "modload":
        def holder(c):
            m = gp.Module()
            m.register_parameter("raw_p", torch.nn.Parameter(torch.zeros(lo.shape if lo.dim() else hi.shape, **t64)))
            m.register_constraint("raw_p", c)
            return m
        dst = holder(con)
        dst.load_state_dict(holder(_construct(torch, gp, cfg, lo, hi)).state_dict())
        con = dst.raw_p_constraint
    else:
        raise core.Machinery("unknown route %r" % via)
    return con, lo, hi


def build_constraint(torch, gp, cfg):
    C = gp.constraints
    kw = dict(transform=torch.exp, inv_transform=torch.log) if cfg["tf"] == "exp" else {}
    t = lambda x: torch.tensor(x, dtype=torch.float64) if isinstance(x, list) else x
    if cfg["cls"] == "Interval":
        return C.Interval(t(cfg["lo"]), t(cfg["hi"]))
    if cfg["cls"] == "GreaterThan":
        return C.GreaterThan(t(cfg["lo"]), **kw)
    if cfg["cls"] == "Positive":
        return C.Positive(**kw)
    return C.LessThan(t(cfg["hi"]), **kw)


def _transform_worker(cfg):
    torch, gp = _env()
    t64 = dict(dtype=torch.float64)
    via = cfg.get("via")
    if via:
        ok_, built = core.guarded(lambda: build_via(torch, gp, cfg))
        if ok_ and built is None:
            return []
        name = "%s-%s[%s,%s] via %s" % (cfg["cls"], cfg["tf"], cfg["lo"], cfg["hi"], via)
        if not ok_:
            return [dict(key=["transform", name, "Route"], ok=False, nontrivial=True, sig="C17/transform/%s-%s/%s/Route" % (cfg["cls"], cfg["tf"], via.split("_")[0]),
                         detail="%s: bringing the constraint to these bounds raised %s" % (name, built), case=dict(kind="transform", cfg=cfg), n=1)]
        con, lo, hi = built
        sigmid = "%s-%s/%s" % (cfg["cls"], cfg["tf"], via.split("_")[0])
    else:
        con = build_constraint(torch, gp, cfg)
        lo = torch.as_tensor(cfg["lo"], **t64)
        hi = torch.as_tensor(cfg["hi"], **t64)
        name = "%s-%s[%s,%s]" % (cfg["cls"], cfg["tf"], cfg["lo"], cfg["hi"])
        sigmid = "%s-%s" % (cfg["cls"], cfg["tf"])
    vec = lo.dim() > 0 or hi.dim() > 0
    out = []

    def res(clause, ok, detail="", nontrivial=True):
        out.append(dict(key=["transform", name, clause], ok=ok, nontrivial=nontrivial, sig="C17/transform/%s/%s" % (sigmid, clause),
                        detail="%s: %s" % (name, detail), case=dict(kind="transform", cfg=cfg), n=1,
                        sample=dict(constraint=name, clause=clause) if clause == "Monotone" and cfg["lo"] == 0.1 and cfg.get("via") in (None, "modload_wide") else None))

    if not (bool((con.lower_bound.to(**t64) == lo).all()) and bool((con.upper_bound.to(**t64) == hi).all())):
        res("Bounds", False, "constraint reports bounds [%s, %s]" % (con.lower_bound.tolist(), con.upper_bound.tolist()))
        return out
    mags = 10.0 ** torch.linspace(-300, 300, 4801 if cfg.get("dense") else 2401, **t64)
    raws = torch.cat([-mags, mags, torch.linspace(-60, 60, 24001, **t64), torch.tensor([0.0, 1.7e308, -1.7e308, 2.3e-308, -2.3e-308], **t64)])
    raws = torch.sort(raws).values
    R = raws.unsqueeze(-1) if vec else raws
    ok_, T = core.guarded(lambda: con.transform(R))
    if not ok_:
        res("RangeClosed", False, "transform raised %s" % T)
        return out
    T = T.detach().to(**t64)
    fin = lambda b: torch.where(torch.isfinite(b), b.abs(), torch.zeros_like(b))
    scale = torch.maximum(fin(lo), fin(hi))
    slack = 4e-15 * scale
    bad = torch.isnan(T) | (T < lo - slack) | (T > hi + slack)
    if bool(bad.any()):
        j = bad.nonzero()[0].tolist()
        res("RangeClosed", False, "transform(%r) = %r is outside the closed interval" % (float(raws[j[0]]), float(T[tuple(j)])))
    else:
        res("RangeClosed", True)
    d = T[1:] - T[:-1]
    tolm = 1e-9 * torch.maximum(torch.maximum(T[1:].abs(), T[:-1].abs()).clamp(max=1e300), scale)
    badm = (d < -tolm) & torch.isfinite(T[1:]) & torch.isfinite(T[:-1])
    infdrop = torch.isinf(T[:-1]) & (T[1:] < T[:-1])
    if bool((badm | infdrop).any()):
        j = (badm | infdrop).nonzero()[0].tolist()
        res("Monotone", False, "transform(%r) = %r > transform(%r) = %r" % (float(raws[j[0]]), float(T[tuple(j)]), float(raws[j[0] + 1]),
                                                                            float(T[tuple([j[0] + 1] + j[1:])])))
    else:
        res("Monotone", True)
    # inverse on the interior, value direction: transform(inverse_transform(v)) = v
    if cfg["cls"] == "Interval":
        u = torch.cat([10.0 ** torch.linspace(-15, math.log10(0.5), 400, **t64), 1 - 10.0 ** torch.linspace(-15, math.log10(0.5), 400, **t64)])
        U = u.unsqueeze(-1) if vec else u
        vals = lo + (hi - lo) * U
    elif cfg["cls"] == "LessThan":
        g = 10.0 ** torch.linspace(-300, 300, 1201, **t64)
        vals = hi - (g.unsqueeze(-1) if vec else g)
    else:
        g = 10.0 ** torch.linspace(-300, 300, 1201, **t64)
        vals = lo + (g.unsqueeze(-1) if vec else g)
    interior = (vals > lo) & (vals < hi) & torch.isfinite(vals)
    ok_, back = core.guarded(lambda: con.transform(con.inverse_transform(vals)))
    if not ok_:
        res("InverseOnInterior", False, "inverse_transform / transform raised %s" % back)
    else:
        back = back.detach().to(**t64)
        tol = 1e-10 * torch.maximum(vals.abs(), scale)
        badi = interior & ~((back - vals).abs() <= tol)
        if bool(badi.any()):
            j = badi.nonzero()[0].tolist()
            res("InverseOnInterior", False, "transform(inverse_transform(%r)) = %r" % (float(vals[tuple(j)]), float(back[tuple(j)])))
        else:
            res("InverseOnInterior", bool(interior.any()), "no interior value representable", nontrivial=True)
    # raw direction on a well conditioned window
    width = (hi - lo) if cfg["cls"] == "Interval" else torch.ones_like(scale)
    if bool((scale <= 10 * width).all()) and bool((scale <= 10).all() if cfg["cls"] != "Interval" else True):
        r = torch.linspace(-12, 12, 4801, **t64)
        Rr = r.unsqueeze(-1) if vec else r
        ok_, rb = core.guarded(lambda: con.inverse_transform(con.transform(Rr)))
        if not ok_:
            res("InverseOfTransform", False, "raised %s" % rb)
        else:
            rb = rb.detach().to(**t64)
            badr = ~((rb - Rr).abs() <= 1e-6)
            if bool(badr.any()):
                j = badr.nonzero()[0].tolist()
                res("InverseOfTransform", False, "inverse_transform(transform(%r)) = %r" % (float(r[j[0]]), float(rb[tuple(j)])))
            else:
                res("InverseOfTransform", True)
    # check / check_raw agree with the closed interval at clearly inside / outside values
    if bool(torch.isfinite(lo).all()):
        below = lo - 1 - lo.abs() / 2
        if con.check(below):
            res("Check", False, "check(%s) is True below the lower bound" % below.tolist())
    if bool(torch.isfinite(hi).all()):
        above = hi + 1 + hi.abs() / 2
        if con.check(above):
            res("Check", False, "check(%s) is True above the upper bound" % above.tolist())
    midv = vals[len(vals) // 2] if not vec else vals[len(vals) // 2]
    if bool(((midv > lo) & (midv < hi)).all()):
        if not con.check(midv):
            res("Check", False, "check(%s) is False inside" % midv.tolist())
        elif not con.check_raw(con.inverse_transform(midv)):
            res("Check", False, "check_raw(inverse_transform(%s)) is False" % midv.tolist())
        else:
            res("Check", True)
    if con.check_raw(torch.full_like(midv, math.nan)):
        res("Check", False, "check_raw(nan) is True")
    return out


def run_transforms(ck, thorough):
    cfgs = transform_configs(thorough)
    if thorough:
        cfgs = [dict(c, dense=True) for c in cfgs]
    results = core.pmap(_transform_worker, cfgs, chunksize=1)
    ck.absorb(results)
    ck.section("transform_contract", constraints=len(cfgs), fresh=len([c for c in cfgs if not c.get("via")]),
               reached_by_route=len([c for c in cfgs if c.get("via")]), cells=len(results), raw_points_per_constraint=28808 + (2400 * 2 if thorough else 0))


# ---------------------------------------------------------------------------------------------
# documented densities (mpmath)
# ---------------------------------------------------------------------------------------------
def _mp():
    import mpmath
    mpmath.mp.dps = 30
    return mpmath


def q2mp(mp, q):
    return mp.mpf(int(q[0])) / mp.mpf(int(q[1]))


def ref_logpdf(mp, fam, par, x):
    """Documented log density of a scalar family at x (mpf); None outside the support."""
    ln, pi = mp.log, mp.pi
    if fam == "Normal":
        m, s = par
        return -(x - m) ** 2 / (2 * s * s) - ln(s) - ln(2 * pi) / 2
    if fam == "LogNormal":
        m, s = par
        if x <= 0:
            return None
        return -(ln(x) - m) ** 2 / (2 * s * s) - ln(x * s) - ln(2 * pi) / 2
    if fam == "HalfNormal":
        (s,) = par
        if x < 0:
            return None
        return ln(2) - x * x / (2 * s * s) - ln(s) - ln(2 * pi) / 2
    if fam == "HalfCauchy":
        (s,) = par
        if x < 0:
            return None
        return ln(2) - ln(pi * s * (1 + (x / s) ** 2))
    if fam == "Gamma":
        a, b = par
        if x <= 0:
            return None
        return a * ln(b) - mp.loggamma(a) + (a - 1) * ln(x) - b * x
    if fam == "Uniform":
        a, b = par
        if not (a <= x < b):
            return None
        return -ln(b - a)
    if fam == "SmoothedBox":
        a, b, s = par
        d = a - x if x < a else (x - b if x > b else mp.mpf(0))
        return -d * d / (2 * s * s) - ln(s) - ln(2 * pi) / 2 - ln(1 + (b - a) / (mp.sqrt(2 * pi) * s))
    if fam == "Horseshoe":
        (s,) = par
        if x == 0:
            return None
        K = 1 / mp.sqrt(2 * pi ** 3)
        A = (s / x) ** 2
        return ln((K / 2 * ln(1 + 4 * A) + K * ln(1 + 2 * A)) / 2)
    raise core.Machinery("no reference density for %s" % fam)


def make_prior(torch, gp, fam, par, shape=None, **kw):
    """The prior class of a family; shape: parameters as tensors of that shape (a prior per element of a parameter)."""
    P = gp.priors
    f = [float(p) for p in par]
    if shape is not None:
        f = [torch.full(tuple(shape), v, dtype=torch.float64) for v in f]
        if fam == "SmoothedBox":
            f[2] = float(par[2])
    if fam == "Normal":
        return P.NormalPrior(f[0], f[1], **kw)
    if fam == "LogNormal":
        return P.LogNormalPrior(f[0], f[1], **kw)
    if fam == "HalfNormal":
        return P.HalfNormalPrior(f[0], **kw)
    if fam == "HalfCauchy":
        return P.HalfCauchyPrior(f[0], **kw)
    if fam == "Gamma":
        return P.GammaPrior(f[0], f[1], **kw)
    if fam == "Uniform":
        return P.UniformPrior(f[0], f[1], **kw)
    if fam == "SmoothedBox":
        return P.SmoothedBoxPrior(f[0], f[1], f[2], **kw)
    if fam == "Horseshoe":
        return P.HorseshoePrior(f[0], **kw)
    raise core.Machinery("no prior class for %s" % fam)


def _close(got, want, rtol=1e-9, atol=1e-10):
    return abs(got - want) <= atol + rtol * max(abs(got), abs(want))


def _density_worker(chunk):
    torch, gp = _env()
    mp = _mp()
    P = gp.priors
    out = []

    def res(fam, key, ok, detail, cell, sample=None, nontrivial=True):
        out.append(dict(key=["prior", fam] + key, ok=ok, nontrivial=nontrivial, sig="C17/prior/%s" % cell, detail=detail,
                        case=dict(kind="density", case=chunk_case), sample=sample, n=1))

    for c in chunk:
        chunk_case = c
        fam = c["fam"]
        if fam in ("LKJ2", "LKJ3"):
            _lkj(torch, gp, mp, c, res)
            continue
        if fam == "MVN2":
            m1, m2, S = c["par"]
            x, y = c["x"]
            det, qn = c["aux"]
            cov = torch.tensor([[S[0], S[1]], [S[1], S[2]]], dtype=torch.float64)
            prior = P.MultivariateNormalPrior(torch.tensor([float(q2mp(mp, m1)), float(q2mp(mp, m2))], dtype=torch.float64), covariance_matrix=cov)
            want = -q2mp(mp, qn) / det / 2 - mp.log(det) / 2 - mp.log(2 * mp.pi)
            ok_, got = core.guarded(lambda: float(prior.log_prob(torch.tensor([float(q2mp(mp, x)), float(q2mp(mp, y))], dtype=torch.float64))))
            good = ok_ and _close(got, float(want))
            res(fam, [c["par"], c["x"]], good, "MultivariateNormalPrior(loc=%s, cov=%s).log_prob(%s) = %s, documented density gives %s" % (
                [m1, m2], S, [x, y], got, float(want)), "MultivariateNormalPrior/density")
            continue
        par = [q2mp(mp, p) for p in c["par"]]
        x = q2mp(mp, c["x"])
        want = ref_logpdf(mp, fam, par, x)
        if fam == "SmoothedBox":
            dcode = q2mp(mp, c["aux"][0])
            dme = par[0] - x if x < par[0] else (x - par[1] if x > par[1] else mp.mpf(0))
            if dcode != dme:
                raise core.Machinery("box distance of ConstraintPriors.tla differs from the replay's")
        pname = fam + "Prior"
        prior = make_prior(torch, gp, fam, par, **({"validate_args": False} if fam in ("HalfNormal", "LogNormal", "HalfCauchy", "Uniform") else {}))
        xt = torch.tensor(float(x), dtype=torch.float64)
        if fam == "SmoothedBox":
            xt = xt.reshape(1)
        ok_, got = core.guarded(lambda: float(prior.log_prob(xt)))
        desc = "%s(%s).log_prob(%s)" % (pname, ", ".join(str(float(p)) for p in par), float(x))
        if want is None:
            # outside the support only HalfNormalPrior documents the density ("0 for x < 0"); an exception is accepted as well
            if fam == "HalfNormal":
                res(fam, [c["par"], c["x"], "outside"], (not ok_) or got == -math.inf, "%s = %s outside the support (documented density 0)" % (desc, got),
                    "%s/support" % pname, nontrivial=False)
            continue
        good = ok_ and _close(got, float(want))
        res(fam, [c["par"], c["x"]], good, "%s = %s, documented density gives %s" % (desc, got, float(want)), "%s/density" % pname,
            sample=dict(prior=desc, log_prob=got, reference=float(want)) if c.get("sample") else None)
        # the prior's own transform: log density of transform(x)
        if fam in ("Normal", "Gamma") and c.get("transform") and x > 0:
            if fam == "Normal":
                pt, wt = make_prior(torch, gp, fam, par, transform=torch.log), ref_logpdf(mp, fam, par, mp.log(x))
            else:
                pt, wt = make_prior(torch, gp, fam, par, transform=torch.sqrt), ref_logpdf(mp, fam, par, mp.sqrt(x))
            ok_, got = core.guarded(lambda: float(pt.log_prob(xt)))
            res(fam, [c["par"], c["x"], "transform"], ok_ and _close(got, float(wt)), "%s with transform = %s, density of the transformed value %s" % (desc, got, float(wt)),
                "%s/transform" % pname)
    return out


def _lkj(torch, gp, mp, c, res):
    P = gp.priors
    if not c["supp"]:
        return
    eta = q2mp(mp, c["par"][0])
    if c["fam"] == "LKJ2":
        n = 2
        a = c["x"][0] / 4.0
        S = torch.tensor([[1.0, a], [a, 1.0]], dtype=torch.float64)
        det = mp.mpf(int(c["aux"][0])) / 16
        piv = [det]                                   # L_22^2
    else:
        n = 3
        a, b, cc = [v / 4.0 for v in c["x"]]
        S = torch.tensor([[1.0, a, b], [a, 1.0, cc], [b, cc, 1.0]], dtype=torch.float64)
        det = mp.mpf(int(c["aux"][0])) / 64
        p2 = mp.mpf(int(c["aux"][1])) / 16
        piv = [p2, det / p2]                          # L_22^2, L_33^2
    I = torch.eye(n, dtype=torch.float64)
    key = [c["par"], list(c["x"])]
    nontriv = any(v != 0 for v in c["x"])
    # LKJPrior: documented pdf(Sigma) ~ |Sigma|^(eta - 1)   (compared relative to the identity matrix)
    prior = P.LKJPrior(n, float(eta))
    ok_, got = core.guarded(lambda: float(prior.log_prob(S) - prior.log_prob(I)))
    want = (eta - 1) * mp.log(det)
    res("LKJ", key + ["corr"], ok_ and _close(got, float(want), 1e-8, 1e-9),
        "LKJPrior(n=%d, eta=%s): log_prob(Sigma) - log_prob(I) = %s for Sigma = %s with |Sigma| = %s; documented |Sigma|^(eta-1) gives %s" % (
            n, float(eta), got, S.tolist(), float(det), float(want)), "LKJPrior/n%d/density" % n, nontrivial=nontriv)
    # LKJCholeskyFactorPrior: torch's LKJCholesky density over factors, prod_i L_ii^(n - i + 2 eta - 2)
    cp = P.LKJCholeskyFactorPrior(n, float(eta))
    L = torch.linalg.cholesky(S)
    ok_, got = core.guarded(lambda: float(cp.log_prob(L) - cp.log_prob(I)))
    want = sum((n - i + 2 * eta - 2) * mp.log(piv[i - 2]) / 2 for i in range(2, n + 1))
    res("LKJ", key + ["chol"], ok_ and _close(got, float(want), 1e-8, 1e-9),
        "LKJCholeskyFactorPrior(n=%d, eta=%s): log_prob(L) - log_prob(I) = %s, density over factors gives %s" % (n, float(eta), got, float(want)),
        "LKJCholeskyFactorPrior/n%d/density" % n, nontrivial=nontriv)
    # LKJCovariancePrior: LKJ over the correlations plus sd_prior over the marginal standard deviations
    sds = [mp.mpf(1), mp.mpf(2), mp.mpf(1) / 2][:n]
    box = (mp.mpf(1) / 4, mp.mpf(3), mp.mpf(1) / 10)
    sdp = P.SmoothedBoxPrior(float(box[0]), float(box[1]), float(box[2]))
    cov = P.LKJCovariancePrior(n, float(eta), sdp)
    D = torch.diag(torch.tensor([float(s) for s in sds], dtype=torch.float64))
    ok_, got = core.guarded(lambda: cov.log_prob(D @ S @ D) - cov.log_prob(D @ I @ D))
    want = (eta - 1) * mp.log(det)
    good = ok_ and got.dim() == 0 and _close(float(got), float(want), 1e-8, 1e-9)
    res("LKJ", key + ["cov"], good, "LKJCovariancePrior(n=%d, eta=%s, sd_prior=SmoothedBoxPrior): log_prob(D Sigma D) - log_prob(D D) = %s, documented %s" % (
        n, float(eta), got, float(want)), "LKJCovariancePrior/n%d/density" % n, nontrivial=nontriv)
    if not any(c["x"]):
        ok_, got = core.guarded(lambda: float(cov.log_prob(D @ I @ D) - P.LKJPrior(n, float(eta)).log_prob(I)))
        want = sum(ref_logpdf(mp, "SmoothedBox", box, s) for s in sds)
        res("LKJ", key + ["cov-sd"], ok_ and _close(got, float(want), 1e-8, 1e-9),
            "LKJCovariancePrior: the marginal standard deviation part is %s, sd_prior gives %s" % (got, float(want)), "LKJCovariancePrior/n%d/sd" % n)


def _normalisation_worker(item):
    """Integral of exp(log_prob) over the support = 1 for the families that claim a normalised density."""
    torch, gp = _env()
    mp = _mp()
    mp.mp.dps = 20
    fam, par = item["fam"], [q2mp(mp, p) for p in item["par"]]
    prior = make_prior(torch, gp, fam, par, **({"validate_args": False} if fam in ("HalfNormal", "LogNormal", "HalfCauchy", "Uniform") else {}))

    def code(x):
        xt = torch.tensor(float(x), dtype=torch.float64)
        if fam == "SmoothedBox":
            xt = xt.reshape(1)
        return mp.exp(mp.mpf(float(prior.log_prob(xt))))

    ref = lambda x: mp.exp(ref_logpdf(mp, fam, par, x))
    if fam == "Normal":
        pts = [-mp.inf, par[0] - 3 * par[1], par[0], par[0] + 3 * par[1], mp.inf]
    elif fam == "SmoothedBox":
        a, b, s = par
        pts = [-mp.inf, a - 6 * s, a, b, b + 6 * s, mp.inf]
    elif fam == "Uniform":
        pts = [par[0], par[1]]
    elif fam == "LogNormal":
        pts = [mp.mpf(0), mp.exp(par[0] - 3 * par[1]), mp.exp(par[0]), mp.exp(par[0] + 3 * par[1]), mp.inf]
    else:
        pts = [mp.mpf(0), par[0] if fam != "Gamma" else par[0] / par[1], mp.inf]
    I_ref = mp.quad(ref, pts)
    if abs(I_ref - 1) > 1e-8:
        raise core.Machinery("reference density of %s %s integrates to %s" % (fam, item["par"], I_ref))
    I_code = mp.quad(code, pts, maxdegree=7)
    ok = abs(I_code - 1) <= 1e-6
    return [dict(key=["prior-normalised", fam, item["par"]], ok=ok, nontrivial=True, sig="C17/prior/%sPrior/normalised" % fam, n=1,
                 detail="%sPrior(%s): integral of exp(log_prob) over the support = %s" % (fam, [float(p) for p in par], float(I_code)),
                 case=dict(kind="normalisation", item=item))]


# ---------------------------------------------------------------------------------------------
# priors registered on modules
# ---------------------------------------------------------------------------------------------
SAMPLE_FAMS = [("Normal", (1.0, 0.5)), ("LogNormal", (0.0, 1.0)), ("Gamma", (2.0, 1.5)), ("HalfCauchy", (1.0,)), ("HalfNormal", (2.0,)),
               ("Uniform", (0.25, 3.0)), ("SmoothedBox", (0.25, 3.0, 0.1)), ("Horseshoe", (1.0,))]


def _module_prior_worker(item):
    """One constrained parameter that offers its own <p>_prior argument: (a) the registered closure hands the CONSTRAINED value to
    log_prob, (b) sample_from_prior stores the sample, for every prior family."""
    from checks import c17
    torch, gp = _env()
    mp = _mp()
    desc = item["desc"]
    out = []
    cellname = "%s.%s" % (desc["owner"], desc["pub"])

    def res(what, key, ok, detail, nontrivial=True, sample=None):
        out.append(dict(key=["module-prior", desc["cls"], desc["variant"], desc["path"], what] + key, ok=ok, nontrivial=nontrivial, n=1,
                        sig="C17/module-prior/%s/%s" % (cellname, what), detail="%s(%s) %s: %s" % (desc["cls"], desc["variant"], desc["path"], detail),
                        case=dict(kind="module-prior", item=item), sample=sample))

    def fresh():
        root = c17.build_root(torch, gp, desc)
        owner = root
        for q in desc["path"].split(".")[:-1]:
            owner = getattr(owner, q)
        return root, owner

    pub, pname = desc["pub"], desc["pub"] + "_prior"
    rawn = desc["path"].split(".")[-1]
    rnd = random.Random(item["seed"])
    # (a) density of the constrained value
    for fam, par, x in item["points"]:
        root, owner = fresh()
        _, closure, setting = owner._priors[pname]
        parm = [q2mp(mp, p) for p in par]
        prior = make_prior(torch, gp, fam, parm)
        owner.register_prior(pname, prior, closure, setting)
        xv = float(q2mp(mp, x))
        con = owner._constraints[rawn + "_constraint"]
        if not bool(((con.lower_bound < xv) & (xv < con.upper_bound)).all()):
            continue
        ok_, info = core.guarded(lambda: setattr(owner, pub, torch.full(getattr(owner, pub).shape, xv, dtype=torch.float64)))
        if not ok_:
            res("closure-density", [fam, par, x], False, "setting %s = %s raised %s" % (pub, xv, info))
            continue
        want = float(ref_logpdf(mp, fam, parm, q2mp(mp, x)))
        found = [(n, m, p, cl) for n, m, p, cl, _ in root.named_priors() if p is prior]
        if len(found) != 1:
            res("closure-density", [fam, par, x], False, "named_priors() lists the registered prior %d times" % len(found))
            continue
        n, m, p, cl = found[0]
        ok_, lp = core.guarded(lambda: p.log_prob(cl(m)))
        numel = getattr(owner, pub).numel()
        good = ok_ and lp.numel() in (1, numel) and all(_close(float(v), want if lp.numel() == numel or fam != "SmoothedBox" else want * numel, 1e-8, 1e-9) for v in lp.reshape(-1))
        if ok_ and fam == "SmoothedBox":
            good = _close(float(lp.sum()), want * numel, 1e-8, 1e-9)      # event dimension: summed over the last axis
        res("closure-density", [fam, par, x], good, "%s = %s: log_prob(closure(module)) = %s, documented density of the constrained value %s" % (
            pub, xv, lp.reshape(-1)[:3].tolist() if ok_ else lp, want), sample=dict(module=cellname, prior=fam, value=xv, reference=want) if item.get("sample") else None)
    # (b) sample_from_prior stores the sample
    for fam, par in SAMPLE_FAMS:
        for rep in range(item["reps"]):
            root, owner = fresh()
            _, closure, setting = owner._priors[pname]
            shape = tuple(getattr(owner, pub).shape)
            prior = make_prior(torch, gp, fam, [mp.mpf(p) for p in par], shape=shape if shape else None)
            owner.register_prior(pname, prior, closure, setting)
            s = rnd.randrange(1 << 30)
            torch.manual_seed(s)
            smp = prior.sample().to(torch.float64)
            con = owner._constraints[rawn + "_constraint"]
            lo, hi = con.lower_bound.to(torch.float64), con.upper_bound.to(torch.float64)
            before = getattr(owner, rawn).detach().clone()
            torch.manual_seed(s)
            ok_, info = core.guarded(lambda: owner.sample_from_prior(pname))
            inside = bool(((smp > lo + 1e-6 * (1 + lo.abs())) & (smp < hi)).all())
            outside = bool(((smp < lo - 1e-6 * (1 + lo.abs())) | (smp > hi)).any())
            key = [fam, rep]
            if inside:
                if not ok_:
                    res("sample-stored", key, False, "sample_from_prior with %sPrior drew %s (inside the bounds) and raised %s" % (fam, smp.reshape(-1)[:3].tolist(), info))
                    continue
                val = getattr(owner, pub).detach().to(torch.float64)
                exp = smp + torch.zeros_like(val)
                good = bool(((val - exp).abs() <= 1e-6 * torch.maximum(exp.abs(), torch.where(torch.isfinite(lo), lo.abs(), torch.zeros_like(lo)))).all())
                res("sample-stored", key, good, "sample_from_prior with %sPrior drew %s, the parameter reads %s" % (fam, exp.reshape(-1)[:3].tolist(), val.reshape(-1)[:3].tolist()))
            elif outside:
                same = bool((getattr(owner, rawn).detach() == before).all())
                res("sample-rejected", key, (not ok_) and same, "sample_from_prior with %sPrior drew %s outside [%s, %s]: %s" % (
                    fam, smp.reshape(-1)[:3].tolist(), lo.tolist(), hi.tolist(), "accepted" if ok_ else ("refused, state changed" if not same else "refused")), nontrivial=False)
    return out


def _mll_worker(item):
    """ExactMarginalLogLikelihood adds sum of prior.log_prob(closure(module)) / n: the documented densities of the constrained values."""
    torch, gp = _env()
    mp = _mp()
    out = []
    ls, os_, nz = [float(q2mp(mp, q)) for q in item["values"]]

    class M(gp.models.ExactGP):
        def __init__(self, x, y, lik, priors):
            super().__init__(x, y, lik)
            self.mean_module = gp.means.ZeroMean()
            kw = dict(lengthscale_prior=gp.priors.GammaPrior(3.0, 2.0)) if priors else {}
            kw2 = dict(outputscale_prior=gp.priors.LogNormalPrior(0.5, 0.75)) if priors else {}
            self.covar_module = gp.kernels.ScaleKernel(gp.kernels.RBFKernel(**kw), **kw2)

        def forward(self, x):
            return gp.distributions.MultivariateNormal(self.mean_module(x), self.covar_module(x))

    x = torch.linspace(0, 1, 7, dtype=torch.float64).unsqueeze(-1)
    y = torch.sin(4 * x.squeeze(-1))
    vals = []
    for priors in (True, False):
        lik = gp.likelihoods.GaussianLikelihood(**(dict(noise_prior=gp.priors.HalfCauchyPrior(0.5)) if priors else {}))
        m = M(x, y, lik, priors)
        m.covar_module.base_kernel.lengthscale = ls
        m.covar_module.outputscale = os_
        m.likelihood.noise = nz
        mll = gp.mlls.ExactMarginalLogLikelihood(lik, m)
        m.train()
        lik.train()
        vals.append(float(mll(m(x), y)))
    want = (ref_logpdf(mp, "Gamma", [mp.mpf(3), mp.mpf(2)], mp.mpf(ls)) + ref_logpdf(mp, "LogNormal", [mp.mpf(1) / 2, mp.mpf(3) / 4], mp.mpf(os_))
            + ref_logpdf(mp, "HalfCauchy", [mp.mpf(1) / 2], mp.mpf(nz))) / 7
    got = vals[0] - vals[1]
    ok = _close(got, float(want), 1e-7, 1e-9)
    out.append(dict(key=["mll-priors", item["values"]], ok=ok, nontrivial=True, sig="C17/module-prior/ExactMarginalLogLikelihood/prior-terms", n=1,
                    detail="lengthscale=%s outputscale=%s noise=%s: mll with priors - mll without = %s, documented densities of the constrained values / n = %s" % (ls, os_, nz, got, float(want)),
                    case=dict(kind="mll", item=item)))
    return out


def run_priors(ck, states, thorough, cells=None):
    torch, gp = _env()
    if not states:
        ck.vacuous("ConstraintPriors.tla produced no evaluation point")
        return
    cases = []
    from harness import tlaval
    fams = {}
    for st in states:
        c = tlaval.to_json(st["case"])
        fams.setdefault(c["fam"], []).append(c)
        cases.append(c)
    for fam in ("Normal", "LogNormal", "HalfNormal", "HalfCauchy", "Gamma", "Uniform", "SmoothedBox", "Horseshoe", "LKJ2", "LKJ3", "MVN2"):
        if not fams.get(fam):
            ck.vacuous("no evaluation point for prior family %s" % fam)
    cases.sort(key=lambda c: core.digest(c))
    for i, c in enumerate(cases):
        c["transform"] = True
        c["sample"] = i % 977 == 0
    chunks = [cases[i:i + 60] for i in range(0, len(cases), 60)]
    results = core.pmap(_density_worker, chunks, chunksize=1)
    ck.absorb(results)
    ck.section("prior_densities", points=len(cases), comparisons=len(results), families=len(fams))
    # every exported prior class must have been evaluated
    exported = [n for n in gp.priors.__all__ if n != "Prior"]
    covered = {"NormalPrior", "LogNormalPrior", "HalfNormalPrior", "HalfCauchyPrior", "GammaPrior", "UniformPrior", "SmoothedBoxPrior", "HorseshoePrior",
               "LKJPrior", "LKJCholeskyFactorPrior", "LKJCovariancePrior", "MultivariateNormalPrior"}
    for n in exported:
        if n not in covered:
            ck.model_drift("exported prior class %s has no documented-density check" % n)
    # normalisation where claimed
    norm_items = []
    for fam in ("Normal", "HalfNormal", "LogNormal", "HalfCauchy", "Gamma", "Uniform", "SmoothedBox"):
        pars = sorted({core.digest(c["par"]): c["par"] for c in fams.get(fam, [])}.items())
        pars = [p for _, p in pars if not (fam == "Gamma" and p[0][0] * 1 < p[0][1])]       # concentration >= 1: integrable without a singularity
        for p in (pars if thorough else pars[:3]):
            norm_items.append(dict(fam=fam, par=p))
    results = core.pmap(_normalisation_worker, norm_items, chunksize=1)
    ck.absorb(results)
    ck.section("prior_normalisation", integrals=len(results))
    # priors on modules
    if cells is None:
        from checks import c17
        cells, _ = c17.discover(torch, gp)
    seen, items = set(), []
    pts = []
    for fam in ("Gamma", "LogNormal", "HalfCauchy", "Normal", "SmoothedBox"):
        cs = [c for c in fams.get(fam, []) if c["supp"] and c["x"][0] > 0]
        cs.sort(key=lambda c: core.digest(c))
        pts += [(fam, c["par"], c["x"]) for c in cs[:(4 if thorough else 2)]]
    for c in cells:
        if not c["own_prior"]:
            continue
        k = (c["cls"], c["path"], c["variant"])
        if c["variant"] not in ("d", "b", "l") or k in seen:
            continue
        seen.add(k)
        items.append(dict(desc=c, points=pts, reps=(4 if thorough else 2), seed=ck.seed + len(items), sample=len(items) % 13 == 0))
    if len(items) < 20:
        ck.vacuous("only %d constrained parameters with their own prior argument discovered" % len(items))
    results = core.pmap(_module_prior_worker, items, chunksize=1)
    ck.absorb(results)
    ck.section("module_priors", parameters=len(items), comparisons=len(results))
    mll_items = []
    xs = sorted({(c["x"][0], c["x"][1]) for c in fams.get("Gamma", []) if c["x"][0] > 0})
    for i in range(0, len(xs) - 2, max(1, len(xs) // (8 if thorough else 3))):
        mll_items.append(dict(values=[list(xs[i]), list(xs[(i + 3) % len(xs)]), list(xs[(i + 1) % len(xs)])]))
    results = core.pmap(_mll_worker, mll_items, chunksize=1)
    ck.absorb(results)
    ck.section("mll_prior_terms", models=len(results))



# ---------------------------------------------------------------------------------------------
# history of the prior object (ConstraintPriors.tla, HSpec)
# ---------------------------------------------------------------------------------------------
# public attributes that report the hyper-parameters (in the order of the spec's tuples) / the ones an Assign step assigns
H_ATTRS = {"Normal": ("loc", "scale"), "LogNormal": ("loc", "scale"), "HalfNormal": ("scale",), "HalfCauchy": ("scale",), "Horseshoe": ("scale",),
           "Gamma": ("concentration", "rate"), "Uniform": ("low", "high"), "SmoothedBox": ("a", "b", "sigma"), "MVN2": ("loc",), "LKJ2": ("concentration",)}
H_ASSIGN = dict(H_ATTRS, SmoothedBox=("a", "b"))
# state_dict entries -> index of the hyper-parameter they report
H_STATE = {"Normal": {"loc": 0, "scale": 1}, "LogNormal": {"_transformed_loc": 0, "_transformed_scale": 1}, "HalfNormal": {"_transformed_scale": 0},
           "HalfCauchy": {"_transformed_scale": 0}, "Horseshoe": {"scale": 0}, "Gamma": {"concentration": 0, "rate": 1},
           "SmoothedBox": {"a": 0, "b": 1, "sigma": 2, "tails.scale": 2}, "Uniform": {}, "LKJ2": {}, "MVN2": {"loc": "loc", "_unbroadcasted_scale_tril": "tril"}}
H_CLASS = {"MVN2": "MultivariateNormalPrior", "LKJ2": "LKJPrior"}
H_REAL = ("holder", "kernel", "likelihood")


def _h_values(torch, mp, fam, par):
    """float64 tensors of a hyper-parameter tuple of the spec, by reported name"""
    t64 = dict(dtype=torch.float64)
    if fam == "MVN2":
        m1, m2, S = par
        cov = torch.tensor([[S[0], S[1]], [S[1], S[2]]], **t64)
        return dict(loc=torch.tensor([float(q2mp(mp, m1)), float(q2mp(mp, m2))], **t64), cov=cov, tril=torch.linalg.cholesky(cov))
    vals = [float(q2mp(mp, q)) for q in par]
    return {i: torch.tensor([v] if fam == "SmoothedBox" else v, **t64) for i, v in enumerate(vals)}


def _h_make(torch, gp, mp, fam, par):
    P = gp.priors
    if fam == "MVN2":
        v = _h_values(torch, mp, fam, par)
        return P.MultivariateNormalPrior(v["loc"], covariance_matrix=v["cov"])
    if fam == "LKJ2":
        return P.LKJPrior(2, float(q2mp(mp, par[0])))
    return make_prior(torch, gp, fam, [q2mp(mp, q) for q in par])


def _h_owner(torch, gp, real, prior):
    """(owner module, how to find the prior in it)"""
    if real == "kernel":
        return gp.kernels.RBFKernel(lengthscale_prior=prior), ("lengthscale_prior",)
    if real == "likelihood":
        return gp.likelihoods.GaussianLikelihood(noise_prior=prior), ("noise_covar", "noise_prior")
    m = gp.Module()
    m.add_module("p", prior)
    return m, ("p",)


def _h_ref(mp, cache, fam, par, pt):
    """documented log density at the point (for LKJ2: relative to the identity matrix); None outside the support"""
    k = core.digest([fam, par, pt])
    if k not in cache:
        if fam == "MVN2":
            m1, m2, S = par
            dx, dy = mp.mpf(pt[0]) / 4 - q2mp(mp, m1), mp.mpf(pt[1]) / 4 - q2mp(mp, m2)
            det = mp.mpf(S[0] * S[2] - S[1] * S[1])
            cache[k] = -(S[2] * dx * dx - 2 * S[1] * dx * dy + S[0] * dy * dy) / det / 2 - mp.log(det) / 2 - mp.log(2 * mp.pi)
        elif fam == "LKJ2":
            cache[k] = (q2mp(mp, par[0]) - 1) * mp.log(1 - (mp.mpf(pt) / 4) ** 2)
        else:
            cache[k] = ref_logpdf(mp, fam, [q2mp(mp, q) for q in par], mp.mpf(pt) / 4)
        if cache[k] is not None:
            cache[k] = float(cache[k])
    return cache[k]


def _h_logprob(torch, fam, prior, pt):
    t64 = dict(dtype=torch.float64)
    if fam == "MVN2":
        return float(prior.log_prob(torch.tensor([pt[0] / 4.0, pt[1] / 4.0], **t64)))
    if fam == "LKJ2":
        a = pt / 4.0
        return float(prior.log_prob(torch.tensor([[1.0, a], [a, 1.0]], **t64)) - prior.log_prob(torch.eye(2, **t64)))
    x = torch.tensor(pt / 4.0, **t64)
    return float(prior.log_prob(x.reshape(1) if fam == "SmoothedBox" else x))


def _h_describe(steps):
    return " -> ".join("%s(%s)" % (s[0], s[1]) if s[0] != "Construct" else "Construct" for s in steps)


def _prior_history_worker(item):
    """One maximal history of HSpec on one realisation of `the module the prior is registered on`; the oracle after every step is the
    spec's hp: mpmath density at HParOf(fam, hp), and attributes / state_dict reporting those values."""
    import copy
    import io
    torch, gp = _env()
    mp = _mp()
    cache = item.setdefault("_cache", {})
    out = []
    for steps in item["hists"]:
        fam, real = item["fam"], item["real"]
        pname = H_CLASS.get(fam, fam + "Prior")
        pts, table = steps[0][5], steps[0][6]
        r = dict(key=["prior-history", fam, real, [s[:2] for s in steps]], ok=True, nontrivial=len(steps) > 1, n=len(steps))
        conv_before = False
        predicted = False
        state = {}

        def fail(clause, k, detail):
            op = steps[k][0]
            r.update(ok=False, sig="C17/prior-history/%s/%s/%s%s" % (pname, clause, op, "/after-dtype-conversion" if conv_before else ""),
                     detail="%s registered on a %s, history %s, after step %d (%s): %s%s" % (
                         pname, real, _h_describe(steps), k, op, detail,
                         " [the code-shaped model of ConstraintPriors.tla predicts this state as stale]" if steps[k][3] else ""),
                     case=dict(kind="prior-history", item=dict(fam=fam, real=real, hists=[steps])))

        def get():
            q = state["owner"]
            for a in state["path"]:
                q = getattr(q, a)
            return q

        def apply(k, step):
            op, a = step[0], step[1]
            if op == "Construct":
                state["owner"], state["path"] = _h_owner(torch, gp, real, _h_make(torch, gp, mp, fam, table[0]))
            elif op == "Assign":
                v = _h_values(torch, mp, fam, table[a - 1])
                names = H_ATTRS[fam]
                for nm in H_ASSIGN[fam]:
                    setattr(get(), nm, v[nm] if fam == "MVN2" else v[names.index(nm)].clone())
            elif op == "Load":
                get().load_state_dict(_h_make(torch, gp, mp, fam, table[a - 1]).state_dict())
            elif op == "ModLoad":
                src, _ = _h_owner(torch, gp, real, _h_make(torch, gp, mp, fam, table[a - 1]))
                state["owner"].load_state_dict(src.state_dict())
            elif op == "Copy":
                if a == 0:
                    state["owner"] = copy.deepcopy(state["owner"])
                elif real == "holder":
                    buf = io.BytesIO()
                    torch.save(state["owner"], buf)
                    buf.seek(0)
                    state["owner"] = torch.load(buf, weights_only=False)
                else:
                    # the closures of constructor-registered priors do not pickle (C18's subject): the prior makes the round trip alone and
                    # is registered again under its name
                    owner = state["owner"]
                    for q in state["path"][:-1]:
                        owner = getattr(owner, q)
                    buf = io.BytesIO()
                    torch.save(get(), buf)
                    buf.seek(0)
                    _, closure, setting = owner._priors[state["path"][-1]]
                    owner.register_prior(state["path"][-1], torch.load(buf, weights_only=False), closure, setting)
            elif op == "Conv":
                state["owner"] = state["owner"].double() if a == 0 else state["owner"].float().double()
            else:
                raise core.Machinery("unknown prior history step %r" % (step,))

        for k, step in enumerate(steps):
            ok_, info = core.guarded(lambda: apply(k, step))
            if not ok_:
                fail("raised", k, "the operation raised %s" % info)
                break
            par = step[4]
            predicted = predicted or bool(step[3])
            prior = get()
            want = _h_values(torch, mp, fam, par)
            # what the object reports
            bad = None
            ok_, sd = core.guarded(lambda: prior.state_dict())
            if not ok_:
                fail("raised", k, "state_dict() raised %s" % sd)
                break
            for key, idx in H_STATE[fam].items():
                if key in sd:
                    got = sd[key].detach().to(torch.float64)
                    if got.numel() != want[idx].numel() or not bool(((got.reshape(-1) - want[idx].reshape(-1)).abs() <= 1e-12).all()):
                        bad = "state_dict()[%r] = %s, the hyper-parameter is %s" % (key, got.reshape(-1).tolist(), want[idx].reshape(-1).tolist())
            for i, nm in enumerate(H_ATTRS[fam]):
                ok_, got = core.guarded(lambda: getattr(prior, nm).detach().to(torch.float64))
                w = want["loc"] if fam == "MVN2" else want[i]
                if not ok_:
                    bad = "reading the attribute %s raised %s" % (nm, got)
                elif not bool(((got.reshape(-1) - w.reshape(-1)).abs() <= 1e-12).all()):
                    bad = "the attribute %s reads %s, the hyper-parameter is %s" % (nm, got.reshape(-1).tolist(), w.reshape(-1).tolist())
            # what log_prob uses
            badd = None
            for pt in pts:
                ref = _h_ref(mp, cache, fam, par, pt)
                if ref is None:
                    continue
                ok_, got = core.guarded(lambda: _h_logprob(torch, fam, prior, pt))
                if not (ok_ and _close(got, ref, 1e-8, 1e-9)):
                    badd = "log_prob(%s) = %s, the documented density at the hyper-parameters %s is %s" % (
                        [p / 4.0 for p in pt] if isinstance(pt, list) else pt / 4.0, got, [float(q2mp(mp, q)) if len(q) == 2 else q for q in par], ref)
                    break
            if badd:
                fail("density", k, badd + ("; " + bad if bad else ""))
                break
            if bad:
                fail("reports", k, bad)
                break
            if step[0] == "Conv" and step[1] == 1:
                conv_before = True
        else:
            # the registered closure hands the constrained value to the restored prior
            if real != "holder" and fam not in ("MVN2", "LKJ2"):
                par = steps[-1][4]
                owner = state["owner"]
                for pt in pts:
                    ref = _h_ref(mp, cache, fam, par, pt)
                    if ref is None or pt <= 0:
                        continue
                    def via_closure():
                        if real == "kernel":
                            owner.lengthscale = pt / 4.0
                        else:
                            owner.noise = pt / 4.0
                        found = [(m, p, cl) for _, m, p, cl, _ in owner.named_priors()]
                        if len(found) != 1:
                            raise core.Machinery("expected one registered prior, found %d" % len(found))
                        m, p, cl = found[0]
                        return float(p.log_prob(cl(m)).sum())
                    ok_, got = core.guarded(via_closure)
                    if not (ok_ and _close(got, ref, 1e-7, 1e-8)):
                        fail("closure-density", len(steps) - 1, "log_prob(closure(module)) with the parameter at %s = %s, documented density %s" % (pt / 4.0, got, ref))
                    break
        if r["ok"] and predicted:
            r["drift"] = "ConstraintPriors.tla (as coded) predicts a stale %s after %s; the implementation agrees with the property there" % (pname, _h_describe(steps))
        if item.get("sample") and steps is item["hists"][0]:
            r["sample"] = dict(prior=pname, registered_on=real, history=_h_describe(steps))
        out.append(r)
    return out


def run_prior_histories(ck, states, thorough):
    from harness import tlaval
    if not states:
        ck.vacuous("ConstraintPriors.tla (HSpec) produced no history")
        return
    hists = [tlaval.to_json(st["hist"]) for st in states]
    fams = sorted({str(tlaval.to_json(st["hfam"])) for st in states})
    by = {}
    longest = max(len(h) for h in hists)
    n_pred = 0
    for st, h in zip(states, hists):
        if len(h) != longest:
            continue          # every shorter history is a prefix of a maximal one and is checked step by step there
        fam = str(tlaval.to_json(st["hfam"]))
        n_pred += any(s[3] for s in h)
        # every history on one realisation of the module the prior is registered on, rotating (every realisation receives every operation
        # pair of every family many times); matrix / vector valued priors on the plain holder
        reals = ["holder"] if fam in ("MVN2", "LKJ2") else [H_REAL[int(core.digest(h), 16) % 3]]
        for real in reals:
            by.setdefault((fam, real), []).append(h)
    for fam in ("Normal", "LogNormal", "HalfNormal", "HalfCauchy", "Horseshoe", "Gamma", "Uniform", "SmoothedBox", "MVN2", "LKJ2"):
        if fam not in fams:
            ck.vacuous("no history for prior family %s" % fam)
    if not n_pred and not PRIOR_ALIAS_FIXED:
        ck.vacuous("the code-shaped model predicts no stale prior (the dtype conversion branch was not reached)")
    items = []
    for (fam, real), hs in sorted(by.items()):
        hs.sort(key=lambda h: core.digest(h))
        for i in range(0, len(hs), 50):
            items.append(dict(fam=fam, real=real, hists=hs[i:i + 50], sample=(i == 0 and real == "kernel" and fam == "LogNormal")))
    results = core.pmap(_prior_history_worker, items, chunksize=1)
    ck.absorb(results)
    ck.section("prior_histories", histories=len(results), steps=sum(r.get("n", 0) for r in results), families=len(fams),
               realisations=len({k[1] for k in by}), predicted_stale_by_model=n_pred)


# ---------------------------------------------------------------------------------------------
def run_observations(ck):
    """Behaviour next to the property that the replays had to work around; recorded, never a verdict."""
    torch, gp = _env()
    C = gp.constraints
    obs = {}
    ok, r = core.guarded(lambda: C.Interval(0.1, 0.9).intersect(C.Interval(0.2, 1.5)))
    obs["Interval.intersect of two distinct constraints"] = "returns %s" % r if ok else r
    k = gp.kernels.RBFKernel()
    ok, r = core.guarded(lambda: k.initialize(raw_lengthscale=0.5))
    obs["Module.initialize(raw_lengthscale=0.5) (python float)"] = "accepted" if ok else r
    ok, r = core.guarded(lambda: tuple(gp.priors.LKJCovariancePrior(3, 1.5, gp.priors.GammaPrior(2.0, 1.0)).log_prob(torch.eye(3, dtype=torch.float64)).shape))
    obs["LKJCovariancePrior(3, 1.5, GammaPrior(2, 1)).log_prob(I).shape"] = r
    iv = C.Interval(-1.0, 0.3)
    top = iv.transform(torch.tensor(40.0, dtype=torch.float64))
    obs["Interval(-1.0, 0.3): transform(40.) - upper_bound (rounding of sigmoid * (hi - lo) + lo; inside the 4e-15 slack)"] = float(top - 0.3)
    obs["Interval(-1.0, 0.3).check_raw(40.)"] = bool(iv.check_raw(torch.tensor(40.0, dtype=torch.float64)))
    ok, r = core.guarded(lambda: repr(C.GreaterThan(torch.tensor([1.0], dtype=torch.float64))))
    obs["repr(GreaterThan(tensor([1.])))"] = r
    k2 = gp.kernels.RBFKernel(lengthscale_constraint=C.Interval(-0.74, 0.3))
    ok, r = core.guarded(lambda: setattr(k2, "lengthscale", torch.tensor(0.29999999999999993, dtype=torch.float64)))
    obs["Interval(-0.74, 0.3): assigning 0.3 - 1 ulp (inside; (v - lo) / (hi - lo) rounds to 1, transform(inf) = 0.3 + 1 ulp)"] = "accepted" if ok else r[:80]
    src, dst = gp.kernels.RBFKernel(lengthscale_constraint=C.GreaterThan(0.5)), gp.kernels.RBFKernel()
    src.lengthscale = 0.75
    ok, r = core.guarded(lambda: dst.load_state_dict(src.state_dict()))
    obs["Positive() after load_state_dict from GreaterThan(0.5) with lengthscale 0.75 (another constraint class: not the same architecture)"] = (
        "lower_bound reports %r, lengthscale reads %r" % (float(dst.raw_lengthscale_constraint.lower_bound), float(dst.lengthscale)) if ok else r[:80])
    ck.extra["observations_outside_the_claim"] = obs


def replay(rep):
    case = rep["case"]
    kind = case.get("kind")
    if kind == "transform":
        res = _transform_worker(case["cfg"])
    elif kind == "density":
        res = _density_worker([case["case"]])
    elif kind == "normalisation":
        res = _normalisation_worker(case["item"])
    elif kind == "module-prior":
        res = _module_prior_worker(case["item"])
    elif kind == "mll":
        res = _mll_worker(case["item"])
    elif kind == "prior-history":
        res = _prior_history_worker(case["item"])
    else:
        print("MACHINERY-FAILURE unknown replay kind %r" % kind)
        return 2
    bad = [r for r in res if not r["ok"] and (rep.get("signature") in (None, r["sig"]))]
    for r in bad[:5]:
        print("VIOLATION property=C17 replay=- :: %s :: %s" % (r["sig"], r["detail"]))
    if bad:
        return 1
    print("replay passed (%d comparisons)" % len(res))
    return 0
