"""C13 references: exact Gaussian moments in fractions.Fraction (same recurrence as spec/Quadrature.tla) and the documented
conditional log densities / their integrals against N(m, v) in mpmath."""
from fractions import Fraction
from math import comb, factorial

DPS = 30


# ---- exact moments (Quadrature.tla: ZM, IM, Moment, PolyInt, Deficit) -------------------------------------------------------
def zm(k):
    vals = [1, 0]          # E z^0, E z^1
    for j in range(2, k + 1):
        vals.append((j - 1) * vals[j - 2])
    return vals[k]


def moment(m, s, k):
    """E (m + s z)^k, m and s Fractions: binomial expansion over the recurrence for E z^j"""
    return sum(comb(k, j) * m ** (k - j) * s ** j * zm(j) for j in range(k + 1))


def moments_upto(m, s, K):
    """the same through Stein's recurrence M_k = m M_(k-1) + (k-1) v M_(k-2) (cheap for K = 80)"""
    v = s * s
    out = [Fraction(1), Fraction(m)]
    for k in range(2, K + 1):
        out.append(m * out[k - 1] + (k - 1) * v * out[k - 2])
    return out[:K + 1]


def poly_int(m, s, coef):
    mom = moments_upto(m, s, len(coef))
    return sum(Fraction(c) * mom[k] for k, c in enumerate(coef))


def deficit(s, n):
    """E x^(2n) minus the n-point Gauss-Hermite value: s^(2n) n!"""
    return s ** (2 * n) * factorial(n)


def natural_scale(m, s, coef):
    """sum_k |c_k| A_k with A_k >= E|x|^k: A_k = E x^k for even k, sqrt(E x^(k-1) E x^(k+1)) for odd k (Cauchy-Schwarz);
    the size of what the rule adds up, against which rounding is measured (the integral itself may cancel to 0)"""
    mom = moments_upto(m, s, len(coef) + 1)
    tot = 0.0
    for k, c in enumerate(coef):
        if c == 0:
            continue
        a = float(mom[k]) if k % 2 == 0 else float(mom[k - 1]) ** 0.5 * float(mom[k + 1]) ** 0.5      # (the product of the two moments may underflow for v = 1e-6)
        tot += abs(c) * a
    return max(tot, 1e-300)


# ---- documented conditional densities (mpmath) ----------------------------------------------------------------------------------
def mpm():
    import mpmath as mp
    mp.mp.dps = DPS
    return mp


def logp(mp, kind, par, y, f):
    """log p(y | f) as documented (see ck.assumptions for the two places where the docstring is ambiguous)"""
    if kind == "bern":        # p(Y=y|f) = Phi((2y-1) f)
        return mp.log(mp.ncdf((2 * y - 1) * f))
    if kind == "lap":         # Laplace(loc f, scale sqrt(noise))
        b = mp.sqrt(par["noise"])
        return -mp.log(2 * b) - abs(y - f) / b
    if kind == "stu":         # StudentT(df nu, loc f, scale sqrt(noise))
        nu = mp.mpf(par["df"])
        s = mp.sqrt(par["noise"])
        t = (y - f) / s
        return mp.loggamma((nu + 1) / 2) - mp.loggamma(nu / 2) - mp.log(nu * mp.pi) / 2 - mp.log(s) - (nu + 1) / 2 * mp.log1p(t * t / nu)
    if kind == "beta":        # Beta(sigmoid(f) s + 1, (1 - sigmoid(f)) s + 1)
        sg = 1 / (1 + mp.exp(-f))
        a = sg * par["scale"] + 1
        b = (1 - sg) * par["scale"] + 1
        return mp.loggamma(a + b) - mp.loggamma(a) - mp.loggamma(b) + (a - 1) * mp.log(y) + (b - 1) * mp.log1p(-y)
    raise ValueError(kind)


def gauss_integral(mp, g, m, v, kinks=(), fine=False):
    """adaptive integration of g(f) N(f; m, v) over m +- 14 sd (the tail beyond is < 1e-43 of the mass), split at the kinks;
    fine: one panel per standard deviation instead of six panels (integrands whose logarithm has a slope of many units per sd, e.g. Beta with scale 100 or
    a Student-t observed 30 scales away: the 6-panel split is only good to ~1e-6 there)"""
    sd = mp.sqrt(v)
    pts = [m + k * sd for k in range(-14, 15)] if fine else [m - 14 * sd, m - 6 * sd, m - 2 * sd, m, m + 2 * sd, m + 6 * sd, m + 14 * sd]
    pts += [k for k in kinks if m - 14 * sd < k < m + 14 * sd]
    pts = sorted(set(pts))
    return mp.quad(lambda f: g(f) * mp.npdf(f, m, sd), pts)


def ref_integrals(mp, kind, par, m, v, y, fine=False):
    """(E log p(y|f), log E p(y|f)) for f ~ N(m, v)"""
    m, v, y = mp.mpf(m), mp.mpf(v), mp.mpf(y)
    par = {k: mp.mpf(x) for k, x in par.items()}
    kinks = [y] if kind == "lap" else []
    elp = gauss_integral(mp, lambda f: logp(mp, kind, par, y, f), m, v, kinks)          # the log density is tame: six panels are good to 1e-30 (measured)
    lm = mp.log(gauss_integral(mp, lambda f: mp.exp(logp(mp, kind, par, y, f)), m, v, kinks, fine))
    return elp, lm


# ---- closed forms for the Laplace conditional when the whole rule lies on one side of the observation -------------------------------
def laplace_one_sided(mp, noise, m, v, y):
    """f ~ N(m, v), |y - m| >= 12 sd: (E log p, log E p) of Laplace(loc f, scale b = sqrt(noise)).
    E|y - f| is the folded-normal mean (equal to |y - m| up to sd phi(12) ~ 1e-32 sd);
    E exp(-|y - f| / b) = exp(-|y - m| / b + v / (2 b^2)) Phi((|y - m| - v / b) / sd) + exp(|y - m| / b + v / (2 b^2)) Phi(-(|y - m| + v / b) / sd)  (exact)"""
    noise, m, v, y = mp.mpf(noise), mp.mpf(m), mp.mpf(v), mp.mpf(y)
    b, sd, d = mp.sqrt(noise), mp.sqrt(v), abs(y - m)
    e_abs = sd * mp.sqrt(2 / mp.pi) * mp.exp(-d * d / (2 * v)) + d * mp.erf(d / (sd * mp.sqrt(2)))
    elp = -mp.log(2 * b) - e_abs / b
    a = v / (2 * noise)
    t1 = mp.exp(-d / b + a) * mp.ncdf((d - v / b) / sd)
    t2 = mp.exp(d / b + a) * mp.ncdf(-(d + v / b) / sd)
    return elp, mp.log((t1 + t2) / (2 * b))
