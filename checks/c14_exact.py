"""C14: a Python mirror of Rational.tla / LinAlg.tla / VariationalQF.tla!Eval with TLC's 32-bit overflow behaviour.

Two uses, none of them a verdict on the code under test:
  * instance generation: an instance whose evaluation would overflow TLC's integers is rejected before TLC sees it
    (the operations and their order follow the TLA+ text; anything TLC evaluates lazily is evaluated here anyway);
  * self-validation of the pipeline (DESIGN 4c): the values parsed from TLC's state dump must be identical to the
    values computed here - a mismatch is a machinery failure.
A rational is a pair (n, d), d > 0, gcd 1; a matrix a tuple of row tuples."""

LIM = 2 ** 31 - 1


class Overflow(Exception):
    pass


def _c(x):
    if x > LIM or x < -LIM - 1:
        raise Overflow(x)
    return x


def _gcd(a, b):
    while b:
        a, b = b, a % b
    return a


def norm(n, d):
    if n == 0:
        return (0, 1)
    s = -1 if d < 0 else 1
    g = _gcd(abs(n), abs(d))
    return (_c(s * n) // g, _c(s * d) // g)


def R(i):
    return (i, 1)


RZero, ROne = (0, 1), (1, 1)
Half = (1, 2)


def radd(a, b):
    return norm(_c(_c(a[0] * b[1]) + _c(b[0] * a[1])), _c(a[1] * b[1]))


def rsub(a, b):
    return norm(_c(_c(a[0] * b[1]) - _c(b[0] * a[1])), _c(a[1] * b[1]))


def rmul(a, b):
    return norm(_c(a[0] * b[0]), _c(a[1] * b[1]))


def rdiv(a, b):
    return norm(_c(a[0] * b[1]), _c(a[1] * b[0]))


def rneg(a):
    return (-a[0], a[1])


def rlt(a, b):
    return _c(a[0] * b[1]) < _c(b[0] * a[1])


def rsum(q):
    r = RZero
    for x in reversed(q):          # RSum(q) == RAdd(Head(q), RSum(Tail(q)))
        r = radd(x, r)
    return r


def rows(M):
    return len(M)


def cols(M):
    return len(M[0]) if M else 0


def mk(r, c, f):
    return tuple(tuple(f(i, j) for j in range(c)) for i in range(r))


def from_int(M):
    return tuple(tuple(R(x) for x in row) for row in M)


def vfrom_int(v):
    return tuple(R(x) for x in v)


def ident(n):
    return mk(n, n, lambda i, j: ROne if i == j else RZero)


def tr(M):
    return mk(cols(M), rows(M), lambda i, j: M[j][i])


def madd(A, B):
    return mk(rows(A), cols(A), lambda i, j: radd(A[i][j], B[i][j]))


def msub(A, B):
    return mk(rows(A), cols(A), lambda i, j: rsub(A[i][j], B[i][j]))


def mscale(c, A):
    return mk(rows(A), cols(A), lambda i, j: rmul(c, A[i][j]))


def mmul(A, B):
    return mk(rows(A), cols(B), lambda i, j: rsum([rmul(A[i][k], B[k][j]) for k in range(cols(A))]))


def mvec(A, v):
    return tuple(rsum([rmul(A[i][k], v[k]) for k in range(cols(A))]) for i in range(rows(A)))


def vadd(u, v):
    return tuple(radd(a, b) for a, b in zip(u, v))


def vsub(u, v):
    return tuple(rsub(a, b) for a, b in zip(u, v))


def dot(u, v):
    return rsum([rmul(a, b) for a, b in zip(u, v)])


def col_of(M, j):
    return tuple(M[i][j] for i in range(rows(M)))


def diag(v):
    return mk(len(v), len(v), lambda i, j: v[i] if i == j else RZero)


def diag_of(M):
    return tuple(M[i][i] for i in range(rows(M)))


def block(M, r1, r2, c1, c2):      # 1-based inclusive, as in LinAlg.tla
    return tuple(tuple(M[i][j] for j in range(c1 - 1, c2)) for i in range(r1 - 1, r2))


def minor(M, r, c):
    n = rows(M)
    return tuple(tuple(M[i][j] for j in range(n) if j != c) for i in range(n) if i != r)


def det(M):
    n = rows(M)
    if n == 0:
        return ROne
    if n == 1:
        return M[0][0]
    terms = []
    for j in range(n):
        t = rmul(M[0][j], det(minor(M, 0, j)))
        terms.append(t if j % 2 == 0 else rneg(t))
    return rsum(terms)


def inv(M):
    n = rows(M)
    d = det(M)

    def f(i, j):
        c = det(minor(M, j, i))
        return rdiv(c if (i + j) % 2 == 0 else rneg(c), d)
    return mk(n, n, f)


def is_pd(M):
    return all(rlt(RZero, det(block(M, 1, k, 1, k))) for k in range(1, rows(M) + 1))


def trace(M):
    return rsum(list(diag_of(M)))


def zero_m(n):
    return mk(n, n, lambda p, q: RZero)


def quad(v, M):
    return dot(v, mvec(M, v))


# ---- VariationalQF.tla ---------------------------------------------------------------------------------------------
def p_chol(i):
    k = len(i["Cs"])
    return mk(k, k, lambda p, q: R(i["Cs"][p][q]) if q <= p else R(i["ju"]))


def lower(M):
    return mk(rows(M), cols(M), lambda p, q: M[p][q] if q <= p else RZero)


def p_std(i):
    return tuple(R(-i["Cs"][k][k] if (k + 1) % 2 == 1 else i["Cs"][k][k]) for k in range(len(i["Cs"])))


def theta1(i):
    return vfrom_int(i["mu"])


def theta2(i):
    C = from_int(i["Cs"])
    if i["dist"] == "nat":
        return mscale(rneg(Half), mmul(C, tr(C)))
    return mscale(rneg(Half), mmul(tr(C), C))


def q_mean(i):
    if i["dist"] in ("nat", "tril"):
        return mvec(mscale(rneg(Half), inv(theta2(i))), theta1(i))
    return vfrom_int(i["mu"])


def q_cov(i):
    d = i["dist"]
    if d == "chol":
        Lo = lower(p_chol(i))
        return mmul(Lo, tr(Lo))
    if d == "mf":
        sd = p_std(i)
        return diag(tuple(rmul(s, s) for s in sd))
    if d == "delta":
        return zero_m(len(i["mu"]))
    return mscale(rneg(Half), inv(theta2(i)))


def code_dist(i):
    k = len(i["mu"])
    d = i["dist"]
    if d == "chol":
        mask = mk(k, k, lambda p, q: ROne if q <= p else RZero)
        P = p_chol(i)
        Lc = mk(k, k, lambda p, q: rmul(P[p][q], mask[p][q]))
        return dict(mean=vfrom_int(i["mu"]), cov=mmul(Lc, tr(Lc)), root=Lc)
    if d == "mf":
        sd = p_std(i)
        return dict(mean=vfrom_int(i["mu"]), cov=diag(tuple(rmul(s, s) for s in sd)),
                    root=diag(tuple(rneg(s) if rlt(s, RZero) else s for s in sd)))
    if d == "delta":
        return dict(mean=vfrom_int(i["mu"]), cov=zero_m(k), root=zero_m(k))
    if d == "nat":
        Lm = inv(from_int(i["Cs"]))
        S = mmul(tr(Lm), Lm)
        return dict(mean=mvec(S, theta1(i)), cov=S, root=tr(Lm))
    Lm = inv(from_int(i["Cs"]))
    return dict(mean=mvec(Lm, mvec(tr(Lm), theta1(i))), cov=mmul(Lm, tr(Lm)), root=Lm)


def qf_mean(mx, Kxz, Ki, mz, mu):
    return vadd(mx, mvec(Kxz, mvec(Ki, vsub(mu, mz))))


def qf_cov(Kxx, Kxz, Kzz, Ki, S):
    return msub(Kxx, mmul(mmul(mmul(mmul(Kxz, Ki), msub(Kzz, S)), Ki), tr(Kxz)))


def kl_pieces(Ki, Kzz, mz, mu, S):
    return dict(tr=trace(mmul(Ki, S)), quad=quad(vsub(mu, mz), Ki), detK=det(Kzz), detS=det(S))


def u_code(mx, Kxx, Kxz, Ki, mz, mu, root):
    k = len(mz)
    left = mk(k, k + 1, lambda p, q: rsub(mu[p], mz[p]) if q == 0 else root[p][q - 1])
    invp = mmul(mmul(tr(left), Ki), tr(Kxz))
    Rt = block(invp, 2, k + 1, 1, cols(invp))
    data = madd(Kxx, mmul(mscale(R(-1), Kxz), mmul(Ki, tr(Kxz))))
    return dict(mean=vadd(mx, invp[0]), cov=madd(mmul(tr(Rt), Rt), data))


def kl_code(Ki, mz, mu, root):
    k = len(mz)
    rhs = mk(k, k + 1, lambda p, q: rsub(mz[p], mu[p]) if q == 0 else root[p][q - 1])
    return rsum([quad(col_of(rhs, q), Ki) for q in range(k + 1)])


def eval_instance(i):
    """mirror of Eval(i); raises Overflow where TLC would (or might)"""
    k, n, p = len(i["L"]), len(i["Gx"]), len(i["a"])
    n0 = n - p
    L, Gx, w, Ik = from_int(i["L"]), from_int(i["Gx"]), vfrom_int(i["w"]), ident(k)
    Kzz = madd(mmul(L, tr(L)), mscale(R(i["j"]), Ik))
    Kxz = mmul(Gx, tr(L))
    Kxx = mmul(Gx, tr(Gx))
    mz = tuple(radd(dot(L[q], w), R(i["b"])) for q in range(k))
    mx = tuple(radd(dot(Gx[q], w), R(i["b"])) for q in range(n))
    Ki = inv(Kzz)
    qm, qS, cd = q_mean(i), q_cov(i), code_dist(i)
    dmean = qf_mean(mx, Kxz, Ki, mz, qm)
    dcov = qf_cov(Kxx, Kxz, Kzz, Ki, qS)
    dkl = kl_pieces(Ki, Kzz, mz, qm, qS)
    ucode = u_code(mx, Kxx, Kxz, Ki, mz, cd["mean"], cd["root"])
    white = i["j"] == 0
    av = vfrom_int(i["a"])

    def orth(mean, cov):
        return dict(mean=vadd(mean[:n0], mvec(block(cov, 1, n0, n0 + 1, n), av)), cov=block(cov, 1, n0, 1, n0),
                    quad=quad(av, block(cov, n0 + 1, n, n0 + 1, n)), aa=dot(av, av))
    none = dict(none=True)
    out = dict(id=tuple(i["id"]), pdK=is_pd(Kzz), pdS=(i["dist"] == "delta" or is_pd(qS)),
               qm=qm, qS=qS, cqm=cd["mean"], cqS=cd["cov"], rootOK=mmul(cd["root"], tr(cd["root"])) == cd["cov"],
               mx=mx, Kxx=Kxx, d=dict(mean=dmean, cov=dcov, kl=dkl), cu=ucode, cukl=kl_code(Ki, mz, cd["mean"], cd["root"]),
               pr=dict(mean=qf_mean(mx, Kxz, Ki, mz, mz), cov=qf_cov(Kxx, Kxz, Kzz, Ki, Kzz), kl=kl_pieces(Ki, Kzz, mz, mz, Kzz)),
               white=white, od=(orth(dmean, dcov) if p > 0 else none))
    radd(dkl["tr"], dkl["quad"])                        # evaluated by invariant KLCodeOK
    if white:
        um = vadd(mz, mvec(L, qm))
        uS = mmul(mmul(L, qS), tr(L))
        wmean = qf_mean(mx, Kxz, Ki, mz, um)
        wcov = qf_cov(Kxx, Kxz, Kzz, Ki, uS)
        wkl = kl_pieces(Ki, Kzz, mz, um, uS)
        interp = mmul(inv(L), tr(Kxz))
        cw = dict(mean=vadd(mvec(tr(interp), cd["mean"]), mx), cov=madd(Kxx, mmul(mmul(tr(interp), msub(cd["cov"], Ik)), interp)))
        # legacy checkpoint: the stored q(u) whitened once with L, then forward on the whitened parameters
        Li = inv(L)
        lgm = mvec(Li, vsub(cd["mean"], mz))
        lgroot = mmul(Li, cd["root"])
        lgcov = mmul(lgroot, tr(lgroot))
        cl = dict(mean=vadd(mvec(tr(interp), lgm), mx), cov=madd(Kxx, mmul(mmul(tr(interp), msub(lgcov, Ik)), interp)),
                  tr=trace(lgcov), quad=dot(lgm, lgm), detS=det(lgcov))
        rmul(dkl["detK"], cl["detS"])                   # evaluated by invariant LegacyOK
        out.update(cl=cl)
        out.update(w=dict(mean=wmean, cov=wcov, kl=wkl, wtr=trace(qS), wquad=dot(qm, qm), wdetS=det(qS)), cw=cw,
                   cu2=u_code(mx, Kxx, Kxz, Ki, mz, um, mmul(L, cd["root"])), um=um, uS=uS,
                   ow=(orth(wmean, wcov) if p > 0 else none))
        rmul(wkl["detK"], out["w"]["wdetS"])            # evaluated by invariant WhiteKLOK
    else:
        out.update(w=none, cw=none, cu2=none, cl=none, um=(), uS=(), ow=none)
    return out


def invariants_hold(o):
    """the TLC invariants of part "qf" on a mirrored evaluation (used to reject ill-posed instances early)"""
    ok = o["pdK"] and o["pdS"] and o["cqm"] == o["qm"] and o["cqS"] == o["qS"] and o["rootOK"]
    ok = ok and o["cu"]["mean"] == o["d"]["mean"] and o["cu"]["cov"] == o["d"]["cov"]
    if o["white"]:
        ok = ok and o["cw"]["mean"] == o["w"]["mean"] and o["cw"]["cov"] == o["w"]["cov"]
        ok = ok and o["cu2"]["mean"] == o["cw"]["mean"] and o["cu2"]["cov"] == o["cw"]["cov"]
        ok = ok and o["cl"]["mean"] == o["d"]["mean"] and o["cl"]["cov"] == o["d"]["cov"]
        ok = ok and o["cl"]["tr"] == o["d"]["kl"]["tr"] and o["cl"]["quad"] == o["d"]["kl"]["quad"]
        ok = ok and o["d"]["kl"]["detS"] == rmul(o["d"]["kl"]["detK"], o["cl"]["detS"])
    return ok


def canon(v):
    """TLC dump values and mirror values in one comparable form (tuples, dicts)"""
    if isinstance(v, dict):
        return {str(k): canon(x) for k, x in v.items()}
    if isinstance(v, (list, tuple)):
        return tuple(canon(x) for x in v)
    return v
