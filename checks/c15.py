"""C15 - variational objectives equal their definition; the ELBO is a lower bound, maximal at the collapsed (Titsias) bound, which one
natural-gradient step of size one reaches.
Spec: VarObjective.tla
  "assembly": objective assembly over distinguishable stubs (whole lattice, exact rationals) -> decoded on the REAL objective classes;
  "bound":    exact rational instances x q(u) family: N*ELBO(q) = collapsed - KL(q || q_opt), piece by piece -> real SVGP models on the
              same integer instances (linear kernel, jitter 0) must return TLC's exact pieces;
  "ngd":      natural-gradient loop machine on rational instances (histories of NGD steps of size 1 and 1/2 and lr-0 hyperparameter
              steps) -> the real NaturalVariationalDistribution + gpytorch.optim.NGD must pass through TLC's exact q(u) after every action;
  "lattice":  cells of the float64 replay on seeded SVGP models (strategy x kernel x mean x q family / distribution x start);
              "noise" cells (FixedNoiseGaussianLikelihood x learn_additional_noise x minibatch index sequence x per-call noise= keyword) and
              "hist" cells (state machine over the history of the raw variational parameters of every variational distribution class:
              optimiser steps, dense raw tensors loaded through state_dict / assignment).
  "tree":     the module tree below the objective x where added loss terms / priors are registered in it (0..3 registrations, equal and
              different local names in different sub-modules, one object in several slots, None terms, a sub-module reachable along two
              paths) x objective class -> stub trees decoded on the REAL objective classes (both values of combine_terms);
              "comp" cells of the lattice: the same dimension on real components (0..3 VariationalLatentVariable blocks, which all register
              "x_kl"; additive kernels whose parts carry priors under equal local names) against the closed-form definition.
Round 2: the objective is compared with the dense definition evaluated at the q(u) that variational_distribution() REPORTS (not only with
the model's own q(f) / KL); the rational instances carry a per-point noise vector (non-constant = FixedNoiseGaussianLikelihood) and every
q(u) is also handed over through a dense (non-triangular) raw factor."""
import math
import os
import random
from fractions import Fraction

from harness import core, tlc
from checks import c15_instances as frozen

LEVEL = "model_checking"
PID = "C15"

# Repairs of VarObjective.tla that are present in the tree under test; () models the pinned code (kl.div(num_data / beta) raises for
# beta = 0).  After committing a fix to /repo add "beta_mul" here, otherwise the check still passes but reports MODEL-DRIFT.
ALL_REPAIRS = ("beta_mul",)
REPAIRS_IN_TREE = ("beta_mul",)  # fix: commit in /repo (KL scaled by beta / num_data)
if os.environ.get("VERIF_C15_REPAIRS") is not None:
    REPAIRS_IN_TREE = tuple(x for x in os.environ["VERIF_C15_REPAIRS"].split(",") if x in ALL_REPAIRS)

LOG2PI = math.log(2 * math.pi)


# ---------------------------------------------------------------------------------------------
# TLC side
def tla(v):
    if isinstance(v, bool):
        return "TRUE" if v else "FALSE"
    if isinstance(v, int):
        return str(v)
    if isinstance(v, str):
        return '"%s"' % v
    if isinstance(v, (list, tuple)):
        return "<<" + ", ".join(tla(x) for x in v) + ">>"
    if isinstance(v, dict):
        return "[" + ", ".join("%s |-> %s" % (k, tla(x)) for k, x in v.items()) + "]"
    raise TypeError(v)


def write_mc(workdir, name, part, repairs=(), instances=(), invariants=(), properties=(), maxsteps=3, treelevel="quick"):
    os.makedirs(workdir, exist_ok=True)
    mod = "MC_VarObjective_" + name
    with open(os.path.join(workdir, mod + ".tla"), "w") as f:
        f.write("---- MODULE %s ----\nEXTENDS VarObjective\nInstDef == {%s}\n====\n" % (mod, ",\n  ".join(tla(i) for i in instances)))
    cfg = os.path.join(workdir, mod + ".cfg")
    tlc.write_cfg(cfg, spec="Spec", constants={"Part": part, "Repairs": set(repairs), "Instances": "<- InstDef", "MaxSteps": maxsteps, "TreeLevel": treelevel},
                  invariants=list(invariants), properties=list(properties))
    return os.path.join(workdir, mod + ".tla"), cfg


def plain(v):
    """parsed TLA value -> json-able (tuples -> lists)"""
    if isinstance(v, dict):
        return {str(k): plain(x) for k, x in v.items()}
    if isinstance(v, (tuple, list)):
        return [plain(x) for x in v]
    if isinstance(v, (set, frozenset)):
        return sorted((plain(x) for x in v), key=repr)
    if isinstance(v, str):
        return str(v)
    return v


def fr(v):
    return Fraction(int(v[0]), int(v[1]))


def rat(v):
    return float(fr(v))


def inst_key(i):
    nv = plain(i["nv"]) if "nv" in i else [int(i["s2"])] * len(i["X"])
    return repr((plain(i["Z"]), plain(i["X"]), plain(i["y"]), [int(v) for v in nv], int(i["mc"])))


# ---------------------------------------------------------------------------------------------
# (a) stub decoding on the real objective classes
_STUBS = []


def _stub_classes(torch, gpytorch):
    if not _STUBS:
        _STUBS.append(_make_stub_classes(torch, gpytorch))
    return _STUBS[0]


def _make_stub_classes(torch, gpytorch):
    D = torch.float64

    class StubLik(gpytorch.likelihoods.Likelihood):
        """per data point: expected_log_prob = 2^i, log_marginal = 3 * 2^i (a multitask likelihood returns one value per point too)"""

        def forward(self, function_samples, **kw):
            raise RuntimeError("stub likelihood: forward must not be called")

        @staticmethod
        def _factor(kw):
            # the keywords that arrive here: "noise" multiplies the per-point value by 5, "extra" by 7; anything else is a harness error
            if set(kw) - {"noise", "extra"}:
                raise core.Machinery("stub likelihood received unknown keywords %s" % sorted(kw))
            return (5.0 if "noise" in kw else 1.0) * (7.0 if "extra" in kw else 1.0)

        def expected_log_prob(self, target, dist, *a, **kw):
            return self._factor(kw) * torch.tensor([2.0 ** (i + 1) for i in range(dist.event_shape[0])], dtype=D)

        def log_marginal(self, target, dist, *a, **kw):
            return self._factor(kw) * torch.tensor([3 * 2.0 ** (i + 1) for i in range(dist.event_shape[0])], dtype=D)

    class StubStrategy(gpytorch.Module):
        def kl_divergence(self):
            return torch.tensor(1000.0, dtype=D)

    class StubPrior(gpytorch.priors.NormalPrior):
        def __init__(self, k):
            super().__init__(0.0, 1.0)
            self.k = k

        def log_prob(self, x):
            return torch.full(x.shape, 10.0 ** (self.k + 4) / self.k, dtype=D)

    class StubLoss(gpytorch.mlls.AddedLossTerm):
        def loss(self):
            return torch.tensor(7e6, dtype=D)

    def add_priors(module, ks):
        for k in ks:
            module.register_parameter("p%d" % k, torch.nn.Parameter(torch.zeros(k, dtype=D)))
            module.register_prior("p%d_prior" % k, StubPrior(k), "p%d" % k)

    class StubModel(gpytorch.models.ApproximateGP):
        def __init__(self, ks, nl):
            super().__init__(StubStrategy())
            add_priors(self, ks)
            for j in range(nl):
                self.register_added_loss_term("l%d" % j)
                self.update_added_loss_term("l%d" % j, StubLoss())

        def forward(self, x):
            raise RuntimeError("stub model: forward must not be called")

    return StubLik, StubModel, add_priors


def prior_sites(cf):
    """(prior numbers on the model, prior numbers on the likelihood)"""
    ks = list(range(1, cf["np"] + 1))
    site = cf.get("psite", "model")
    if site == "model":
        return ks, []
    if site == "likelihood":
        return [], ks
    return ks[:1], ks[1:]


def cf_desc(cf):
    return "%s B=%d N=%d beta=%s combine_terms=%s priors=%d(on %s) added=%d event-rank=%d keywords=%s" % (
        cf["obj"], cf["B"], cf["N"], Fraction(*cf["beta"]), cf["combine"], cf["np"], cf.get("psite", "model"), cf["nl"], cf["rank"], list(cf.get("kw", [])) or "none")


def run_asm(torch, gpytorch, c):
    cf, exp = c["cf"], c["exp"]
    D = torch.float64
    StubLik, StubModel, add_priors = _stub_classes(torch, gpytorch)
    on_model, on_lik = prior_sites(cf)
    B, N = cf["B"], cf["N"]
    beta = float(Fraction(*cf["beta"]))
    desc = cf_desc(cf)
    nontrivial = cf["B"] > 1 or cf["N"] != cf["B"] or cf["beta"] != [1, 1] or cf["np"] > 0 or cf["nl"] > 0 or bool(cf.get("kw"))
    callkw = {}
    if "noise" in cf.get("kw", []):
        callkw["noise"] = torch.full((B,), 0.25, dtype=torch.float64)
    if "extra" in cf.get("kw", []):
        callkw["extra"] = "anything"
    res = dict(key=["asm", cf], ok=True, nontrivial=nontrivial, predicted=not c["agree"], case=c)
    base = "C15/assembly/%s" % cf["obj"]
    g = torch.Generator().manual_seed(c["seed"])
    if cf["rank"] == 1:
        mean = torch.randn(B, generator=g, dtype=D)
        var = 0.3 + torch.rand(B, generator=g, dtype=D)
        dist = gpytorch.distributions.MultivariateNormal(mean, torch.diag(var))
        y = torch.randn(B, generator=g, dtype=D)
    else:
        dist = gpytorch.distributions.MultitaskMultivariateNormal(torch.randn(B, 2, generator=g, dtype=D), torch.eye(2 * B, dtype=D))
        y = torch.randn(B, 2, generator=g, dtype=D)
    model = StubModel(on_model, cf["nl"])
    kw = dict(num_data=N, beta=beta, combine_terms=cf["combine"])
    coef = {k: fr(v) for k, v in exp["coef"].items()}
    if cf["obj"] == "gamma":
        lik = gpytorch.likelihoods.GaussianLikelihood().to(D)
        lik.noise = 0.5
        add_priors(lik, on_lik)
        # the per-point terms, measured on one-point batches of the same class (B = N = 1: the term enters with factor one)
        pts = []
        for i in range(B):
            di = gpytorch.distributions.MultivariateNormal(mean[i:i + 1], torch.diag(var[i:i + 1]))
            ok, t = core.guarded(lambda: gpytorch.mlls.GammaRobustVariationalELBO(gpytorch.likelihoods.GaussianLikelihood().to(D).initialize(noise=0.5), StubModel([], 0), num_data=1, beta=1.0, combine_terms=False)(di, y[i:i + 1]))
            if not ok:
                res.update(ok=False, sig=base + "/raises", detail="%s: one-point objective raises %s" % (desc, t))
                return res
            pts.append(float(t[0]))
        want_lik = float(coef["lik"]) * sum(pts)
        mk = lambda: gpytorch.mlls.GammaRobustVariationalELBO(lik, model, **kw)   # noqa
    else:
        want_lik = rat(exp["terms"][0])
        cls = gpytorch.mlls.VariationalELBO if cf["obj"] == "elbo" else gpytorch.mlls.PredictiveLogLikelihood
        slik = StubLik()
        add_priors(slik, on_lik)
        mk = lambda: cls(slik, model, **kw)   # noqa
    want_terms = [want_lik, rat(exp["terms"][1]), rat(exp["terms"][2]), rat(exp["terms"][3])]
    want_val = want_terms[0] - want_terms[1] + want_terms[2] - want_terms[3]
    if cf["obj"] != "gamma" and abs(want_val - rat(exp["val"])) > 1e-9 * max(1.0, abs(want_val)):
        return dict(machinery="TLC's value and TLC's terms disagree on %s" % desc)
    ok, got = core.guarded(lambda: mk()(dist, y, **callkw))
    res["sample"] = dict(configuration=desc, expected=(want_val if cf["combine"] else want_terms), coefficients={k: str(v) for k, v in coef.items()})
    if not ok:
        if cf["beta"][0] == 0:
            res.update(ok=False, sig="C15/assembly/beta=0/raises",
                       detail="%s: the definition gives %r (the KL term vanishes) but the objective raises %s" % (desc, want_val, got))
        else:
            res.update(ok=False, sig=base + "/raises", detail="%s: %s" % (desc, got))
        return res
    tol = lambda w: 1e-12 * max(1.0, abs(w)) if cf["obj"] != "gamma" else 1e-10 * max(1.0, abs(w))   # noqa
    if cf["combine"]:
        if isinstance(got, tuple) or got.numel() != 1:
            res.update(ok=False, sig=base + "/combined/shape", detail="%s: expected one value, got %r" % (desc, got))
            return res
        gv = float(got)
        if not abs(gv - want_val) <= tol(want_val):
            res.update(ok=False, sig=base + "/combined/value/rank%d" % cf["rank"],
                       detail="%s: objective %r, definition %r = lik %r - kl %r + prior %r - added %r (difference %.6g)" % (desc, gv, want_val, *want_terms, gv - want_val))
        return res
    if not isinstance(got, tuple) or len(got) not in (3, 4):
        res.update(ok=False, sig=base + "/tuple/shape", detail="%s: expected a tuple of 3 or 4 terms, got %r" % (desc, got))
        return res
    names = ("likelihood", "kl", "prior", "added")
    for k in range(4):
        gv = float(got[k]) if k < len(got) else 0.0
        if not abs(gv - want_terms[k]) <= tol(want_terms[k]):
            res.update(ok=False, sig=base + "/tuple/%s/rank%d" % (names[k], cf["rank"]),
                       detail="%s: %s term %r, definition %r%s" % (desc, names[k], gv, want_terms[k], "" if k < len(got) else " (term missing from the tuple)"))
            return res
    return res


# ---------------------------------------------------------------------------------------------
# (a') the module tree below the objective: where added loss terms and priors are registered (part "tree" of VarObjective.tla)
_TREE = []
TREE_PARVAL = {"L": 1.0, "M": 3.0, "A": 5.0, "B": 7.0, "C": 11.0}      # VarObjective.tla ParVal
TREE_SEED = 151515


def _tree_classes(torch, gpytorch):
    if _TREE:
        return _TREE[0]
    D = torch.float64

    class Sub(gpytorch.Module):
        """a sub-module of the model (a kernel, a latent-variable block, ...)"""

    class TreeLoss(gpytorch.mlls.AddedLossTerm):
        def __init__(self, j):
            self.j = j

        def loss(self):
            return torch.tensor(7.0 * 10.0 ** (self.j + 2), dtype=D)        # VarObjective.tla TermV

    class TreePrior(gpytorch.priors.NormalPrior):
        def __init__(self, p):
            super().__init__(0.0, 1.0)
            self.p = p

        def log_prob(self, x):
            return x * 10.0 ** (self.p + 1)                                 # VarObjective.tla PriorV, element by element

    _TREE.append((Sub, TreeLoss, TreePrior, {}))
    return _TREE[0]


def lay_desc(lay, what):
    return ", ".join("%s.%s=%s" % (r["mod"], r["name"], ("None" if r["id"] == 0 else "%s%d" % (what, r["id"]))) for r in lay) or "none"


def tree_desc(cf):
    shape = {"plain": "M{a:A{c:C}, b:B}", "alias": "M{a:A{c:C}, b:B, a2:A} (A registered twice below M)", "diamond": "M{a:A{c:C}, b:B{c:C}} (C below A and below B)"}[cf["shape"]]
    return "%s on the module tree objective{likelihood:L, model:%s}, minibatch 2 of num_data=10, beta=1/2; added loss terms [%s]; priors [%s]" % (
        cf["obj"], shape, lay_desc(cf["al"], "term"), lay_desc(cf["pl"], "prior"))


def build_tree(torch, gpytorch, cf):
    """the real module tree of a "tree" configuration: (likelihood, model, {label: module})"""
    D = torch.float64
    Sub, TreeLoss, TreePrior, _ = _tree_classes(torch, gpytorch)
    StubLik, StubModel, _ = _stub_classes(torch, gpytorch)
    if cf["obj"] == "gamma":
        lik = gpytorch.likelihoods.GaussianLikelihood().to(D)
        lik.noise = 0.5
    else:
        lik = StubLik()
    mods = dict(L=lik, M=StubModel([], 0), A=Sub(), B=Sub(), C=Sub())
    mods["M"].a = mods["A"]
    mods["M"].b = mods["B"]
    if cf["shape"] == "alias":
        mods["M"].a2 = mods["A"]
    mods["A"].c = mods["C"]
    if cf["shape"] == "diamond":
        mods["B"].c = mods["C"]
    terms = {j: TreeLoss(j) for j in (1, 2, 3)}
    priors = {p: TreePrior(p) for p in (1, 2, 3)}
    for r in cf["al"]:
        if r["mod"] == "L":
            raise core.Machinery("added loss terms are registered below the model only")
        mods[r["mod"]].register_added_loss_term(r["name"])
        if r["id"]:
            mods[r["mod"]].update_added_loss_term(r["name"], terms[r["id"]])
    for r in cf["pl"]:
        mod, par = mods[r["mod"]], r["name"] + "_par"
        mod.register_parameter(par, torch.nn.Parameter(torch.full((1 if r["name"] == "x" else 2,), TREE_PARVAL[r["mod"]], dtype=D)))
        mod.register_prior(r["name"] + "_prior", priors[r["id"]], par)
    return lik, mods["M"], mods


def run_tree(torch, gpytorch, c):
    cf, exp = c["cf"], c["exp"]
    D = torch.float64
    cache = _tree_classes(torch, gpytorch)[3]
    desc = tree_desc(cf)
    B, N, beta = 2, 10, 0.5
    res = dict(key=["tree", cf], ok=True, nontrivial=bool(cf["al"] or cf["pl"]), case=c, n=0)
    base = "C15/tree/%s" % cf["obj"]
    g = torch.Generator().manual_seed(TREE_SEED)
    mean = torch.randn(B, generator=g, dtype=D)
    var = 0.3 + torch.rand(B, generator=g, dtype=D)
    dist = gpytorch.distributions.MultivariateNormal(mean, torch.diag(var))
    y = torch.randn(B, generator=g, dtype=D)
    coef = {k: fr(v) for k, v in exp["coef"].items()}
    if coef["lik"] != Fraction(1, B) or coef["kl"] != Fraction(1, 2 * N) or coef["prior"] != Fraction(1, N):
        return dict(machinery="the fixed cell of the tree part is not B=2, N=10, beta=1/2: %s" % coef)
    lik, model, _ = build_tree(torch, gpytorch, cf)
    if cf["obj"] == "gamma":
        # the per-point terms, measured once per process on one-point batches of the same class without any registration
        if "gamma" not in cache:
            _, StubModel, _ = _stub_classes(torch, gpytorch)
            pts = []
            for i in range(B):
                di = gpytorch.distributions.MultivariateNormal(mean[i:i + 1], torch.diag(var[i:i + 1]))
                ok, t = core.guarded(lambda: gpytorch.mlls.GammaRobustVariationalELBO(gpytorch.likelihoods.GaussianLikelihood().to(D).initialize(noise=0.5), StubModel([], 0), num_data=1, beta=1.0, combine_terms=False)(di, y[i:i + 1]))
                if not ok:
                    res.update(ok=False, sig=base + "/raises", detail="%s: one-point objective raises %s" % (desc, t))
                    return res
                pts.append(float(t[0]))
            cache["gamma"] = sum(pts) / B
        want_lik = cache["gamma"]
        cls = gpytorch.mlls.GammaRobustVariationalELBO
        tol = lambda w: 1e-10 * max(1.0, abs(w))   # noqa
    else:
        want_lik = rat(exp["terms"][0])
        cls = gpytorch.mlls.VariationalELBO if cf["obj"] == "elbo" else gpytorch.mlls.PredictiveLogLikelihood
        tol = lambda w: 1e-12 * max(1.0, abs(w))   # noqa
    want_terms = [want_lik, rat(exp["terms"][1]), rat(exp["terms"][2]), rat(exp["terms"][3])]
    want_val = want_terms[0] - want_terms[1] + want_terms[2] - want_terms[3]
    if cf["obj"] != "gamma" and abs(want_val - rat(exp["val"])) > 1e-9 * max(1.0, abs(want_val)):
        return dict(machinery="TLC's value and TLC's terms disagree on %s" % desc)
    res["sample"] = dict(configuration=desc, expected_terms=want_terms, expected_value=want_val)
    names = ("likelihood", "kl", "prior", "added")

    def seen():
        ok, v = core.guarded(lambda: ([nm for nm, _ in model.named_added_loss_terms()], [t[0] for t in cls(lik, model, num_data=N).named_priors()]))
        return "named_added_loss_terms() = %s, named_priors() = %s" % (v[0], v[1]) if ok else "the generators raise %s" % v
    # combine_terms=False: the tuple lists the definition's terms
    ok, got = core.guarded(lambda: cls(lik, model, num_data=N, beta=beta, combine_terms=False)(dist, y))
    res["n"] += 1
    if not ok:
        res.update(ok=False, sig=base + "/raises", detail="%s: combine_terms=False raises %s" % (desc, got))
        return res
    if not isinstance(got, tuple) or len(got) not in (3, 4):
        res.update(ok=False, sig=base + "/tuple/shape", detail="%s: expected a tuple of 3 or 4 terms, got %r" % (desc, got))
        return res
    for k in range(4):
        gv = float(got[k]) if k < len(got) else 0.0
        if not abs(gv - want_terms[k]) <= tol(want_terms[k]):
            res.update(ok=False, sig=base + "/tuple/%s" % names[k],
                       detail="%s: %s term %r%s, definition %r (every added loss term OBJECT below the model once; every prior registration (module, local name) below the "
                              "objective once, 1/N of the log density of its own parameter); %s" % (desc, names[k], gv, "" if k < len(got) else " (term missing from the tuple)", want_terms[k], seen()))
            return res
    # combine_terms=True
    ok, got = core.guarded(lambda: cls(lik, model, num_data=N, beta=beta, combine_terms=True)(dist, y))
    res["n"] += 1
    if not ok:
        res.update(ok=False, sig=base + "/raises", detail="%s: combine_terms=True raises %s" % (desc, got))
        return res
    if isinstance(got, tuple) or got.numel() != 1:
        res.update(ok=False, sig=base + "/combined/shape", detail="%s: expected one value, got %r" % (desc, got))
        return res
    if not abs(float(got) - want_val) <= tol(want_val):
        res.update(ok=False, sig=base + "/combined/value", detail="%s: objective %r, definition %r = lik %r - kl %r + prior %r - added %r (difference %.6g); %s" % (
            desc, float(got), want_val, *want_terms, float(got) - want_val, seen()))
    return res


# ---------------------------------------------------------------------------------------------
# real SVGP models
STRATS = ("whitened", "unwhitened")


def build_model(torch, gpytorch, strat, dist, Z, kernel, mean, jitter=None):
    V = gpytorch.variational
    scls = V.VariationalStrategy if strat == "whitened" else V.UnwhitenedVariationalStrategy
    dcls = {"cholesky": V.CholeskyVariationalDistribution, "natural": V.NaturalVariationalDistribution, "tril": V.TrilNaturalVariationalDistribution,
            "meanfield": V.MeanFieldVariationalDistribution, "delta": V.DeltaVariationalDistribution}[dist]

    class SVGP(gpytorch.models.ApproximateGP):
        def __init__(s_):
            vd = dcls(Z.size(-2), batch_shape=Z.shape[:-2])
            kw = {} if jitter is None else dict(jitter_val=jitter)
            super().__init__(scls(s_, Z, vd, learn_inducing_locations=False, **kw))
            s_.mean_module = mean
            s_.covar_module = kernel

        def forward(s_, x):
            return gpytorch.distributions.MultivariateNormal(s_.mean_module(x), s_.covar_module(x))
    return SVGP().to(torch.float64)


def prior_blocks(torch, model, X, jit, bi=None):
    """the prior the model evaluates to: Kzz (+ jitter, as the strategy adds it), Kzx, diag Kxx, Kxx, mz, mx (of batch element bi)"""
    pick = (lambda t: t) if bi is None else (lambda t: t[bi])
    with torch.no_grad():
        Z = model.variational_strategy.inducing_points
        Kzz = pick(model.covar_module(Z).to_dense()) + jit * torch.eye(Z.size(-2), dtype=torch.float64)
        Kzx = pick(model.covar_module(Z, X).to_dense())
        Kxx = pick(model.covar_module(X).to_dense())
        return dict(Kzz=Kzz.clone(), Kzx=Kzx.clone(), Kxx=Kxx.clone(), mz=pick(model.mean_module(Z)).clone(), mx=pick(model.mean_module(X)).clone(),
                    L=torch.linalg.cholesky(Kzz))


RAW_NAMES = {"cholesky": ("variational_mean", "chol_variational_covar"), "natural": ("natural_vec", "natural_mat"), "tril": ("natural_vec", "natural_tril_mat"),
             "meanfield": ("variational_mean", "_variational_stddev"), "delta": ("variational_mean",)}


def structured_raw(torch, strat, dist, P, m, S):
    """the raw parameter tensors (in their documented, structured form) that make the distribution report q(u) = N(m, S), u = f(Z)"""
    if strat == "whitened":
        mw = torch.linalg.solve_triangular(P["L"], (m - P["mz"]).unsqueeze(-1), upper=False).squeeze(-1)
        Sw = torch.linalg.solve_triangular(P["L"], torch.linalg.solve_triangular(P["L"], S, upper=False).transpose(-1, -2), upper=False)
        Sw = 0.5 * (Sw + Sw.transpose(-1, -2))
    else:
        mw, Sw = m, S
    if dist == "cholesky":
        return [mw, torch.linalg.cholesky(Sw)]
    if dist == "meanfield":       # diagonal q(u) in the strategy's own coordinates
        return [mw, Sw.diagonal().sqrt()]
    if dist == "delta":
        return [mw]
    Pw = torch.linalg.inv(Sw)
    Pw = 0.5 * (Pw + Pw.transpose(-1, -2))
    if dist == "natural":
        return [Pw @ mw, -0.5 * Pw]
    Lw = torch.linalg.cholesky(Sw)      # S = L L^T,  natural_tril_mat = L^-1  (S^-1 = T^T T)
    return [Pw @ mw, torch.linalg.solve_triangular(Lw, torch.eye(Sw.size(-1), dtype=torch.float64), upper=False)]


def densify(torch, dist, raw, junk):
    """the same q(u) through raw tensors in GENERIC position: entries above the diagonal of the Cholesky factor / of the natural matrices
    (junk: M x M, only its strict upper triangle is used), negative standard deviations; these are not parameters of q(u)"""
    raw = [t.clone() for t in raw]
    if dist in ("cholesky", "natural", "tril"):
        raw[1] = raw[1] + junk.triu(1)
    elif dist == "meanfield":
        raw[1] = raw[1] * torch.where(junk.diagonal() < 0, -1.0, 1.0).to(raw[1].dtype)
    return raw


def put_raw(torch, model, dist, raw, how="assign", bi=None):
    """hand raw tensors to the variational distribution: in-place assignment or load_state_dict of a checkpoint"""
    vs = model.variational_strategy
    vd = vs._variational_distribution
    names = RAW_NAMES[dist]
    if how == "state_dict":
        sd = {k: v.clone() for k, v in model.state_dict().items()}
        for nm, t in zip(names, raw):
            key = "variational_strategy._variational_distribution." + nm
            if key not in sd:
                raise core.Machinery("state_dict has no entry %s" % key)
            if bi is None:
                sd[key] = t.clone()
            else:
                sd[key][bi] = t
        sd["variational_strategy.variational_params_initialized"] = torch.tensor(1)
        model.load_state_dict(sd)
    else:
        with torch.no_grad():
            for nm, t in zip(names, raw):
                par = getattr(vd, nm)
                (par if bi is None else par[bi]).copy_(t)
            vs.variational_params_initialized.fill_(1)


def set_q(torch, model, strat, dist, P, m, S, bi=None, junk=None, how="assign"):
    """put q(u) = N(m, S) (distribution of u = f(Z) itself) into the model's variational parameters (of batch element bi); junk: hand the
    raw tensors over in generic (dense) position"""
    raw = structured_raw(torch, strat, dist, P, m, S)
    if junk is not None:
        raw = densify(torch, dist, raw, junk)
    put_raw(torch, model, dist, raw, how, bi)


def get_q(torch, model, strat, P, bi=None):
    """q(u) of u = f(Z) as the model's variational distribution states it (mean, covariance) (of batch element bi)"""
    vs = model.variational_strategy
    vs._clear_cache()
    pick = (lambda t: t) if bi is None else (lambda t: t[bi])
    with torch.no_grad():
        q = vs.variational_distribution
        mw = pick(q.mean).clone()
        Sw = pick(q.covariance_matrix).clone() if hasattr(q, "covariance_matrix") else torch.zeros(mw.numel(), mw.numel(), dtype=mw.dtype)     # Delta: a point
    if strat == "whitened":
        return P["mz"] + P["L"] @ mw, P["L"] @ Sw @ P["L"].T
    return mw, Sw


def objective(torch, gpytorch, cls, model, lik, Xb, yb, N, beta=1.0, call_kw=None, **kw):
    """value of the real objective on a batch + the model's own q(f) marginals and KL; call_kw: keywords of the call (forwarded to the likelihood)"""
    model.train()
    lik.train()
    mll = cls(lik, model, num_data=N, beta=beta, **kw)
    out = model(Xb)
    val = mll(out, yb, **(call_kw or {}))
    with torch.no_grad():
        return val, out.mean.detach().clone(), out.variance.detach().clone(), model.variational_strategy.kl_divergence().detach().clone()


# ---------------------------------------------------------------------------------------------
# (L1) rational instances through the real classes
def inst_nv(inst):
    return [int(v) for v in inst["nv"]] if "nv" in inst else [int(inst["s2"])] * len(inst["X"])


def rational_model(torch, gpytorch, inst, strat, dist, likv=None):
    """likv: "gaussian" (homoskedastic instances), "fixed" = FixedNoiseGaussianLikelihood(noise=nv), "fixed_learn" = the same noise split
    into a stored part nv - 1/2 and a learned homoskedastic part 1/2 (learn_additional_noise=True)"""
    D = torch.float64
    Z = torch.tensor(inst["Z"], dtype=D)
    X = torch.tensor(inst["X"], dtype=D)
    y = torch.tensor(inst["y"], dtype=D)
    nv = inst_nv(inst)
    likv = likv or ("gaussian" if len(set(nv)) == 1 else "fixed")
    model = build_model(torch, gpytorch, strat, dist, Z, gpytorch.kernels.LinearKernel(), gpytorch.means.ConstantMean(), jitter=0.0)
    nvt = torch.tensor(nv, dtype=D)
    with torch.no_grad():
        if likv == "gaussian":
            if len(set(nv)) != 1:
                raise core.Machinery("a homoskedastic likelihood for a heteroskedastic instance")
            lik = gpytorch.likelihoods.GaussianLikelihood().to(D)
            lik.noise = float(nv[0])
        elif likv == "fixed":
            lik = gpytorch.likelihoods.FixedNoiseGaussianLikelihood(noise=nvt.clone()).to(D)
        else:
            lik = gpytorch.likelihoods.FixedNoiseGaussianLikelihood(noise=nvt - 0.5, learn_additional_noise=True).to(D)
            lik.second_noise = 0.5
        model.covar_module.variance = 1.0
        model.mean_module.constant = float(inst["mc"])
    eff = lik.noise.detach().reshape(-1)
    if float((eff - nvt).abs().max() if eff.numel() == nvt.numel() else (eff - nvt[0]).abs().max()) > 1e-12 or abs(float(model.covar_module.variance) - 1.0) > 1e-12:
        raise core.Machinery("could not set integer hyperparameters exactly")
    model.train()
    lik.train()
    model(X)           # first call: initialises the variational parameters (overwritten below)
    return model, lik, X, y, prior_blocks(torch, model, X, 0.0)


def tmat(torch, M):
    return torch.tensor([[rat(v) for v in row] for row in M], dtype=torch.float64)


def tvec(torch, v):
    return torch.tensor([rat(x) for x in v], dtype=torch.float64)


def noise_kw(torch, likv, nv, idx):
    """the per-call noise= keyword for the minibatch idx (values the caller gathers with the batch): the stored part of the noise"""
    t = torch.tensor([float(nv[i]) for i in idx], dtype=torch.float64)
    return t - 0.5 if likv == "fixed_learn" else t


def run_rat(torch, gpytorch, c):
    inst, ql, strat, o = c["inst"], c["q"], c["strat"], c["out"]
    raw, how, likv = c.get("raw", "tri"), c.get("how", "assign"), c.get("likv")
    n = len(inst["X"])
    nv = inst_nv(inst)
    likv = likv or ("gaussian" if len(set(nv)) == 1 else "fixed")
    desc = "rational instance Z=%s X=%s y=%s noise=%s mean=%d (%s likelihood), q(u)=%s handed over as a %s raw factor (%s), %s strategy" % (
        inst["Z"], inst["X"], inst["y"], nv, inst["mc"], likv, ql, "dense" if raw == "dense" else "lower-triangular", how, strat)
    res = dict(key=["rat", inst_key(inst), ql, strat, raw, how, likv], ok=True, nontrivial=ql != "prior", case=c)
    base = "C15/rational/%s" % strat
    # TLC's exact pieces in float
    ell = [-0.5 * math.log(2 * math.pi * nv[k]) + rat(v) for k, v in enumerate(o["ell"])]
    kl = rat(o["klr"]) + 0.5 * math.log(fr(o["kla"]))
    elbo = -0.5 * n * LOG2PI - 0.5 * math.log(fr(o["ea"])) + rat(o["er"])
    coll = -0.5 * n * LOG2PI - 0.5 * math.log(fr(o["ca"])) + rat(o["cr"])
    marg = -0.5 * n * LOG2PI - 0.5 * math.log(fr(o["ma"])) + rat(o["mr"])
    if abs(sum(ell) - kl - elbo) > 1e-9 * max(1.0, abs(elbo)) or elbo > coll + 1e-9 * max(1, abs(coll)) or coll > marg + 1e-9 * max(1, abs(marg)):
        return dict(machinery="TLC's pieces are inconsistent (ELBO %r, sum ell - KL %r, collapsed %r, marginal %r) on %s" % (elbo, sum(ell) - kl, coll, marg, desc))
    qm, qS = tvec(torch, o["qm"]), tmat(torch, o["qS"])
    try:
        model, lik, X, y, P = rational_model(torch, gpytorch, inst, strat, "cholesky", likv)
        rawC = tmat(torch, o["rawC"])
        junk = None
        if raw == "dense":
            g = torch.Generator().manual_seed(c.get("seed", 0))
            junk = rawC if ql == "raw" else torch.randn(qS.shape, generator=g, dtype=torch.float64) + 0.5   # entries above the diagonal: not parameters of q(u)
        if ql == "raw":
            # TLC's family member is DEFINED through the raw factor RawC: covariance Tril(RawC) Tril(RawC)^T; the unwhitened strategy receives
            # RawC itself (exact integers), the whitened one the factor of the whitened covariance (L^-1 Tril(RawC), lower triangular)
            T = rawC.tril()
            if float((T @ T.T - qS).abs().max()) > 1e-12:
                return dict(machinery="TLC's raw family member is not Tril(RawC) Tril(RawC)^T on %s" % desc)
            Tw = T if strat == "unwhitened" else torch.linalg.solve_triangular(P["L"], T, upper=False)
            mw = qm if strat == "unwhitened" else torch.linalg.solve_triangular(P["L"], (qm - P["mz"]).unsqueeze(-1), upper=False).squeeze(-1)
            put_raw(torch, model, "cholesky", [mw, Tw + (junk.triu(1) if junk is not None else 0.0)], how)
        else:
            set_q(torch, model, strat, "cholesky", P, qm, qS, junk=junk, how=how)
    except core.Machinery:
        raise
    except Exception as e:   # noqa
        res.update(ok=False, sig=base + "/raises", detail="%s: building the model raises %s: %s" % (desc, type(e).__name__, e))
        return res
    V = gpytorch.mlls.VariationalELBO
    rt, at = 1e-8, 1e-10
    # the q(u) the variational distribution reports must be the one that was handed over (a difference is a disagreement about the
    # parametrisation, reported with the objective's value below: the objective is judged at the REPORTED q(u))
    rm, rS = get_q(torch, model, strat, P)
    same_q = core.close(rm, qm, 1e-9, 1e-11)[0] and core.close(rS, qS, 1e-9, 1e-11)[0]
    ok, got = core.guarded(lambda: objective(torch, gpytorch, V, model, lik, X, y, n))
    if not ok:
        res.update(ok=False, sig=base + "/raises", detail="%s: %s" % (desc, got))
        return res
    val, mu, var, klv = got
    if not same_q:
        # exact definition at the reported q(u) in float64 (jitter 0, well-conditioned 2 x 2 / 1 x 1 blocks)
        nvt = torch.tensor([float(v) for v in nv], dtype=torch.float64)
        d = definition_at_q(torch, P, rm, rS, list(range(n)), y, nvt, n, 1.0, 0.0, strat, "cholesky")
        okd, why = core.close(float(val), d["elbo"][0], 1e-7, 1e-9)
        if not okd:
            res.update(ok=False, sig=base + "/reported-q/%s-raw" % raw, detail="%s: the variational distribution reports q(u) = N(%s, %s) (handed over: N(%s, %s)); VariationalELBO = %r but the "
                       "definition evaluated at the reported q(u) is %r: %s" % (desc, rm.tolist(), rS.tolist(), qm.tolist(), qS.tolist(), float(val), d["elbo"][0], why))
            return res
        res["drift"] = "%s: the reported q(u) differs from the lower-triangle reading of the raw factor (objective consistent with the reported q(u))" % desc
        return res
    ok, why = core.close(float(val) * n, elbo, rt, at)
    if not ok:
        okm, _ = core.close(mu, tvec(torch, o["mu"]), rt, at)
        okv, _ = core.close(var, tvec(torch, o["v"]), rt, at)
        okk, _ = core.close(float(klv), kl, rt, at)
        cause = "; q(f) mean %s, q(f) variance %s, KL %s" % ("ok" if okm else "differs", "ok" if okv else "differs", "ok" if okk else "differs (%r vs %r)" % (float(klv), kl))
        res.update(ok=False, sig=base + "/elbo-value", detail="%s: N * ELBO = %r, exact value %r: %s%s" % (desc, float(val) * n, elbo, why, cause))
        return res
    if float(val) * n > marg + 1e-9 * max(1.0, abs(marg)):
        res.update(ok=False, sig=base + "/bound", detail="%s: N * ELBO = %r exceeds the exact log marginal likelihood %r" % (desc, float(val) * n, marg))
        return res
    if ql == "post":
        ok, why = core.close(float(val) * n, coll, rt, at)
        if not ok:
            res.update(ok=False, sig=base + "/collapsed-attained", detail="%s: at the optimal q(u) N * ELBO = %r, collapsed bound %r: %s" % (desc, float(val) * n, coll, why))
            return res
    # minibatch / num_data / beta scaling of the same q: definition assembled from TLC's exact per-point terms; a likelihood with known
    # per-point noise receives the minibatch's noise through the objective's noise= keyword (also for a permuted full batch)
    for (idx, N, beta) in c["batches"]:
        Xb, yb = X[idx], y[idx]
        want = sum(ell[i] for i in idx) / len(idx) - beta / N * kl
        ckw = None if likv == "gaussian" else dict(noise=noise_kw(torch, likv, nv, idx))
        ok, got = core.guarded(lambda: objective(torch, gpytorch, V, model, lik, Xb, yb, N, beta, call_kw=ckw))
        if not ok:
            res.update(ok=False, sig=base + "/minibatch/raises", detail="%s minibatch %s N=%d beta=%s: %s" % (desc, idx, N, beta, got))
            return res
        ok, why = core.close(float(got[0]), want, rt, at)
        if not ok:
            res.update(ok=False, sig=base + "/minibatch-scaling" + ("" if likv == "gaussian" else "/noise-keyword"), detail="%s: minibatch %s%s, num_data=%d, beta=%s: objective %r, definition %r: %s" % (
                desc, idx, "" if ckw is None else " with noise=%s" % ckw["noise"].tolist(), N, beta, float(got[0]), want, why))
            return res
    res["sample"] = dict(case=desc, N_ELBO=elbo, collapsed=coll, log_marginal=marg)
    return res


def run_ngdrat(torch, gpytorch, c):
    inst, strat, hist, exp = c["inst"], c["strat"], c["hist"], c["exp"]
    n = len(inst["X"])
    desc = "rational instance Z=%s X=%s y=%s noise=%s mean=%d, start %s, %s strategy, history %s" % (inst["Z"], inst["X"], inst["y"], inst_nv(inst), inst["mc"], c["q0"], strat, hist)
    res = dict(key=["ngdrat", inst_key(inst), c["q0"], strat, hist], ok=True, nontrivial=len(hist) >= 2, case=c, n=len(hist))
    base = "C15/ngd-rational/%s" % strat
    try:
        model, lik, X, y, P = rational_model(torch, gpytorch, inst, strat, "natural")
        set_q(torch, model, strat, "natural", P, tvec(torch, exp[0]["m"]), tmat(torch, exp[0]["S"]))
    except core.Machinery:
        raise
    except Exception as e:   # noqa
        res.update(ok=False, sig=base + "/raises", detail="%s: building the model raises %s: %s" % (desc, type(e).__name__, e))
        return res
    vd = model.variational_strategy._variational_distribution
    nat = [vd.natural_vec, vd.natural_mat]
    hyper = [p for nm, p in list(model.named_parameters()) + list(lik.named_parameters()) if all(p is not q for q in nat)]
    opts = {"ngd1": gpytorch.optim.NGD(nat, num_data=n, lr=1.0), "ngdhalf": gpytorch.optim.NGD(nat, num_data=n, lr=0.5), "hyper": torch.optim.SGD(hyper, lr=0.0)}
    mll = gpytorch.mlls.VariationalELBO(lik, model, num_data=n)

    def act(a):
        for o in opts.values():
            o.zero_grad()
        loss = -mll(model(X), y)
        loss.backward()
        opts[a].step()
    for k, a in enumerate(hist):
        ok, err = core.guarded(act, a)
        if not ok:
            res.update(ok=False, sig=base + "/raises", detail="%s: action %d (%s) raises %s" % (desc, k + 1, a, err))
            return res
        m, S = get_q(torch, model, strat, P)
        wm, wS, lab = tvec(torch, exp[k + 1]["m"]), tmat(torch, exp[k + 1]["S"]), exp[k + 1]["lab"]
        okm, whym = core.close(m, wm, 1e-7, 1e-9)
        okS, whyS = core.close(S, wS, 1e-7, 1e-9)
        if not (okm and okS):
            prev = exp[k]["lab"]
            clause = "one-step-optimal" if (a == "ngd1" and prev != "optimum") else ("fixed-point" if prev == "optimum" else "step")
            res.update(ok=False, sig=base + "/" + clause, detail="%s: after action %d (%s) q(u) must be %s (mean %s, covariance %s); got mean %s covariance %s: %s %s" % (
                desc, k + 1, a, lab, wm.tolist(), wS.tolist(), m.tolist(), S.tolist(), whym, whyS))
            return res
    return res


# ---------------------------------------------------------------------------------------------
# (L2) seeded SVGP models
# registered priors of the real-model cells: (site, parameter, family, arguments); the definition adds (1/N) sum of their log densities
PRIOR_SPECS = {"lengthscale": ("gamma", 3.0, 6.0), "outputscale": ("gamma", 2.0, 0.5), "constant": ("normal", 0.0, 2.0), "noise": ("gamma", 1.5, 3.0)}


def _prior(gpytorch, name):
    fam, a, b = PRIOR_SPECS[name]
    return gpytorch.priors.GammaPrior(a, b) if fam == "gamma" else gpytorch.priors.NormalPrior(a, b)


def make_kernel(torch, gpytorch, kern, d, ls, osc, bs, with_priors=False):
    """ScaleKernel(base) with batch shape bs; ls: (*bs, 1, 1 or d), osc: bs"""
    K = gpytorch.kernels
    kw = dict(lengthscale_prior=_prior(gpytorch, "lengthscale")) if with_priors else {}
    if kern == "matern":
        base = K.MaternKernel(nu=1.5, batch_shape=bs, **kw)
    elif kern == "rbf":
        base = K.RBFKernel(batch_shape=bs, **kw)
    else:
        base = K.RBFKernel(ard_num_dims=d, batch_shape=bs, **kw)
    k = K.ScaleKernel(base, batch_shape=bs, **(dict(outputscale_prior=_prior(gpytorch, "outputscale")) if with_priors else {})).to(torch.float64)
    k.base_kernel.lengthscale = ls
    k.outputscale = osc
    return k


def draw_element(torch, gpytorch, cell, g, n, m, d):
    """one GP regression problem (data, inducing points, hyperparameter values); None when no well-conditioned instance is found"""
    D = torch.float64
    u = lambda lo, hi, *sh: lo + (hi - lo) * torch.rand(*sh, generator=g, dtype=D)   # noqa
    kern = cell["kern"]
    ls = u(0.4, 0.9, 1, 1) if kern == "rbf" else (u(0.5, 1.2, 1, 1) if kern == "matern" else u(0.4, 1.0, 1, d))
    osc = u(0.7, 1.8, 1)[0]
    mc = float(torch.randn(1, generator=g, dtype=D) * 0.5) if cell["mean"] == "constant" else 0.0
    noise = float(osc) * float(0.08 + 0.3 * torch.rand(1, generator=g, dtype=D))
    kernel = make_kernel(torch, gpytorch, kern, d, ls, osc, torch.Size([]))
    X = torch.rand(n, d, generator=g, dtype=D) * 2
    y = torch.sin(2 * X[:, 0]) + 0.5 * X[:, 1] + 0.3 * torch.randn(n, generator=g, dtype=D) + mc
    with torch.no_grad():
        if cell["sec"] == "equal":          # the inducing points are the data inputs
            for attempt in range(30):
                if float(torch.linalg.cond(kernel(X[:m]).to_dense())) <= 1e4:
                    break
                X = torch.rand(n, d, generator=g, dtype=D) * 2
            else:
                return None
            X, y = X[:m].clone(), y[:m].clone()
            Z = X.clone()
        else:
            for attempt in range(30):
                Z = torch.rand(m, d, generator=g, dtype=D) * 2
                if float(torch.linalg.cond(kernel(Z).to_dense())) <= 1e4:
                    break
            else:
                return None
        if float(torch.linalg.cond(kernel(X).to_dense() + noise * torch.eye(X.size(0), dtype=D))) > 1e4:
            return None
    return dict(X=X, y=y, Z=Z, ls=ls, osc=osc, mc=mc, noise=noise)


def seeded_problem(torch, gpytorch, cell, seed, dist):
    """data, model, likelihood of a lattice cell (batch shape () / (1,) / (2,): independent problems stacked); None when no
    well-conditioned instance is found"""
    D = torch.float64
    g = torch.Generator().manual_seed(seed)
    d = 2
    n = 8 + int(torch.randint(0, 6, (1,), generator=g))
    m = 3 + int(torch.randint(0, 3, (1,), generator=g))
    nb = cell.get("batch", 0)
    els = [draw_element(torch, gpytorch, cell, g, n, m, d) for _ in range(max(1, nb))]
    if any(e is None for e in els):
        return None
    bs = torch.Size([nb]) if nb else torch.Size([])
    st = (lambda key: torch.stack([e[key] for e in els])) if nb else (lambda key: els[0][key])
    sites = {"none": (), "model": ("model",), "likelihood": ("likelihood",), "both": ("model", "likelihood")}[cell.get("priors", "none")]
    kernel = make_kernel(torch, gpytorch, cell["kern"], d, st("ls"), st("osc"), bs, with_priors="model" in sites)
    if cell["mean"] == "constant":
        mean = gpytorch.means.ConstantMean(batch_shape=bs, **(dict(constant_prior=_prior(gpytorch, "constant")) if "model" in sites else {})).to(D)
        mean.constant = torch.tensor([e["mc"] for e in els], dtype=D) if nb else els[0]["mc"]
    else:
        mean = gpytorch.means.ZeroMean(batch_shape=bs).to(D)
    lik = gpytorch.likelihoods.GaussianLikelihood(batch_shape=bs, **(dict(noise_prior=_prior(gpytorch, "noise")) if "likelihood" in sites else {})).to(D)
    lik.noise = torch.tensor([[e["noise"]] for e in els], dtype=D) if nb else els[0]["noise"]
    model = build_model(torch, gpytorch, cell["strat"], dist, st("Z"), kernel, mean)
    return model, lik, st("X"), st("y"), g, sites


def log_prior_sum(torch, model, lik, sites):
    """sum of the log densities of every registered prior, from torch.distributions and the constrained parameter values"""
    import torch.distributions as td
    vals = []
    if "model" in sites:
        vals += [("lengthscale", model.covar_module.base_kernel.lengthscale), ("outputscale", model.covar_module.outputscale)]
        if hasattr(model.mean_module, "constant"):
            vals.append(("constant", model.mean_module.constant))
    if "likelihood" in sites:
        vals.append(("noise", lik.noise))
    tot = 0.0
    for name, v in vals:
        fam, a, b = PRIOR_SPECS[name]
        dist = td.Gamma(torch.tensor(a, dtype=torch.float64), torch.tensor(b, dtype=torch.float64)) if fam == "gamma" else td.Normal(torch.tensor(a, dtype=torch.float64), torch.tensor(b, dtype=torch.float64))
        tot += float(dist.log_prob(v.detach()).sum())
    return tot, len(vals)


def logn(torch, y, mean, C):
    Lc = torch.linalg.cholesky(C)
    r = torch.linalg.solve_triangular(Lc, (y - mean).unsqueeze(-1), upper=False).squeeze(-1)
    return float(-0.5 * r.dot(r) - Lc.diagonal().log().sum() - 0.5 * y.numel() * LOG2PI)


def reference(torch, P, y, s2, jit):
    """exact log marginal, collapsed bound and optimal q(u) on the model's own prior blocks (Kzz includes the strategy's jitter); s2: the
    noise variance (a number) or the per-point noise variances (a vector)"""
    n = y.numel()
    I = torch.eye(n, dtype=torch.float64)
    sv = torch.as_tensor(s2, dtype=torch.float64).reshape(-1)
    sv = sv.expand(n).clone() if sv.numel() == 1 else sv
    if sv.numel() != n:
        raise core.Machinery("noise vector of %d entries for %d points" % (sv.numel(), n))
    Dn = torch.diag(sv)
    Kzz, Kzx, Kxx, mz, mx = P["Kzz"], P["Kzx"], P["Kxx"], P["mz"], P["mx"]
    Q = Kzx.T @ torch.cholesky_solve(Kzx, P["L"])
    ex = logn(torch, y, mx, Kxx + Dn)
    exj = logn(torch, y, mx, Kxx + Dn + jit * I)
    tr = float(((Kxx.diagonal() - Q.diagonal()) / (2 * sv)).sum())
    col0 = logn(torch, y, mx, Q + Dn) - tr
    col1 = col0 - float((jit / (2 * sv)).sum())             # the strategy also added the jitter to the diagonal of Kxx
    Sg = torch.linalg.inv(Kzz + (Kzx / sv) @ Kzx.T)
    Ss = Kzz @ Sg @ Kzz
    Ss = 0.5 * (Ss + Ss.T)
    ms = mz + Kzz @ Sg @ (Kzx / sv) @ (y - mx)
    return dict(ex=ex, exj=exj, col0=col0, col1=col1, ms=ms, Ss=Ss, tr=tr)


def definition_at_q(torch, P, m, S, idx, yb, sv, N, beta, jit, strat, dist):
    """VariationalELBO / PredictiveLogLikelihood of the minibatch idx straight from the definition, at q(u) = N(m, S) (u = f(Z); S = 0: a
    point), with the prior blocks P of the full input set and the per-point noise sv of the minibatch.  Returns for each objective the pair
    (without, with) the strategy's jitter on the diagonal of Kxx.  KL: dense Gaussian KL(q(u) || p(u)); for a point (Delta) the library
    documents MAP inference: the KL term is minus the log prior density at the point, in the strategy's own coordinates"""
    A = torch.cholesky_solve(P["Kzx"], P["L"])[:, idx]            # Kzz^-1 Kzx
    mu = P["mx"][idx] + A.T @ (m - P["mz"])
    Qd = (P["Kzx"][:, idx] * A).sum(0)
    v0 = P["Kxx"].diagonal()[idx] - Qd + ((S @ A) * A).sum(0)
    M = m.numel()
    if dist == "delta":
        if strat == "whitened":
            mw = torch.linalg.solve_triangular(P["L"], (m - P["mz"]).unsqueeze(-1), upper=False).squeeze(-1)
            kl = float(0.5 * mw.dot(mw) + 0.5 * M * LOG2PI)
        else:
            kl = -logn(torch, m, P["mz"], P["Kzz"])
    else:
        kl = kl_gauss(torch, m, S, P["mz"], P["Kzz"])
    out = dict(kl=kl, elbo=[], pll=[])
    B = len(idx)
    for v in (v0, v0 + jit):
        e = (-0.5 * torch.log(2 * math.pi * sv) - ((yb - mu) ** 2 + v) / (2 * sv)).sum()
        l = (-0.5 * torch.log(2 * math.pi * (v + sv)) - (yb - mu) ** 2 / (2 * (v + sv))).sum()
        out["elbo"].append(float(e) / B - beta / N * kl)
        out["pll"].append(float(l) / B - beta / N * kl)
    return out


def kl_gauss(torch, m, S, m0, S0):
    L0 = torch.linalg.cholesky(S0)
    L = torch.linalg.cholesky(S)
    A = torch.linalg.solve_triangular(L0, L, upper=False)
    d = torch.linalg.solve_triangular(L0, (m - m0).unsqueeze(-1), upper=False).squeeze(-1)
    return float(0.5 * ((A * A).sum() + d.dot(d) - m.numel()) + L0.diagonal().log().sum() - L.diagonal().log().sum())


def within(x, lo, hi, rtol):
    lo, hi = min(lo, hi), max(lo, hi)
    t = rtol * max(1.0, abs(lo), abs(hi)) + 1e-9
    return lo - t <= x <= hi + t


def q_family(torch, qfam, P, R, g):
    D = torch.float64
    M = P["Kzz"].size(0)
    if qfam == "prior":
        return P["mz"].clone(), P["Kzz"].clone()
    if qfam == "post":
        return R["ms"].clone(), R["Ss"].clone()
    if qfam == "wide":
        return R["ms"].clone(), 2.5 * R["Ss"]
    if qfam == "shift":
        return R["ms"] + 0.7 * torch.randn(M, generator=g, dtype=D), 0.4 * R["Ss"]
    if qfam == "random":
        W = torch.randn(M, M + 2, generator=g, dtype=D)
        return torch.randn(M, generator=g, dtype=D), W @ W.T / (M + 2) + 0.05 * torch.eye(M, dtype=D)
    if qfam == "thin":   # nearly singular S: one direction with variance 1e-6
        Qm, _ = torch.linalg.qr(torch.randn(M, M, generator=g, dtype=D))
        ev = torch.cat([torch.tensor([1e-6], dtype=D), 0.2 + torch.rand(M - 1, generator=g, dtype=D)])
        S = Qm @ torch.diag(ev) @ Qm.T
        return R["ms"] + 0.1 * torch.randn(M, generator=g, dtype=D), 0.5 * (S + S.T)
    raise core.Machinery("unknown q family %s" % qfam)


def check_definition(torch, gpytorch, res, desc, base, model, lik, X, y, batches, s2, lp=0.0, nprior=0):
    """(b) value of VariationalELBO / PredictiveLogLikelihood on minibatches vs the definition from the model's own q(f), noise and KL
    and the log densities lp of the nprior registered priors (model's and likelihood's)"""
    for (idx, N, beta) in batches:
        Xb, yb = X[idx], y[idx]
        for cls, name in ((gpytorch.mlls.VariationalELBO, "elbo"), (gpytorch.mlls.PredictiveLogLikelihood, "pll")):
            ok, got = core.guarded(lambda: objective(torch, gpytorch, cls, model, lik, Xb, yb, N, beta))
            if not ok:
                res.update(ok=False, sig=base + "/%s/raises" % name, detail="%s minibatch %s N=%d beta=%s: %s" % (desc, idx, N, beta, got))
                return False
            val, mu, var, kl = got
            if name == "elbo":
                per = -0.5 * math.log(2 * math.pi * s2) - ((yb - mu) ** 2 + var) / (2 * s2)
            else:
                per = -0.5 * torch.log(2 * math.pi * (var + s2)) - (yb - mu) ** 2 / (2 * (var + s2))
            want = float(per.sum()) / len(idx) - beta / N * float(kl) + lp / N
            ok, why = core.close(float(val), want, 1e-9, 1e-11)
            res["n"] = res.get("n", 0) + 1
            if not ok:
                noprior = nprior and core.close(float(val), want - lp / N, 1e-9, 1e-11)[0]
                res.update(ok=False, sig=base + "/%s/%s" % (name, "prior-term" if nprior and abs(lp / N) > 1e-8 and (noprior or abs(float(val) - want) <= 1.01 * abs(lp / N) + 1e-9) else "definition"),
                           detail="%s: minibatch %s of %d points, num_data=%d, beta=%s: %s = %r but (1/B) sum_i term_i - (beta/N) KL + (1/N) log priors = %r with the model's own q(f), "
                                  "KL=%r and %d registered priors with total log density %r: %s" % (
                               desc, idx, X.size(0), N, beta, cls.__name__, float(val), want, float(kl), nprior, lp, why))
                return False
    return True


def batches_for(n, g_int):
    full = list(range(n))
    b1 = sorted(g_int.sample(full, 3))
    b2 = sorted(g_int.sample(full, max(1, n // 2)))
    return [(full, n, 1.0), (b1, n, 1.0), (b2, 2 * n, 0.5), ([full[-1]], 10 * n, 0.25), (full, n + 7, 2.0)]


def run_cell(torch, gpytorch, c):
    cell, seed = c["cell"], c["seed"]
    D = torch.float64
    sec = cell["sec"]
    dist = cell["dist"] if sec == "ngd" else "cholesky"
    lab = "/".join(str(cell[k]) for k in sorted(cell) if k != "sec")
    res = dict(key=["cell", cell, seed], ok=True, nontrivial=True, case=c, n=0)
    prob = seeded_problem(torch, gpytorch, cell, seed, dist)
    if prob is None:
        res.update(nontrivial=False, skipped=True)
        return res
    model, lik, X, y, g, sites = prob
    nb = cell.get("batch", 0)
    elems = list(range(nb)) if nb else [None]
    at = lambda t, e: t if e is None else t[e]   # noqa
    n = X.size(-2)
    s2s = [float(at(lik.noise, e)) for e in elems]
    jit = float(model.variational_strategy.jitter_val)
    desc = "SVGP %s seed=%d n=%d m=%d noise=%s" % (lab, seed, n, model.variational_strategy.inducing_points.size(-2), ",".join("%.3g" % v for v in s2s))
    base = {"bound": "C15/svgp/%s/%s" % (cell["strat"], cell["kern"]), "equal": "C15/svgp/%s/inducing-equal-inputs" % cell["strat"],
            "ngd": "C15/ngd/%s/%s%s" % (cell["strat"], cell.get("dist"), "/batch%d" % nb if nb else "")}[sec]
    model.train()
    lik.train()
    ok, err = core.guarded(lambda: model(X))      # first call: the strategy initialises q(u) from its prior
    if not ok:
        res.update(ok=False, sig=base + "/raises", detail="%s: first call raises %s" % (desc, err))
        return res
    lp, nprior = log_prior_sum(torch, model, lik, sites)
    Ps = [prior_blocks(torch, model, X, jit, e) for e in elems]
    Rs = [reference(torch, P, at(y, e), s2, jit) for P, e, s2 in zip(Ps, elems, s2s)]
    if sec == "equal":
        P, R, s2 = Ps[0], Rs[0], s2s[0]
        Se = torch.linalg.inv(torch.linalg.inv(P["Kzz"]) + torch.eye(n, dtype=D) / s2)
        R["eq"] = dict(ex=logn(torch, y, P["mx"], P["Kzz"] + s2 * torch.eye(n, dtype=D)), ms=P["mz"] + Se @ (y - P["mx"]) / s2, Ss=0.5 * (Se + Se.T))
    rint = random.Random(seed)
    batches = batches_for(n, rint) if sec != "equal" else [(list(range(n)), n, 1.0), (list(range(n)), 3 * n, 0.5)]
    V = gpytorch.mlls.VariationalELBO
    start = cell["start"] if sec == "ngd" else cell["qfam"]
    if start != "init":
        try:
            for P, R, e in zip(Ps, Rs, elems):
                m0, S0 = q_family(torch, start, P, R, g)
                set_q(torch, model, cell["strat"], dist, P, m0, S0, e)
        except core.Machinery:
            raise
        except Exception as ex:   # noqa
            return dict(machinery="could not set q(u) for %s: %s: %s" % (desc, type(ex).__name__, ex))
    qs = [get_q(torch, model, cell["strat"], P, e) for P, e in zip(Ps, elems)]          # q(u) as the model states it

    def check_bound(tag, qs, expect_opt):
        """(c) per batch element: N * ELBO <= log marginal; = collapsed - KL(q || q_opt); attained at q_opt"""
        okk, got = core.guarded(lambda: objective(torch, gpytorch, V, model, lik, X, y, n))
        if not okk:
            res.update(ok=False, sig=base + "/raises", detail="%s %s: %s" % (desc, tag, got))
            return None
        if tuple(got[0].shape) != ((nb,) if nb else ()):
            res.update(ok=False, sig=base + "/shape", detail="%s %s: objective of shape %s for batch shape %s" % (desc, tag, tuple(got[0].shape), (nb,) if nb else ()))
            return None
        out = None
        for (mq, Sq), R, e in zip(qs, Rs, elems):
            E = float(at(got[0], e)) * n - lp           # the registered priors enter N * ELBO with their total log density
            tg = tag if e is None else "%s, batch element %d" % (tag, e)
            res["n"] += 1
            rt = 1e-6
            top = max(R["ex"], R["exj"])
            if E > top + 1e-9 * max(1.0, abs(top)):
                res.update(ok=False, sig=base + "/bound", detail="%s %s: N * ELBO = %r exceeds the exact log marginal likelihood %r (%r with the jitter %g on the diagonal)" % (desc, tg, E, R["ex"], R["exj"], jit))
                return None
            klq = kl_gauss(torch, mq, Sq, R["ms"], R["Ss"])
            if klq < -1e-9:
                raise core.Machinery("negative KL to the optimal q(u)")
            if "eq" in R:
                # the batch IS the inducing set and the strategy may return q(u) itself (f = u): then the prior of f carries the jitter of
                # Kzz in every block, the bound is log N(y; m, Kzz + jitter + s2 I) and the optimum its posterior; either reading is accepted
                kl2 = kl_gauss(torch, mq, Sq, R["eq"]["ms"], R["eq"]["Ss"])
                if abs(E - (R["eq"]["ex"] - kl2)) <= rt * max(1.0, abs(E)) + 1e-9:
                    out = out or (E, kl2)
                    continue
            if not within(E, R["col1"] - klq, R["col0"] - klq, rt):
                res.update(ok=False, sig=base + ("/collapsed-attained" if expect_opt else "/gap-is-kl"),
                           detail="%s %s: N * ELBO = %r; collapsed bound %r (%r with jitter on diag Kxx) minus KL(q(u) || optimal q(u)) = %r gives %r" % (
                               desc, tg, E, R["col0"], R["col1"], klq, R["col0"] - klq))
                return None
            if expect_opt and not within(E, R["col1"], R["col0"], rt):
                res.update(ok=False, sig=base + "/collapsed-attained", detail="%s %s: N * ELBO = %r, collapsed bound %r (%r with jitter on diag Kxx)" % (desc, tg, E, R["col0"], R["col1"]))
                return None
            out = out or (E, klq)
        return out

    if sec in ("bound", "equal"):
        if not check_definition(torch, gpytorch, res, desc, base, model, lik, X, y, batches, s2s[0], lp, nprior):
            return res
        r = check_bound("q(u)=%s" % start, qs, start == "post")
        if r is None:
            return res
        res["sample"] = dict(case=desc, N_ELBO=r[0], collapsed=Rs[0]["col0"], log_marginal=Rs[0]["ex"], KL_to_optimal_q=r[1], registered_priors=nprior, log_prior_total=lp)
        res["gap"] = r[1]
        return res

    # ---- (d) natural gradient (batch shape (b,): b independent GPs, one loss = sum of their objectives)
    vd = model.variational_strategy._variational_distribution
    mat = vd.natural_mat if cell["dist"] == "natural" else vd.natural_tril_mat
    nat = [vd.natural_vec, mat]
    hyper = [p for p in list(model.parameters()) + list(lik.parameters()) if all(p is not q for q in nat)]
    sgd = torch.optim.SGD(hyper, lr=0.0)
    mll = V(lik, model, num_data=n)

    def step(lr, with_hyper):
        ngd = gpytorch.optim.NGD(nat, num_data=n, lr=lr)
        ngd.zero_grad()
        sgd.zero_grad()
        (-mll(model(X), y)).sum().backward()
        ngd.step()
        if with_hyper:
            sgd.step()
    r0 = check_bound("start", qs, False)
    if r0 is None:
        return res
    if cell["dist"] == "natural":
        for k in (1, 2):
            ok, err = core.guarded(step, 1.0, c["hyper"])
            if not ok:
                res.update(ok=False, sig=base + "/raises", detail="%s: NGD step %d raises %s" % (desc, k, err))
                return res
            clause = "one-step-optimal" if k == 1 else "fixed-point"
            qs1 = [get_q(torch, model, cell["strat"], P, e) for P, e in zip(Ps, elems)]
            for (m1, S1), R, e in zip(qs1, Rs, elems):
                okm, whym = core.close(m1, R["ms"], 1e-6, 1e-8)
                okS, whyS = core.close(S1, R["Ss"], 1e-6, 1e-8)
                if not (okm and okS):
                    res.update(ok=False, sig=base + "/" + clause, detail="%s%s: after %d NGD step(s) of size 1 q(u) is not the optimal q(u): mean %s covariance %s" % (
                        desc, "" if e is None else " batch element %d" % e, k, whym or "ok", whyS or "ok"))
                    return res
            if check_bound("after step %d" % k, qs1, True) is None:
                res["sig"] = base + "/" + clause + "/elbo"
                return res
        res["sample"] = dict(case=desc, N_ELBO_start=r0[0], collapsed=Rs[0]["col0"], steps="1 step reaches the optimum, step 2 is a fixed point")
        return res
    # TrilNatural: natural_vec is updated with the natural gradient itself; the triangular factor with its push-forward, i.e. to first order
    with torch.no_grad():
        T0s = mat.detach().clone()
    ok, err = core.guarded(step, 1.0, c["hyper"])
    if not ok:
        res.update(ok=False, sig=base + "/raises", detail="%s: NGD step of size 1 raises %s" % (desc, err))
        return res
    with torch.no_grad():
        T1s = mat.detach().clone()
        v1s = vd.natural_vec.detach().clone()
    for P, R, e in zip(Ps, Rs, elems):
        if cell["strat"] == "whitened":
            Li = torch.linalg.inv(P["L"])
            mw_s, Sw_s = Li @ (R["ms"] - P["mz"]), Li @ R["Ss"] @ Li.T
        else:
            mw_s, Sw_s = R["ms"], R["Ss"]
        Pw_s = torch.linalg.inv(Sw_s)
        th1_s, th2_s = Pw_s @ mw_s, -0.5 * Pw_s
        T0, dT, v1 = at(T0s, e), at(T1s, e) - at(T0s, e), at(v1s, e)
        th2_0 = -0.5 * T0.T @ T0
        el = "" if e is None else " batch element %d" % e
        res["n"] += 2
        ok1, why1 = core.close(v1, th1_s, 1e-6, 1e-8)
        if not ok1:
            res.update(ok=False, sig=base + "/vector-one-step", detail="%s%s: after one step of size 1 natural_vec is not the optimal natural vector: %s" % (desc, el, why1))
            return res
        # derivative of T -> -1/2 T^T T at T0 applied to the update dT (exact, no truncation error): must be the natural-gradient step theta2_opt - theta2
        d2 = -0.5 * (dT.T @ T0 + T0.T @ dT)
        ok2, why2 = core.close(d2, th2_s - th2_0, 1e-6, 1e-8)
        if not ok2:
            res.update(ok=False, sig=base + "/matrix-direction", detail="%s%s: the update of natural_tril_mat, pushed forward to the natural matrix -1/2 T^T T, is not the natural-gradient step: %s" % (desc, el, why2))
            return res
    res["sample"] = dict(case=desc, steps="natural_vec optimal after one step; matrix direction first-order exact")
    return res


# ---------------------------------------------------------------------------------------------
# (L3) history of the raw variational parameters ("hist" cells of VarObjective.tla)
KERNS = ("rbf", "matern", "rbf_ard")
HIST_LR = dict(sgd=0.05, adam=0.05, hyper=0.05, ngd=0.3, ngd1=1.0)


def hetero_noise(torch, g, n, level):
    """known per-point noise levels around `level` (strongly heteroskedastic, >= 40% of it)"""
    return level * (0.4 + 1.6 * torch.rand(n, generator=g, dtype=torch.float64))


def random_q(torch, dist, P, R, g, strat):
    """a q(u) of the distribution class in general position (mean-field: diagonal in the strategy's own coordinates)"""
    D = torch.float64
    M = P["Kzz"].size(0)
    m = R["ms"] + 0.6 * torch.randn(M, generator=g, dtype=D)
    if dist == "meanfield":
        d = 0.15 + torch.rand(M, generator=g, dtype=D)
        S = torch.diag(d)
        if strat == "whitened":
            S = P["L"] @ S @ P["L"].T
        return m, 0.5 * (S + S.T)
    if dist == "delta":
        return m, torch.zeros(M, M, dtype=D)
    W = torch.randn(M, M + 2, generator=g, dtype=D)
    S = W @ W.T / (M + 2) + 0.05 * torch.eye(M, dtype=D)
    if strat == "whitened":      # comparable scale in the strategy's coordinates
        S = P["L"] @ S @ P["L"].T
    return m, 0.5 * (S + S.T)


def run_hist(torch, gpytorch, c):
    cell, seed, hist, exp = c["cell"], c["seed"], c["hist"], c["exp"]
    D = torch.float64
    strat, dist, likk = cell["strat"], cell["dist"], cell["lik"]
    res = dict(key=["hist", cell, hist, seed], ok=True, nontrivial=len(hist) >= 1, case=c, n=0)
    rint = random.Random(seed)
    cell2 = dict(sec="hist", strat=strat, kern=KERNS[seed % 3], mean=("constant", "zero")[(seed // 3) % 2])
    prob = seeded_problem(torch, gpytorch, cell2, seed, dist)
    if prob is None:
        res.update(nontrivial=False, skipped=True)
        return res
    model, lik, X, y, g, _ = prob
    n = X.size(-2)
    if likk == "fixed":
        lik = gpytorch.likelihoods.FixedNoiseGaussianLikelihood(noise=hetero_noise(torch, g, n, float(lik.noise))).to(D)
    jit = float(model.variational_strategy.jitter_val)
    base = "C15/hist/%s/%s" % (strat, dist)
    desc0 = "SVGP %s strategy, %s variational distribution, %s likelihood, %s kernel, %s mean, seed=%d n=%d m=%d" % (
        strat, dist, "FixedNoiseGaussian" if likk == "fixed" else "Gaussian", cell2["kern"], cell2["mean"], seed, n, model.variational_strategy.inducing_points.size(-2))
    model.train()
    lik.train()
    ok, err = core.guarded(lambda: model(X))      # first call: the strategy initialises q(u) from its prior ("fresh")
    if not ok:
        res.update(ok=False, sig=base + "/raises", detail="%s: first call raises %s" % (desc0, err))
        return res
    vd = model.variational_strategy._variational_distribution
    vpar = [getattr(vd, nm) for nm in RAW_NAMES[dist]]
    hyper = [p for p in list(model.parameters()) + list(lik.parameters()) if all(p is not q for q in vpar)]
    V, PLL = gpytorch.mlls.VariationalELBO, gpytorch.mlls.PredictiveLogLikelihood
    mll = V(lik, model, num_data=n)
    opts = {}

    def opt(a):
        if a not in opts:
            if a == "sgd":
                opts[a] = torch.optim.SGD(vpar, lr=HIST_LR[a])
            elif a == "adam":
                opts[a] = torch.optim.Adam(vpar + hyper, lr=HIST_LR[a])
            elif a == "hyper":
                opts[a] = torch.optim.Adam(hyper, lr=HIST_LR[a])
            else:
                opts[a] = gpytorch.optim.NGD(vpar, num_data=n, lr=HIST_LR[a])
        return opts[a]

    def noise_now():
        with torch.no_grad():
            return lik.noise.detach().reshape(-1).clone() if likk == "fixed" else lik.noise.detach().reshape(-1).expand(n).clone()

    def act(a):
        if a in ("load_dense", "assign_dense"):
            P = prior_blocks(torch, model, X, jit)
            R = reference(torch, P, y, noise_now(), jit)
            m0, S0 = random_q(torch, dist, P, R, g, strat)
            M = m0.numel()
            junk = torch.randn(M, M, generator=g, dtype=D)
            junk = junk + 0.5 * junk.sign()              # every entry above the diagonal (every sign flip) is far from zero
            set_q(torch, model, strat, dist, P, m0, S0, junk=junk, how="state_dict" if a == "load_dense" else "assign")
            return
        o = opt(a)
        for p in vpar + hyper:
            p.grad = None
        (-mll(model(X), y)).backward()
        o.step()

    def verify(k, label):
        """every clause of the state reached after k actions, at the q(u) the variational distribution reports"""
        tag = "after %s" % (hist[:k] if k else "the first call (fresh)")
        desc = "%s, %s" % (desc0, tag)
        sv = noise_now()
        P = prior_blocks(torch, model, X, jit)
        R = reference(torch, P, y, sv, jit)
        mq, Sq = get_q(torch, model, strat, P)
        full = list(range(n))
        perm = full[:]
        rint.shuffle(perm)
        mb = sorted(rint.sample(full, max(2, n // 3)))
        for (idx, N, beta, kwgiven) in ((full, n, 1.0, False), (perm, n, 1.0, True), (mb, 2 * n, 0.5, True)):
            Xb, yb = X[idx], y[idx]
            ckw = dict(noise=sv[idx].clone()) if (likk == "fixed" and kwgiven) else None
            if likk == "fixed" and not kwgiven and idx != full:
                continue
            want = definition_at_q(torch, P, mq, Sq, idx, yb, sv[idx], N, beta, jit, strat, dist)
            for cls, name in ((V, "elbo"), (PLL, "pll")):
                if name == "pll" and idx is perm:
                    continue
                okk, got = core.guarded(lambda: objective(torch, gpytorch, cls, model, lik, Xb, yb, N, beta, call_kw=ckw))
                if not okk:
                    res.update(ok=False, sig=base + "/%s/raises" % name, detail="%s, batch %s: %s" % (desc, idx, got))
                    return False
                res["n"] += 1
                val = float(got[0])
                if not within(val, want[name][0], want[name][1], 1e-7):
                    res.update(ok=False, sig=base + "/%s/definition-at-reported-q%s" % (name, "/noise-keyword" if ckw else ""),
                               detail="%s: batch %s, num_data=%d, beta=%s%s: %s = %r but the definition evaluated at the q(u) that variational_distribution() reports "
                                      "(dense q(f) marginals, dense %s = %r) gives %r (%r with the jitter %g on diag Kxx); the library's own KL term is %r" % (
                                   desc, idx, N, beta, ", noise= keyword given" if ckw else "", cls.__name__, val,
                                   "-log p(u)" if dist == "delta" else "KL(q(u) || p(u))", want["kl"], want[name][0], want[name][1], jit, float(got[3])))
                    return False
                if idx is full and name == "elbo":
                    E = val * n
        if dist == "delta":
            return True
        res["n"] += 1
        top = max(R["ex"], R["exj"])
        if E > top + 1e-9 * max(1.0, abs(top)):
            res.update(ok=False, sig=base + "/bound", detail="%s: N * ELBO = %r exceeds the exact log marginal likelihood %r" % (desc, E, R["ex"]))
            return False
        klq = kl_gauss(torch, mq, Sq, R["ms"], R["Ss"])
        if not within(E, R["col1"] - klq, R["col0"] - klq, 1e-6):
            res.update(ok=False, sig=base + "/gap-is-kl", detail="%s: N * ELBO = %r; collapsed bound %r minus KL(reported q(u) || optimal q(u)) = %r gives %r" % (desc, E, R["col0"], klq, R["col0"] - klq))
            return False
        if label["gap"] == "attained":
            okm, whym = core.close(mq, R["ms"], 1e-6, 1e-8)
            okS, whyS = core.close(Sq, R["Ss"], 1e-6, 1e-8)
            if not (okm and okS and within(E, R["col1"], R["col0"], 1e-6)):
                res.update(ok=False, sig=base + "/one-step-optimal", detail="%s: after a natural-gradient step of size one q(u) must be the optimal one and N * ELBO = %r the collapsed bound %r: mean %s covariance %s" % (
                    desc, E, R["col0"], whym or "ok", whyS or "ok"))
                return False
        res.setdefault("gaps", []).append(klq)
        return True

    if c.get("fresh", True) and not verify(0, exp[0]):
        return res
    for k, a in enumerate(hist):
        ok, err = core.guarded(act, a)
        if not ok:
            res.update(ok=False, sig=base + "/raises", detail="%s: action %d (%s) of %s raises %s" % (desc0, k + 1, a, hist, err))
            return res
        if not verify(k + 1, exp[k + 1]):
            return res
    # abstract position of the raw tensors (vacuity guard of the generic-position states; not a verdict)
    with torch.no_grad():
        rawm = getattr(vd, RAW_NAMES[dist][-1]).detach()
        res["generic"] = bool(dist in ("cholesky", "natural", "tril") and float(rawm.triu(1).abs().max()) > 1e-3 and
                              (dist != "natural" or float((rawm - rawm.T).abs().max()) > 1e-3)) or bool(dist == "meanfield" and float(rawm.min()) < 0)
    res["sample"] = dict(case=desc0, history=hist, final_position=exp[-1]["pos"], KL_to_optimal_q=res.get("gaps", [None])[-1])
    return res


# ---------------------------------------------------------------------------------------------
# (L4) the noise of minibatch point k ("noise" cells of VarObjective.tla)
def run_noise(torch, gpytorch, c):
    cell, seed, exp = c["cell"], c["seed"], c["exp"]
    D = torch.float64
    strat, Ns, idx1, kw, learn = cell["strat"], cell["Ns"], cell["idx"], cell["kw"], cell["learn"]
    idx = [i - 1 for i in idx1]
    B = len(idx)
    res = dict(key=["noise", cell, seed], ok=True, nontrivial=True, case=c, n=0)
    if not exp["defined"]:
        res.update(nontrivial=False, undefined=True)
        return res
    g = torch.Generator().manual_seed(seed)
    cell2 = dict(sec="noise", strat=strat, kern=KERNS[seed % 3], mean=("constant", "zero")[(seed // 3) % 2])
    e = None
    for attempt in range(5):
        e = draw_element(torch, gpytorch, cell2, g, Ns, 2, 2)
        if e is not None:
            break
    if e is None:
        res.update(nontrivial=False, skipped=True)
        return res
    lvl = e["noise"]
    stored = {j: lvl * (0.45 + 0.55 * j) for j in range(1, Ns + 1)}          # StoredVal(j)
    fresh = {10 + k: lvl * (0.3 + 0.4 * k) for k in range(1, B + 1)}         # FreshVal(k)
    second = 0.35 * lvl
    val_of = lambda v: stored[v] if v in stored else fresh[v]   # noqa
    kernel = make_kernel(torch, gpytorch, cell2["kern"], 2, e["ls"], e["osc"], torch.Size([]))
    if cell2["mean"] == "constant":
        mean = gpytorch.means.ConstantMean().to(D)
        mean.constant = e["mc"]
    else:
        mean = gpytorch.means.ZeroMean().to(D)
    model = build_model(torch, gpytorch, strat, "cholesky", e["Z"], kernel, mean)
    lik = gpytorch.likelihoods.FixedNoiseGaussianLikelihood(noise=torch.tensor([stored[j] for j in range(1, Ns + 1)], dtype=D), learn_additional_noise=learn).to(D)
    if learn:
        lik.second_noise = torch.tensor(second, dtype=D)
        second = float(lik.second_noise)          # the value the likelihood holds (its setter goes through the constraint's inverse transform)
    X, y = e["X"], e["y"]
    jit = float(model.variational_strategy.jitter_val)
    base = "C15/noise/%s" % ("fixed+learned" if learn else "fixed")
    shape = "B<N" if B < Ns else ("B>N" if B > Ns else ("B=N stored order" if idx == list(range(Ns)) else ("B=N permuted" if sorted(idx) == list(range(Ns)) else "B=N resampled")))
    desc = "SVGP %s strategy, FixedNoiseGaussianLikelihood(%d stored noise values%s), minibatch = data points %s (%s), noise= keyword %s, seed=%d" % (
        strat, Ns, ", learn_additional_noise" if learn else "", idx1, shape, {"none": "not given", "gathered": "= the noise of the minibatch points", "fresh": "= new values"}[kw], seed)
    model.train()
    lik.train()
    ok, err = core.guarded(lambda: model(X))
    if not ok:
        res.update(ok=False, sig=base + "/raises", detail="%s: first call raises %s" % (desc, err))
        return res
    P = prior_blocks(torch, model, X, jit)
    R0 = reference(torch, P, y, torch.tensor([stored[j] + (second if learn else 0.0) for j in range(1, Ns + 1)], dtype=D), jit)
    m0, S0 = q_family(torch, "random", P, R0, g)
    set_q(torch, model, strat, "cholesky", P, m0, S0)
    Xb, yb = X[idx], y[idx]
    sv = torch.tensor([val_of(v) + (second if exp["second"] else 0.0) for v in exp["base"]], dtype=D)      # the spec's per-point noise, resolved
    ckw = None if kw == "none" else dict(noise=torch.tensor([val_of(v) for v in exp["base"]], dtype=D))
    N, beta = (Ns, 1.0) if seed % 2 else (2 * Ns + 1, 0.5)
    for cls, name in ((gpytorch.mlls.VariationalELBO, "elbo"), (gpytorch.mlls.PredictiveLogLikelihood, "pll"), (gpytorch.mlls.GammaRobustVariationalELBO, "gamma")):
        if name == "gamma" and not c.get("gamma", True):
            continue
        okk, got = core.guarded(lambda: objective(torch, gpytorch, cls, model, lik, Xb, yb, N, beta, call_kw=ckw))
        if not okk:
            res.update(ok=False, sig=base + "/%s/raises" % name, detail="%s: %s raises %s" % (desc, cls.__name__, got))
            return res
        val, mu, var, kl = got
        if name == "elbo":
            per = -0.5 * torch.log(2 * math.pi * sv) - ((yb - mu) ** 2 + var) / (2 * sv)
        elif name == "pll":
            per = -0.5 * torch.log(2 * math.pi * (var + sv)) - (yb - mu) ** 2 / (2 * (var + sv))
        else:
            # gamma-robust per-point terms: measured on one-point batches of the same class with that point's noise (B = N = 1: factor one);
            # a one-point batch never has the stored size (Ns >= 2)
            pts = []
            for k in range(B):
                di = gpytorch.distributions.MultivariateNormal(mu[k:k + 1], torch.diag(var[k:k + 1]))
                okp, t = core.guarded(lambda: cls(lik, model, num_data=1, beta=1.0, combine_terms=False)(di, yb[k:k + 1], noise=sv[k:k + 1] - (second if learn else 0.0)))
                if not okp:
                    res.update(ok=False, sig=base + "/gamma/raises", detail="%s: one-point objective raises %s" % (desc, t))
                    return res
                pts.append(float(t[0]))
            per = torch.tensor(pts, dtype=D)
        want = float(per.sum()) / B - beta / N * float(kl)
        res["n"] += 1
        okv, why = core.close(float(val), want, 1e-9, 1e-11)
        if not okv:
            res.update(ok=False, sig=base + "/%s/%s/%s" % (name, "noise-keyword" if kw != "none" else "stored-noise", shape.split(" ")[0]),
                       detail="%s: num_data=%d beta=%s: %s = %r but (1/B) sum_i term_i(noise_i) - (beta/N) KL = %r with the per-point noise %s of the definition (the model's own q(f), KL = %r): %s" % (
                           desc, N, beta, cls.__name__, float(val), want, sv.tolist(), float(kl), why))
            return res
    # the batch is the whole data set in some order: N * ELBO against the exact log marginal likelihood / collapsed bound with diag(noise)
    if sorted(idx) == list(range(Ns)):
        Pb = prior_blocks(torch, model, Xb, jit)
        Rb = reference(torch, Pb, yb, sv, jit)
        okk, got = core.guarded(lambda: objective(torch, gpytorch, gpytorch.mlls.VariationalELBO, model, lik, Xb, yb, Ns, 1.0, call_kw=ckw))
        if not okk:
            res.update(ok=False, sig=base + "/elbo/raises", detail="%s: %s" % (desc, got))
            return res
        E = float(got[0]) * Ns
        mq, Sq = get_q(torch, model, strat, Pb)
        klq = kl_gauss(torch, mq, Sq, Rb["ms"], Rb["Ss"])
        top = max(Rb["ex"], Rb["exj"])
        res["n"] += 1
        if E > top + 1e-9 * max(1.0, abs(top)):
            res.update(ok=False, sig=base + "/bound", detail="%s: N * ELBO = %r exceeds the exact log marginal likelihood %r of the same kernel / mean / per-point noise" % (desc, E, Rb["ex"]))
            return res
        if not within(E, Rb["col1"] - klq, Rb["col0"] - klq, 1e-6):
            res.update(ok=False, sig=base + "/gap-is-kl", detail="%s: N * ELBO = %r; collapsed bound %r minus KL(q(u) || optimal q(u)) = %r gives %r" % (desc, E, Rb["col0"], klq, Rb["col0"] - klq))
            return res
    res["sample"] = dict(case=desc, per_point_noise=sv.tolist())
    return res


# ---------------------------------------------------------------------------------------------
# (L5) the registration dimension on real components ("comp" cells of VarObjective.tla)
BLOCK_PRIORS = ((0.0, 1.0), (0.5, 2.0), (-0.3, 0.7))        # (loc, scale) of the prior of latent block k: pairwise different


def run_comp(torch, gpytorch, c):
    cell, seed, exp = c["cell"], c["seed"], c["expect"]
    D = torch.float64
    strat, nb, reuse, kern, psites = cell["strat"], cell["blocks"], cell["reuse"], cell["kern"], cell["priors"]
    ksum = kern != "single"
    sites = {"none": (), "model": ("model",), "likelihood": ("likelihood",), "both": ("model", "likelihood")}[psites]
    res = dict(key=["comp", cell, seed], ok=True, nontrivial=True, case=c, n=0)
    base = "C15/comp/%s" % strat
    g = torch.Generator().manual_seed(seed)
    u = lambda lo, hi, *sh: lo + (hi - lo) * torch.rand(*sh, generator=g, dtype=D)   # noqa
    n = 8 + int(torch.randint(0, 5, (1,), generator=g))
    m = 3 + int(torch.randint(0, 3, (1,), generator=g))
    d = max(2, nb)
    K = gpytorch.kernels
    wp = "model" in sites

    shared_ls = _prior(gpytorch, "lengthscale")            # kern = "sum_shared": one prior object for both lengthscales

    def part(kind):
        kw = dict(lengthscale_prior=shared_ls if kern == "sum_shared" else _prior(gpytorch, "lengthscale")) if wp else {}
        bk = K.RBFKernel(ard_num_dims=d, **kw) if kind == "rbf" else K.MaternKernel(nu=1.5, **kw)
        k = K.ScaleKernel(bk, **(dict(outputscale_prior=_prior(gpytorch, "outputscale")) if wp else {})).to(D)
        k.base_kernel.lengthscale = u(0.5, 1.2, 1, d) if kind == "rbf" else u(0.6, 1.4, 1, 1)
        k.outputscale = u(0.5, 1.4, 1)[0]
        return k
    parts = [part("rbf")] + ([part("matern")] if ksum else [])
    kernel = parts[0] + parts[1] if ksum else parts[0]
    mean = gpytorch.means.ConstantMean(**(dict(constant_prior=_prior(gpytorch, "constant")) if wp else {})).to(D)
    mean.constant = float(torch.randn(1, generator=g, dtype=D) * 0.5)
    lik = gpytorch.likelihoods.GaussianLikelihood(**(dict(noise_prior=_prior(gpytorch, "noise")) if "likelihood" in sites else {})).to(D)
    lik.noise = float(u(0.1, 0.4, 1))
    with torch.no_grad():
        for attempt in range(30):
            Z = torch.randn(m, d, generator=g, dtype=D)
            if float(torch.linalg.cond(kernel(Z).to_dense())) <= 1e4:
                break
        else:
            res.update(nontrivial=False, skipped=True)
            return res
    LV = gpytorch.models.gplvm.latent_variable.VariationalLatentVariable
    dims = [d] if nb == 1 else [1] * nb
    blocks = []
    for k, dk in enumerate(dims):
        loc, scale = BLOCK_PRIORS[k]
        b = LV(n, 1, dk, torch.randn(n, dk, generator=g, dtype=D), gpytorch.priors.NormalPrior(torch.full((n, dk), loc, dtype=D), torch.full((n, dk), scale, dtype=D)))
        b.q_log_sigma = torch.nn.Parameter(torch.randn(n, dk, generator=g, dtype=D) * 0.5)          # the constructor draws it from the global generator
        blocks.append(b)
    Xfix = torch.randn(n, d, generator=g, dtype=D)
    y = torch.sin(2 * Xfix[:, 0]) + 0.5 * Xfix[:, 1] + 0.3 * torch.randn(n, generator=g, dtype=D)

    class Holder(gpytorch.Module):
        """a second parent of the first block (the same object is reachable along two paths)"""

    class LatentSVGP(gpytorch.models.ApproximateGP):
        def __init__(s_):
            V = gpytorch.variational
            scls = V.VariationalStrategy if strat == "whitened" else V.UnwhitenedVariationalStrategy
            super().__init__(scls(s_, Z, V.CholeskyVariationalDistribution(m), learn_inducing_locations=False))
            s_.mean_module = mean
            s_.covar_module = kernel
            if reuse and seed % 2:          # the second parent comes first / last in the traversal
                s_.aux = Holder()
                s_.aux.block = blocks[0]
            for k, b in enumerate(blocks):
                setattr(s_, "block%d" % k, b)
            if reuse and not seed % 2:
                s_.aux = Holder()
                s_.aux.block = blocks[0]

        def inputs(s_):
            return torch.cat([b() for b in blocks], dim=-1) if blocks else Xfix

        def forward(s_, x):
            return gpytorch.distributions.MultivariateNormal(s_.mean_module(x), s_.covar_module(x))
    model = LatentSVGP().to(D)
    desc = "SVGP %s strategy, kernel %s, constant mean, priors on %s, GP input = %s%s, seed=%d n=%d m=%d" % (
        strat, ("ScaleKernel(RBF) + ScaleKernel(Matern)" + (" with one lengthscale prior object for both" if kern == "sum_shared" and wp else "")) if ksum else "ScaleKernel(RBF)", "/".join(sites) or "nothing",
        ("%d VariationalLatentVariable block(s) of dimension %s (each registers 'x_kl')" % (nb, dims)) if nb else "fixed data",
        (", block 0 also attached below a second parent module" if reuse else "") + (", latent inputs sampled twice" if cell["resample"] else ""), seed, n, m)
    model.train()
    lik.train()
    torch.manual_seed(seed)             # the blocks sample with the global generator
    if cell["resample"]:
        core.guarded(lambda: model.inputs())             # an earlier sample: its terms are replaced by the next one
    ok, x = core.guarded(lambda: model.inputs())         # one reparametrised sample of the latent inputs; refreshes every block's KL term
    if not ok:
        res.update(ok=False, sig=base + "/raises", detail="%s: sampling the latent inputs raises %s" % (desc, x))
        return res
    ok, err = core.guarded(lambda: model(x))             # first call: the strategy initialises q(u) from its prior
    if not ok:
        res.update(ok=False, sig=base + "/raises", detail="%s: first call raises %s" % (desc, err))
        return res
    jit = float(model.variational_strategy.jitter_val)
    P = prior_blocks(torch, model, x.detach(), jit)
    m0, S0 = q_family(torch, "random", P, None, g)
    set_q(torch, model, strat, "cholesky", P, m0, S0)
    # ---- the definition's extra terms
    import torch.distributions as td
    with torch.no_grad():
        added = 0.0
        for k, b in enumerate(blocks):               # closed-form KL between the diagonal Gaussians q(x) and p(x), per data point (data_dim = 1)
            loc, scale = BLOCK_PRIORS[k]
            qm, qs = b.q_mu, torch.nn.functional.softplus(b.q_log_sigma)
            added += float((math.log(scale) - torch.log(qs) + (qs ** 2 + (qm - loc) ** 2) / (2 * scale ** 2) - 0.5).sum()) / n
        vals = []
        if wp:
            for kp in parts:
                vals += [("lengthscale", kp.base_kernel.lengthscale), ("outputscale", kp.outputscale)]
            vals.append(("constant", mean.constant))
        if "likelihood" in sites:
            vals.append(("noise", lik.noise))
        lp = 0.0
        for name, v in vals:
            fam, a, b_ = PRIOR_SPECS[name]
            dd = td.Gamma(torch.tensor(a, dtype=D), torch.tensor(b_, dtype=D)) if fam == "gamma" else td.Normal(torch.tensor(a, dtype=D), torch.tensor(b_, dtype=D))
            lp += float(dd.log_prob(v.detach()).sum())
    if len(vals) != exp["npriors"] or nb != exp["nadded"]:
        return dict(machinery="comp cell %s: the replay registers %d priors / %d blocks, the spec lists %d / %d" % (cell, len(vals), nb, exp["npriors"], exp["nadded"]))
    s2 = float(lik.noise)
    rint = random.Random(seed)
    full = list(range(n))
    batches = [(full, n, 1.0), (sorted(rint.sample(full, max(2, n // 2))), 2 * n, 0.5)]
    for (idx, N, beta) in batches:
        Xb, yb = x[idx], y[idx]
        for cls, name in ((gpytorch.mlls.VariationalELBO, "elbo"), (gpytorch.mlls.PredictiveLogLikelihood, "pll")):
            for combine in (False, True):
                okk, got = core.guarded(lambda: objective(torch, gpytorch, cls, model, lik, Xb, yb, N, beta, combine_terms=combine))
                if not okk:
                    res.update(ok=False, sig=base + "/%s/raises" % name, detail="%s minibatch %s N=%d beta=%s combine_terms=%s: %s" % (desc, idx, N, beta, combine, got))
                    return res
                val, mu, var, kl = got
                if name == "elbo":
                    per = -0.5 * math.log(2 * math.pi * s2) - ((yb - mu) ** 2 + var) / (2 * s2)
                else:
                    per = -0.5 * torch.log(2 * math.pi * (var + s2)) - (yb - mu) ** 2 / (2 * (var + s2))
                terms = [float(per.sum()) / len(idx), beta / N * float(kl), lp / N, added]
                want = terms[0] - terms[1] + terms[2] - terms[3]
                res["n"] += 1
                where = "%s: minibatch %s of %d points, num_data=%d, beta=%s, %s(combine_terms=%s)" % (desc, idx, n, N, beta, cls.__name__, combine)
                if not combine:
                    if not isinstance(val, tuple) or len(val) not in (3, 4):
                        res.update(ok=False, sig=base + "/%s/tuple/shape" % name, detail="%s: expected a tuple of 3 or 4 terms, got %r" % (where, val))
                        return res
                    for k, tn in enumerate(("likelihood", "kl", "prior", "added")):
                        gv = float(val[k]) if k < len(val) else 0.0
                        okv, why = core.close(gv, terms[k], 1e-9, 1e-11)
                        if not okv:
                            res.update(ok=False, sig=base + "/%s/%s-term" % (name, tn),
                                       detail="%s: %s term %r%s but the definition gives %r (%d latent block(s) with closed-form KL sum %r per point, %d registered priors with total log density %r, "
                                              "the model's own q(f) and KL = %r): %s; named_added_loss_terms() = %s" % (
                                           where, tn, gv, "" if k < len(val) else " (missing from the tuple)", terms[k], nb, added, len(vals), lp, float(kl), why, [nm for nm, _ in model.named_added_loss_terms()]))
                            return res
                    continue
                okv, why = core.close(float(val), want, 1e-9, 1e-11)
                if not okv:
                    res.update(ok=False, sig=base + "/%s/definition" % name,
                               detail="%s = %r but (1/B) sum_i term_i - (beta/N) KL + (1/N) log priors - added losses = %r - %r + %r - %r = %r: %s" % (where, float(val), *terms, want, why))
                    return res
    res["sample"] = dict(case=desc, added_losses=added, registered_priors=len(vals), log_prior_total=lp)
    return res


RUNNERS = {"tree": run_tree, "comp": run_comp, "asm": run_asm, "rat": run_rat, "ngdrat": run_ngdrat, "cell": run_cell, "hist": run_hist, "noise": run_noise}


def _worker(cases):
    torch = core.setup_torch()
    import gpytorch
    out = []
    import time
    for c in cases:
        t0 = time.time()
        try:
            r = RUNNERS[c["kind"]](torch, gpytorch, c)
        except core.Machinery:
            raise
        except Exception as e:   # noqa
            fr = core.library_frame(e)
            if fr is None:
                raise
            # the implementation raised outside a guarded call (e.g. while its variational distribution was read back)
            area = {"tree": "tree", "comp": "comp", "asm": "assembly", "rat": "rational", "ngdrat": "ngd-rational", "cell": "svgp", "hist": "hist", "noise": "noise"}[c["kind"]]
            r = dict(key=["raised", c["kind"], core.digest(c)], ok=False, nontrivial=True, case=c, sig="C15/%s/raises/%s" % (area, type(e).__name__),
                     detail="the library raised %s: %s (at %s line %d) on %s" % (type(e).__name__, str(e)[:300], fr.filename, fr.lineno, str({k: v for k, v in c.items() if k not in ("exp", "out")})[:400]))
        r["t"] = (c["kind"], time.time() - t0)
        out.append(r)
    return out


# ---------------------------------------------------------------------------------------------
def run(ck):
    thorough = ck.tier == "thorough"
    core.setup_torch()
    rnd = random.Random(ck.seed)
    ck.rule = ("assembly: every configuration (objective x B x declared N x beta x combine_terms x priors x prior site (model / likelihood / split) x added losses x event rank) decoded on the real "
               "classes against TLC's exact rational value; module tree: every configuration (objective x tree shape (plain / a sub-module registered twice below one parent / below two parents) x "
               "layout of 0..3 added-loss or prior registrations over (module, local name) slots: equal and different local names, one object in several slots, None terms) built from real "
               "gpytorch Modules, both values of combine_terms against TLC's exact terms; component cells: SVGP x 0..3 VariationalLatentVariable blocks (x one block below two parents) x "
               "single / additive kernel (x one prior object on two parameters) x prior sites, VariationalELBO and PredictiveLogLikelihood term by term against the closed form; rational: TLC's exact ELBO pieces / NGD histories on integer instances through real SVGP models; "
               "svgp/ngd cells: seeded models per lattice cell against the definition, the exact marginal, collapsed - KL(q || q_opt) and the optimal q(u); "
               "noise cells: FixedNoiseGaussianLikelihood (x learn_additional_noise) x minibatch index sequence (B < N, B = N stored / permuted / resampled, B > N) x noise= keyword "
               "(none / gathered / fresh) x objective against the definition with the spec's per-point noise; hist cells: histories of the raw variational parameters "
               "(optimiser steps, dense tensors through load_state_dict / assignment) of every variational distribution class, every state against the dense definition at the "
               "REPORTED q(u), the exact marginal and collapsed - KL(q || q_opt). "
               "non-trivial = a scale factor differs from one or a keyword is forwarded (assembly), at least one registration (module tree), every component cell, q(u) differs from the prior (rational), history of >= 2 actions (ngd), "
               "every seeded / noise cell, every history with >= 1 action")
    ck.assumptions = [
        "added losses = the added loss term OBJECTS registered anywhere in the module tree of the MODEL handed to the objective (a term object reachable under several names / along "
        "several paths is one term; a name registered with register_added_loss_term but never updated contributes nothing); terms registered on the likelihood are not decided. "
        "log priors = one summand per prior REGISTRATION (module object, local name) in the module tree of the objective (likelihood and model), evaluated on that registration's own "
        "parameter: one prior object registered for two parameters counts for both, a module reachable along two paths counts once (VarObjective.tla part 'tree')",
        "component cells: the added loss of a VariationalLatentVariable block is KL(q(x) || p(x)) / n (data_dim = 1) between diagonal Gaussians in closed form; the likelihood and KL(q(u) || p(u)) "
        "terms are taken from the model's own q(f) and kl_divergence() (they are decided by the other sections)",
        "the tuple returned with combine_terms=False lists the definition's terms (likelihood, KL, prior[, added]); a missing fourth component means 'no added loss'",
        "GammaRobustVariationalELBO: only the shared assembly (1/B over its per-point terms, beta/N, 1/N, added losses) is decided; its per-point terms are measured "
        "on one-point batches of the same class, its closed form is not compared with the gamma-divergence of the paper",
        "likelihoods with exact expected log-probabilities = GaussianLikelihood (homoskedastic) and FixedNoiseGaussianLikelihood (known per-point noise, optionally plus a learned "
        "homoskedastic term); PredictiveLogLikelihood's per-point term is log N(y_i; mu_i, v_i + s2_i)",
        "per-point noise of minibatch point k (VarObjective.tla DefNoise): the caller's noise= values in the caller's order when given; otherwise the likelihood's stored values by "
        "position, which is only defined for a batch of the stored size; a batch of another size without noise= (the library warns and uses zero noise) is not decided",
        "the objective is judged at the q(u) that variational_distribution() reports (mean, covariance): q(f) marginals and KL(q(u) || p(u)) are recomputed densely from it; entries of "
        "the raw tensors that are not parameters of q(u) (above the diagonal of the Cholesky factor / natural matrices, signs of mean-field standard deviations) are arbitrary in the "
        "'generic' states; DeltaVariationalDistribution: the KL term is read as minus the log prior density at the point in the strategy's own coordinates (MAP), no bound clause",
        "history steps: SGD(lr 0.05) on the variational parameters, Adam(lr 0.05) on every parameter / on the hyperparameters, NGD(lr 0.3 / 1) on the natural parameters; "
        "NaturalVariationalDistribution is only stepped with NGD (the library documents other optimisers as unsupported); references are recomputed from the current hyperparameters",
        "the prior is what the model evaluates to: the strategies add variational_cholesky_jitter (1e-6 in double) to Kzz, the whitened strategy also to the diagonal "
        "of Kxx. The optimal q(u) and the collapsed bound use Kzz + jitter; N*ELBO must lie in [collapsed - n*jitter/(2 s2), collapsed] - KL(q||q_opt) to 1e-6 relative "
        "(both placements of the Kxx jitter accepted) and below max(log N(y; m, Kxx + s2 I), log N(y; m, Kxx + (s2 + jitter) I)); rational instances run with jitter_val=0 "
        "and are compared at 1e-8",
        "one NGD step of size one reaches the optimum: NaturalVariationalDistribution only (the statement's 'natural-parameter variational distribution'); "
        "TrilNaturalVariationalDistribution is parameterised by a triangular factor and is checked for what it can satisfy: natural_vec optimal after one step, the natural "
        "matrix update is the natural-gradient step pushed through the derivative of T -> -1/2 T^T T (exact at 1e-6)",
        "hyperparameters are held fixed; NGD receives exactly the natural parameters; UnwhitenedVariationalStrategy is not called with inputs identical to the inducing points "
        "(its shortcut branch then keeps the 1e-3-jitter prior for the KL term)",
        "real-model cells register GammaPrior / NormalPrior objects on the kernel lengthscale / outputscale / mean constant (site 'model') and on the likelihood noise "
        "(site 'likelihood'); their log densities are recomputed from torch.distributions at the constrained parameter values and enter the definition with 1/N",
        "NGD cells with batch shape (1,) and (2,) stack independent GPs (own data, inducing points, hyperparameters) into one batched model and one loss (the sum of the "
        "objectives); every batch element must reach its own optimal q(u) / collapsed bound",
        "float64, 8-13 points, 3-5 inducing points, noise >= 8% of the signal variance, cond(Kzz), cond(Kxx + s2 I) <= 1e4 (else the cell instance is skipped and counted)",
    ]
    wd = os.path.join(tlc.BUILD, PID)
    parts = 4 if thorough else 2
    # homoskedastic instances (GaussianLikelihood) + instances with a non-constant per-point noise vector (FixedNoiseGaussianLikelihood)
    binst = [frozen.with_nv(i) for i in (frozen.BOUND[:200] + frozen.HET_BOUND[:100] if thorough else frozen.BOUND[:40] + frozen.HET_BOUND[:24])]
    ginst = [frozen.with_nv(i) for i in (frozen.NGD[:40] + frozen.HET_NGD[:20] if thorough else frozen.NGD[:5] + frozen.HET_NGD[:3])]
    nfam = 8
    hist_depth = 3 if thorough else 2
    jobs, labels = [], []

    def job(name, label, part, dump, **kw):
        workers = kw.pop("workers", 2)
        mod, cfg = write_mc(wd, name, part, **kw)
        # -coverage is off: TLC's cost-model construction does not terminate in reasonable time on the deeply nested LET expressions
        jobs.append(((mod, cfg), dict(name=PID + "/" + name, dump=dump, check=False, workers=workers, timeout=1500, coverage=False, heap="2g")))
        labels.append(label)

    cur_inv = ["PositiveBetaOK"] + (["PredictionsSharp"] if not REPAIRS_IN_TREE else ["AssemblyOK"])
    all_repaired = set(REPAIRS_IN_TREE) == set(ALL_REPAIRS)
    job("asm_current", "assembly (model of the code in the tree%s)" % (" = repaired model, whole lattice" if all_repaired else ""), "assembly", True, repairs=REPAIRS_IN_TREE, invariants=cur_inv)
    if not all_repaired:        # otherwise the run above IS the repaired model with AssemblyOK over the whole lattice
        job("asm_repaired", "assembly (repaired model, whole lattice)", "assembly", False, repairs=ALL_REPAIRS, invariants=["AssemblyOK"])
    nfix = len(jobs)
    job("lattice", "float64 lattice, noise cells, history machine, component cells", "lattice", True, invariants=["LatticeOK", "NoiseOK", "HistOK", "CompOK"], properties=["GenericSticky"], maxsteps=hist_depth)
    job("tree", "module tree x registration layouts of added loss terms and priors (%s)" % ("every layout" if thorough else "quick level"), "tree", True, repairs=REPAIRS_IN_TREE,
        invariants=["TreeOK", "SharingNeutral", "AltSane"], treelevel="full" if thorough else "quick")
    for p in range(parts):
        job("bound_%d" % p, "rational bound algebra %d" % p, "bound", True, instances=binst[p::parts], invariants=["BoundOK"])
    for p in range(parts):
        job("ngd_%d" % p, "NGD loop machine %d" % p, "ngd", True, instances=ginst[p::parts], invariants=["OneStepOptimal", "LabelOK", "InitLabel"],
            properties=["FixedPoint", "HalfStepMoves"], workers=4)
    rs = tlc.run_many(jobs, parallel=min(len(jobs), max(2, core.NPROC)))
    for lab, r in zip(labels, rs):
        ck.add_tlc(r, "VarObjective " + lab)
        if r.violation:
            ck.model_drift("VarObjective.tla %s violates %s: %s" % (lab, r.violation["name"], str(r.violation["trace"][:1])[:300]))
        elif r.rc != 0 or "Error:" in r.stdout:
            raise tlc.TLCError("TLC failed on VarObjective %s:\n%s" % (lab, r.stdout[-1500:]))
    r_asm, r_rep, r_lat, r_tree = rs[0], rs[nfix - 1], rs[nfix], rs[nfix + 1]
    r_bound, r_ngd = rs[nfix + 2:nfix + 2 + parts], rs[nfix + 2 + parts:]
    if any(r.violation for r in [r_rep, r_lat, r_tree] + r_bound + r_ngd):
        raise tlc.TLCError("a TLC invariant of VarObjective.tla that does not depend on the modelled code version is violated: %s" % [
            (lab, r.violation["name"]) for lab, r in zip(labels, rs) if r.violation])
    ck.exhaustive = True

    cases = []
    # ---- assembly
    npred = 0
    if not r_asm.violation:
        for st in r_asm.states():
            cf, out = plain(st["c"]), plain(st["out"])
            cf["N"] = {"B": cf["B"], "2B": 2 * cf["B"], "10": 10}[cf["Nk"]]
            npred += 0 if out["agree"] else 1
            cases.append(dict(kind="asm", cf=cf, exp=dict(val=out["val"], terms=out["terms"], coef=out["coef"]), agree=bool(out["agree"]), seed=ck.seed * 7919 + len(cases)))
    nasm = len(cases)
    if nasm == 0:
        ck.vacuous("no assembly configurations generated")
    ck.section("assembly", configurations=nasm, predicted_to_fail_by_model=npred)
    # ---- module tree x registration layouts
    ntree, fams, rejected, regs, shapes = 0, {}, {}, set(), set()
    if not r_tree.violation:
        for st in r_tree.states():
            cf, out = plain(st["c"]), plain(st["out"])
            if not out["agree"]:
                raise core.Machinery("tree configuration with a false clause passed the invariant: %s" % cf)
            for k, v in out["alt"].items():
                rejected[k] = rejected.get(k, 0) + (0 if v else 1)
            fams[cf["fam"]] = fams.get(cf["fam"], 0) + 1
            regs.add((out["nterms"], out["npriors"]))
            shapes.add(cf["shape"])
            cases.append(dict(kind="tree", cf=cf, exp=dict(val=out["val"], terms=out["terms"], coef=out["coef"])))
            ntree += 1
        if ntree == 0:
            ck.vacuous("no tree configurations generated")
        # the lattice must tell generators with a coarser / finer / no memo from the definition (otherwise the new dimension is not in it)
        for k, v in sorted(rejected.items()):
            if v == 0:
                ck.vacuous("tree lattice: a generator with memo key '%s' gives the definition on every configuration" % k)
        if not {(0, 0), (1, 0), (2, 0), (3, 0), (0, 1), (0, 2), (0, 3)} <= regs or shapes != {"plain", "alias", "diamond"}:
            ck.vacuous("tree lattice: numbers of (term objects, prior registrations) %s / shapes %s" % (sorted(regs), sorted(shapes)))
    ck.section("module_tree", configurations=ntree, families=fams, level="full" if thorough else "quick", cells_on_which_another_memo_key_is_wrong=rejected)
    # ---- rational bound instances
    known = {inst_key(i): i for i in binst}
    nrat = 0
    for r in r_bound:
        for st in r.states():
            c, o = plain(st["c"]), plain(st["out"])
            inst = known.get(inst_key(c["inst"]))
            if inst is None:
                raise core.Machinery("TLC returned an instance that was not generated: %s" % c)
            if not (o["pd"] and o["closed"] and o["tight"] and o["gap"] and o["attained"]):
                raise core.Machinery("rational instance with a false clause passed the invariant: %s" % c)
            n = len(inst["X"])
            het = len(set(inst["nv"])) > 1
            for strat in STRATS:
                if strat == "unwhitened" and inst["X"] == inst["Z"]:
                    continue
                rr = random.Random(ck.seed * 31 + nrat)
                perm = list(range(n))
                while perm == list(range(n)):
                    rr.shuffle(perm)
                resample = [rr.randrange(n) for _ in range(n)]
                # subset (B < N), the whole data set in another order and a resample of the stored size (B = N), B = N + 1
                sized = [(perm, n, 1.0), (resample, 2 * n, 0.5), (perm + [rr.randrange(n)], n, 0.25)]
                bts = [(sorted(rr.sample(range(n), rr.randint(1, n - 1))), rr.choice([n, 2 * n, 10]), rr.choice([1.0, 0.5, 0.25])), (list(range(n)), 10, 0.5)]
                bts += sized if thorough else [sized[0 if het and nrat % 2 else nrat % 3]]
                if strat == "unwhitened":      # a batch identical to the inducing set takes the strategy's shortcut branch (lattice section "equal")
                    bts = [b for b in bts if [inst["X"][i] for i in b[0]] != inst["Z"]]
                # raw form of the factor handed to the distribution (spec: RawForms) x the way it is handed over; likelihood class by noise vector
                for raw in ("tri", "dense"):
                    if raw == "dense" and len(inst["Z"]) == 1:
                        continue                                  # a 1 x 1 factor has no entries above the diagonal
                    if not thorough and len(inst["Z"]) > 1 and raw != ("dense" if (nrat + STRATS.index(strat)) % 2 == 0 or c["q"] == "raw" else "tri"):
                        continue                                  # quick tier: one raw form per (instance, q, strategy), alternating
                    how = ("assign", "state_dict")[(nrat + (raw == "dense")) % 2]
                    likv = (("fixed", "fixed_learn")[nrat % 2]) if het else ("fixed" if nrat % 5 == 0 else "gaussian")
                    cases.append(dict(kind="rat", inst=inst, q=c["q"], strat=strat, batches=bts, raw=raw, how=how, likv=likv, seed=ck.seed * 13 + nrat,
                                      out={k: o[k] for k in ("qm", "qS", "rawC", "mu", "v", "ell", "klr", "kla", "er", "ea", "cr", "ca", "mr", "ma")}))
            nrat += 1
    if nrat != nfam * len(binst):
        ck.vacuous("TLC evaluated %d of %d (instance, q) pairs" % (nrat, nfam * len(binst)))
    ck.section("rational_bound", instances=len(binst), heteroskedastic=sum(1 for i in binst if len(set(i["nv"])) > 1), q_family=nfam, pairs=nrat, raw_forms=2)
    # ---- NGD machine: replay the maximal histories, compare after every action
    gknown = {inst_key(i): i for i in ginst}
    nhist, labs, acts = 0, set(), set()
    for r in r_ngd:
        table = {}
        for st in r.states():
            c, o = plain(st["c"]), plain(st["out"])
            table[(inst_key(c["inst"]), c["q0"], tuple(st["hist"]))] = o
            labs.add(o["lab"])
            acts.update(st["hist"])
        for (ik, q0, h), o in sorted(table.items()):
            if len(h) != 3:
                continue
            if not thorough and rnd.random() > 0.5 and h not in (("ngd1", "ngd1", "hyper"), ("ngd1", "hyper", "ngd1"), ("hyper", "ngd1", "ngd1")):
                continue
            exp = [table[(ik, q0, h[:k])] for k in range(4)]
            for strat in STRATS:
                if strat == "unwhitened" and gknown[ik]["X"] == gknown[ik]["Z"]:
                    continue
                cases.append(dict(kind="ngdrat", inst=gknown[ik], q0=q0, strat=strat, hist=list(h), exp=exp))
            nhist += 1
    if labs != {"init", "optimum", "other"} or acts != {"ngd1", "ngdhalf", "hyper"}:
        ck.vacuous("NGD machine: labels %s / actions %s reached" % (sorted(labs), sorted(acts)))
    ck.section("ngd_machine", instances=len(ginst), maximal_histories=nhist, labels=sorted(labs))
    # ---- float64 lattice
    ncell = nnoise = nnoise_undef = ncomp = 0
    nseeds = 10 if thorough else 1
    htable = {}
    lat_states = sorted(r_lat.states(), key=lambda st: repr((plain(st["c"]), list(st["hist"]))))      # a run-independent order
    for st in lat_states:
        cell = plain(st["c"])
        if cell["sec"] == "hist":
            htable[(repr(sorted(cell.items())), tuple(st["hist"]))] = (cell, plain(st["out"]))
            continue
        if cell["sec"] == "comp":
            ncomp += 1
            for k in range(3 if thorough else 1):
                cases.append(dict(kind="comp", cell=cell, expect=plain(st["out"]), seed=(ck.seed * 6247 + ncomp * 53 + k * 7) % (2 ** 31)))
            continue
        if cell["sec"] == "noise":
            o = plain(st["out"])
            if not (o["agree"] and o["own"]):
                raise core.Machinery("noise cell with a false clause passed the invariant: %s" % cell)
            if not o["defined"]:
                nnoise_undef += 1
                continue
            nnoise += 1
            B, Ns = len(cell["idx"]), cell["Ns"]
            # quick tier: every cell whose batch has the stored size (the coincidence class) + every third of the others
            if not thorough and B != Ns and nnoise % 3:
                continue
            # quick tier: one strategy per (data set size, batch, keyword, learn) cell, alternating; the gamma-robust objective on every other case
            hsh = sum(cell["idx"]) + B + Ns + ("none", "gathered", "fresh").index(cell["kw"]) + int(cell["learn"]) + ck.seed
            if not thorough and STRATS[hsh % 2] != cell["strat"]:
                continue
            for k in range(2 if thorough else 1):
                cases.append(dict(kind="noise", cell=cell, exp=dict(defined=True, base=o["base"], second=o["second"]), gamma=bool(thorough or (hsh // 2) % 2 == 0),
                                  seed=(ck.seed * 7121 + nnoise * 29 + k * 5) % (2 ** 31)))
            continue
        ncell += 1
        for k in range(nseeds):
            cases.append(dict(kind="cell", cell=cell, expect=plain(st["out"]), hyper=bool((ncell + k) % 2), seed=(ck.seed * 104729 + ncell * 37 + k * 11) % (2 ** 31)))
    if ncell == 0:
        ck.vacuous("no lattice cells generated")
    ck.section("lattice", cells=ncell, seeds_per_cell=nseeds)
    nnoise_cases = sum(1 for c in cases if c["kind"] == "noise")
    if nnoise_cases == 0:
        ck.vacuous("no noise cells generated")
    ck.section("noise_cells", defined=nnoise, not_defined=nnoise_undef, replayed=nnoise_cases)
    if ncomp == 0:
        ck.vacuous("no component cells generated")
    ck.section("component_cells", cells=ncomp, seeds_per_cell=3 if thorough else 1)
    # ---- history machine: replay maximal histories, verify every state on the way
    nh_all = nh = 0
    hacts, hpos = set(), set()
    for (ckey, h), (cell, o) in sorted(htable.items()):
        hacts.update(h)
        hpos.add(o["pos"])
        if len(h) != hist_depth:
            continue
        nh_all += 1
        # quick tier: a seed-dependent third of the maximal histories, always those with a load followed by an optimiser step
        load_then_step = any(h[i] in ("load_dense", "assign_dense") and h[i + 1] not in ("load_dense", "assign_dense") for i in range(len(h) - 1))
        if not thorough and not load_then_step and rnd.random() > 0.12:
            continue
        exp = [htable[(ckey, h[:k])][1] for k in range(len(h) + 1)]
        # the fresh state (before the first action) is the same for every history of a cell: verified on a fifth of them in the quick tier
        cases.append(dict(kind="hist", cell=cell, hist=list(h), exp=exp, fresh=bool(thorough or nh % 5 == 0), seed=(ck.seed * 9173 + nh_all * 41) % (2 ** 31)))
        nh += 1
    if hpos != {"fresh", "moved", "generic"} or not {"load_dense", "assign_dense", "sgd", "adam", "ngd", "ngd1", "hyper"} <= hacts:
        ck.vacuous("history machine: positions %s / actions %s reached" % (sorted(hpos), sorted(hacts)))
    ck.section("history_machine", states=len(htable), maximal_histories=nh_all, replayed=nh, depth=hist_depth)

    rnd.shuffle(cases)
    chunk = 10
    items = [cases[i:i + chunk] for i in range(0, len(cases), chunk)]
    results = core.pmap(_worker, items, chunksize=1)
    # the cells of one predicted cause (beta = 0) last: replay files are written for the first 50 violations only
    results.sort(key=lambda r: (1 if r.get("predicted") and not r.get("ok", True) else 0))
    ck.absorb(results)
    tk = {}
    for r in results:
        if "t" in r:
            k, t = r.pop("t")
            tk[k] = [tk.get(k, [0, 0.0])[0] + 1, round(tk.get(k, [0, 0.0])[1] + t, 2)]
    ck.extra["replay_cpu_seconds_by_kind"] = {k: dict(cases=v[0], cpu_s=v[1]) for k, v in sorted(tk.items())}
    skipped = sum(1 for r in results if r.get("skipped"))
    comps = [r for r in results if r.get("key", [None])[0] == "comp"]
    comp_ok = [r for r in comps if r.get("ok", True) and not r.get("skipped")]
    if comps and all(r.get("ok", True) for r in comps):
        if len(comp_ok) < 0.8 * len(comps):
            ck.vacuous("only %d of %d component cell instances were well conditioned" % (len(comp_ok), len(comps)))
        if not any(r["case"]["cell"]["blocks"] >= 2 and abs(r["sample"]["added_losses"]) > 1e-3 for r in comp_ok):
            ck.vacuous("no component cell subtracts the added losses of several latent blocks")
        if not any(r["case"]["cell"]["kern"] == "sum_shared" and r["sample"]["registered_priors"] >= 5 for r in comp_ok):
            ck.vacuous("no component cell registers one prior object for two parameters")
    hres = [r for r in results if r.get("key", [None])[0] == "hist" and r.get("ok", True) and not r.get("skipped")]
    if not any(not r.get("ok", True) for r in results if r.get("key", [None])[0] in ("hist", "raised")):
        for d in ("cholesky", "natural", "tril", "meanfield"):
            if not any(r.get("generic") and r["case"]["cell"]["dist"] == d for r in hres):
                ck.vacuous("history machine: no replayed history ends with the raw %s parameters in generic (dense) position" % d)
    drifts = [r["drift"] for r in results if r.get("drift")]
    if drifts:
        ck.model_drift("%d rational case(s): %s" % (len(drifts), drifts[0]))
    cells = [r for r in results if r.get("key", [None])[0] == "cell" and not r.get("skipped") and r["case"]["cell"]["sec"] != "equal"]
    nlat = sum(1 for c in cases if c["kind"] == "cell" and c["cell"]["sec"] != "equal")
    ck.section("lattice", skipped_ill_conditioned=skipped)
    gaps = [r["gap"] for r in cells if "gap" in r]
    lat_fail = [r for r in results if not r.get("ok", True) and (r.get("key", [None])[0] == "raised" or (r.get("key", [None])[0] == "cell" and r["case"]["cell"]["sec"] != "equal"))]
    if not lat_fail:          # vacuity guards of the seeded replay (a failing replay is reported as such, not as vacuous)
        if not any(g > 1e-2 for g in gaps):
            ck.vacuous("no seeded q(u) lies measurably below the collapsed bound")
        if len(cells) < 0.8 * nlat:
            ck.vacuous("only %d of %d seeded cell instances were well conditioned" % (len(cells), nlat))
    # ---- predictions of the code-shaped model vs the real code
    asm = [r for r in results if r.get("key", [None])[0] == "asm"]
    confirmed = sum(1 for r in asm if r.get("predicted") and not r.get("ok", True))
    refuted = sum(1 for r in asm if r.get("predicted") and r.get("ok", True))
    unpredicted = sum(1 for r in asm if not r.get("predicted") and not r.get("ok", True))
    ck.extra["predictions"] = dict(repairs_modelled=list(REPAIRS_IN_TREE), cells_predicted_to_fail=npred, confirmed_on_real_code=confirmed, refuted=refuted,
                                   failures_not_predicted_by_model=unpredicted)
    if r_asm.violation:
        ck.model_drift("the model of the current code violates %s: REPAIRS_IN_TREE does not describe the tree" % r_asm.violation["name"])
    if refuted:
        ck.model_drift("%d assembly cells predicted to fail by VarObjective.tla (Repairs = %s) pass on the real code: a repair is in the tree, add its name to "
                       "REPAIRS_IN_TREE in checks/c15.py" % (refuted, list(REPAIRS_IN_TREE)))


def replay(rep):
    torch = core.setup_torch()
    import gpytorch
    case = rep["case"]
    r = RUNNERS[case["kind"]](torch, gpytorch, case)
    if r.get("machinery"):
        print("MACHINERY-FAILURE property=C15 %s" % r["machinery"])
        return 2
    if not r.get("ok", True):
        print("VIOLATION property=C15 replay=- :: %s :: %s" % (r["sig"], r["detail"]))
        return 1
    print("replay passed")
    return 0
