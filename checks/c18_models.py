"""Model classes of the C18 zoo (module level so that pickle can find them)."""
import torch

import gpytorch
from gpytorch import kernels as K, means as M, variational as V
from gpytorch.distributions import MultitaskMultivariateNormal, MultivariateNormal

D = torch.float64


class Exact(gpytorch.models.ExactGP):
    def __init__(self, x, y, lik, mean, kern, mt=False):
        super().__init__(x, y, lik)
        self.mean_module, self.covar_module, self.mt = mean, kern, mt

    def forward(self, x):
        m, k = self.mean_module(x), self.covar_module(x)
        return MultitaskMultivariateNormal(m, k) if self.mt else MultivariateNormal(m, k)

class Hadamard(gpytorch.models.ExactGP):
    def __init__(self, x, i, y, lik, prior=None):
        super().__init__((x, i), y, lik)
        self.mean_module = M.ConstantMean()
        self.covar_module = K.RBFKernel()
        self.task_covar_module = K.IndexKernel(num_tasks=2, rank=1, prior=prior)

    def forward(self, x, i):
        return MultivariateNormal(self.mean_module(x), self.covar_module(x).mul(self.task_covar_module(i)))

class SVGP(gpytorch.models.ApproximateGP):
    def __init__(self, strat, dist, seed, mt=None):
        g = torch.Generator().manual_seed(seed)
        bs = torch.Size([2]) if mt else torch.Size([])
        z = torch.rand(*bs, 4, 1, generator=g, dtype=D) * 2 - 1
        nz = 8 if strat == "grid" else 4
        vd = dict(chol=V.CholeskyVariationalDistribution, mf=V.MeanFieldVariationalDistribution, delta=V.DeltaVariationalDistribution,
                  nat=V.NaturalVariationalDistribution, trilnat=V.TrilNaturalVariationalDistribution)[dist](nz, batch_shape=bs)
        if strat == "grid":
            # inducing points on a grid: the grid (and the derived inducing points) are buffers of the strategy
            vs = V.GridInterpolationVariationalStrategy(self, grid_size=nz, grid_bounds=[(-1.5, 1.5)], variational_distribution=vd)
        else:
            vs = dict(std=V.VariationalStrategy, unw=V.UnwhitenedVariationalStrategy)[strat](self, z, vd, learn_inducing_locations=True)
        if mt == "lmc":
            vs = V.LMCVariationalStrategy(vs, num_tasks=3, num_latents=2, latent_dim=-1)
        elif mt == "indep":
            vs = V.IndependentMultitaskVariationalStrategy(vs, num_tasks=2)
        super().__init__(vs)
        self.mean_module = M.ConstantMean(batch_shape=bs)
        self.covar_module = K.ScaleKernel(K.RBFKernel(batch_shape=bs), batch_shape=bs)

    def forward(self, x):
        return MultivariateNormal(self.mean_module(x), self.covar_module(x))



class DKL(gpytorch.models.ExactGP):
    """deep-kernel model: a learned feature map, the library's ScaleToBounds (running input range kept in buffers, rewritten by every
    training-mode call and only read in evaluation mode), then a kernel on the scaled features"""
    def __init__(self, x, y, lik, kern):
        super().__init__(x, y, lik)
        self.feature_extractor = torch.nn.Linear(x.shape[-1], 1)
        self.scale_to_bounds = gpytorch.utils.grid.ScaleToBounds(-1.0, 1.0)
        self.mean_module, self.covar_module = M.ConstantMean(), kern

    def forward(self, x):
        z = self.scale_to_bounds(self.feature_extractor(x))
        return MultivariateNormal(self.mean_module(z), self.covar_module(z))
