"""C09 - structure-exploiting kernels and prediction strategies equal their dense meaning.

Spec: Structured.tla (Kronecker / index / LCM / grid index maps over whole small domains; exact rational Nystrom, SGPR, Titsias,
RFF and WISKI algebra; the access forms of every structured family; kernel-level and model-level histories of the grid kernels), Interp.tla (Interpolation.interpolate transcribed, exact over rational lattices).
Replay: TLC's exact matrices / indices / weights / posteriors into the real kernels and strategies, then float64 sweeps of every
structured kernel against its dense formula and of every kernel-specific prediction strategy against the default strategy on the
same approximate matrix (checks/c09_dense.py)."""
import itertools
import math
import os
import random
from fractions import Fraction

from harness import core, tlc
from checks.c04 import tla
from checks import c09_dense as dense

LEVEL = "model_checking"
PID = "C09"
DEN = 4
GSM_KINDS = ("fixed", "dyn", "plain")


# ---------------------------------------------------------------------------------------------
# TLC wrappers
def tla_set(items):
    return "{" + ",\n  ".join(items) + "}"


def write_structured(workdir, name, part, *, instances=(), grid_sizes=(), order="lex", skikron="reversed", maxn=3, maxt=3, maxq=2, invariants=None,
                     gsm_kind="fixed", gsm_depth=0, gsm_clear="always", gsm_wide=False, gp_depth=0, gp_tight=0, gp_outside=False, access_model="code"):
    os.makedirs(workdir, exist_ok=True)
    mod = "MC_Structured_" + name
    with open(os.path.join(workdir, mod + ".tla"), "w") as f:
        f.write("---- MODULE %s ----\nEXTENDS Structured\nInstDef == %s\nGridDef == %s\n====\n" % (
            mod, tla_set([tla(i) for i in instances]), tla_set([tla(list(s)) for s in grid_sizes])))
    cfg = os.path.join(workdir, mod + ".cfg")
    inv = invariants or {"kron": ["KronOK"], "index": ["IndexOK"], "grid": ["GridOK"], "ski": ["SKIKuuOK", "SKIReversalOK", "SKIOrderOK"],
                         "sgpr": ["SgprOK"], "rff": ["RffOK"], "wiski": ["WiskiOK"], "gridsm": ["GsmOK"], "gridpred": ["GpOK", "GpCoverOK"], "access": ["AccessOK"]}[part]
    tlc.write_cfg(cfg, spec="Spec", constants={"Part": part, "Instances": "<- InstDef", "GridSizes": "<- GridDef", "Order": order, "SkiKron": skikron,
                                                "MaxN": maxn, "MaxT": maxt, "MaxQ": maxq, "GsmKind": gsm_kind, "GsmDepth": gsm_depth, "GsmClear": gsm_clear, "GsmWide": gsm_wide,
                                                "GpDepth": gp_depth, "GpTight": gp_tight, "GpOutside": gp_outside, "AccessModel": access_model}, invariants=inv)
    return os.path.join(workdir, mod + ".tla"), cfg


def write_interp(workdir, name, grids, order):
    os.makedirs(workdir, exist_ok=True)
    mod = "MC_Interp_" + name
    with open(os.path.join(workdir, mod + ".tla"), "w") as f:
        f.write("---- MODULE %s ----\nEXTENDS Interp\nGridsDef == %s\n====\n" % (mod, tla_set([tla(g) for g in grids])))
    cfg = os.path.join(workdir, mod + ".cfg")
    tlc.write_cfg(cfg, spec="Spec", constants={"Grids": "<- GridsDef", "Den": DEN, "Order": order}, invariants=["InterpOK"])
    return os.path.join(workdir, mod + ".tla"), cfg


def frac(v):
    return Fraction(int(v[0]), int(v[1]))


# ---------------------------------------------------------------------------------------------
# instance generators for the rational parts
NOISE_KINDS = ("homo", "fixed", "fixedadd", "hetero")


def gen_sgpr(rnd, count):
    """every base instance under both settings of the diagonal correction and every noise model of Structured.tla (NoiseKinds); the per-point
    variances nv are never all equal"""
    out, seen = [], set()
    while len(out) < count:
        m = rnd.choice([1, 1, 2])
        n, ns = rnd.choice([(2, 1), (2, 2), (3, 1)]) if m == 2 else rnd.choice([(2, 1), (3, 1), (3, 2), (2, 2)])
        L = [[(rnd.randint(1, 2) if i == j else (rnd.randint(-1, 1) if j < i else 0)) for j in range(m)] for i in range(m)]
        X = [[rnd.randint(-2, 2) for _ in range(m + 1)] for _ in range(n)]
        Xs = [[rnd.randint(-2, 2) for _ in range(m + 1)] for _ in range(ns)]
        nv = [rnd.randint(1, 3) for _ in range(n)]
        base = dict(L=L, X=X, Xs=Xs, y=[rnd.randint(-2, 2) for _ in range(n)], s2=rnd.choice([1, 2]), mc=rnd.randint(-1, 1), nv=nv)
        key = repr((L, X, Xs, base["y"]))
        if key in seen or len(set(map(tuple, X))) < n or any(tuple(x) in set(map(tuple, X)) for x in Xs) or len(set(nv)) < 2:
            continue
        seen.add(key)
        for nk in NOISE_KINDS:
            for corr in (False, True):
                out.append(dict(base, corr=corr, nk=nk))
    return out[:count]


def gen_rff(rnd, count):
    out, seen = [], set()
    while len(out) < count:
        n, f, ns = rnd.choice([(2, 1, 1), (2, 2, 2), (3, 2, 1), (2, 3, 1), (3, 1, 2), (1, 2, 1)])
        inst = dict(F=[[rnd.randint(-2, 2) for _ in range(f)] for _ in range(n)], Fs=[[rnd.randint(-2, 2) for _ in range(f)] for _ in range(ns)],
                    y=[rnd.randint(-2, 2) for _ in range(n)], s2=rnd.choice([1, 2]), mc=rnd.randint(-1, 1))
        if repr(inst) not in seen:
            seen.add(repr(inst))
            out.append(inst)
    return out


def gen_wiski(rnd, count):
    out, seen = [], set()
    while len(out) < count:
        g = rnd.choice([2, 2, 3])          # a 3 x 3 rational instance costs TLC ~0.5 s
        n = rnd.choice([1, 2])
        L = [[(rnd.randint(1, 2) if i == j else (rnd.randint(-1, 1) if j < i else 0)) for j in range(g)] for i in range(g)]
        inst = dict(W=[[rnd.randint(-1, 1) for _ in range(g)] for _ in range(n)], Ws=[[rnd.randint(-1, 1) for _ in range(g)]],
                    Wf=[[rnd.randint(-1, 1) for _ in range(g)]], L=L, y=[rnd.randint(-2, 2) for _ in range(n)], yf=[rnd.randint(-2, 2)], s2=rnd.choice([1, 2]))
        if repr(inst) not in seen:
            seen.add(repr(inst))
            out.append(inst)
    return out


def interp_grids(thorough):
    """1-D and 2-D integer grids (>= 4 nodes per dimension); the target lattice has step 1/4"""
    one = [[dict(lo=lo, step=st, size=sz)] for sz in ((4, 5, 6, 7) if thorough else (4, 5, 7)) for lo, st in ((0, 1), (-2, 1), (-1, 2))]
    sizes2 = [(4, 4), (4, 5), (5, 4), (5, 6), (6, 5)] if thorough else [(4, 5), (5, 4)]
    two = [[dict(lo=-1, step=1, size=a), dict(lo=0, step=1, size=b)] for a, b in sizes2]
    if thorough:
        two.append([dict(lo=0, step=2, size=4), dict(lo=-2, step=1, size=5)])
    return one, two


# ---------------------------------------------------------------------------------------------
# replay of the TLC cases into the real code
def detect_order():
    """which flattening the code under test uses for a multi-index (the code-shaped model follows it; the verdicts are property-level)"""
    torch = core.setup_torch()
    from gpytorch.utils.interpolation import Interpolation
    g0, g1 = torch.arange(0.0, 5.0, dtype=torch.float64), torch.arange(0.0, 7.0, dtype=torch.float64)
    idx, val = Interpolation().interpolate([g0, g1], torch.tensor([[1.0, 3.0]], dtype=torch.float64))   # node (1, 3)
    hit = int(idx[0][val[0].argmax()])
    if hit == 1 * 7 + 3:
        return "lex"
    if hit == 1 + 3 * 5:
        return "colmajor"
    return "invalid:%d" % hit      # neither convention: a grid-index flattening that is not a bijection of the grid (reported by run)


def detect_skikron():
    """Kronecker order of GridInterpolationKernel's K_uu (rows enumerate the grid with dimension 0 fastest = "reversed", or last fastest)"""
    torch = core.setup_torch()
    import gpytorch
    _, LabelStationary = _label_kernels(torch, gpytorch)
    kern = gpytorch.kernels.GridInterpolationKernel(LabelStationary(), grid_size=[4, 5], grid_bounds=[(0.0, 2.0), (0.0, 6.0)]).to(torch.float64)
    with torch.no_grad():
        K = kern._inducing_forward(last_dim_is_batch=False).to_dense()
    g0, g1 = kern.grid
    d0, d1 = float((g0[1] - g0[0]).abs()), float((g1[1] - g1[0]).abs())
    v = float(K[1, 0])
    if abs(v - (11.0 + d0) * 101.0) < 1e-6:
        return "reversed"
    if abs(v - 11.0 * (101.0 + d1)) < 1e-6:
        return "forward"
    raise core.Machinery("K_uu[1, 0] of a 4 x 5 interpolation grid is %r: neither Kronecker order" % v)


def _label_kernels(torch, gpytorch):
    class LabelData(gpytorch.kernels.Kernel):
        """stub data kernel of Structured.tla: k(point i, point j) = 100 q + 10 i + j on labelled points x = [i]"""

        def __init__(s_, q):
            super().__init__()
            s_.q = q

        def forward(s_, x1, x2, diag=False, **params):
            K = 100.0 * s_.q + 10.0 * x1[..., :, :1] + x2[..., :, :1].transpose(-1, -2)
            return K.diagonal(dim1=-1, dim2=-2) if diag else K

    class LabelStationary(gpytorch.kernels.Kernel):
        """stub stationary product kernel of Structured.tla: prod_i (Prime_i + |x_i - x'_i|)"""
        is_stationary = True

        def forward(s_, x1, x2, diag=False, last_dim_is_batch=False, **params):
            primes = torch.tensor([11.0, 101.0, 1009.0], dtype=x1.dtype)[: x1.shape[-1]]
            per = (x1.unsqueeze(-2) - x2.unsqueeze(-3)).abs() + primes          # n x m x d
            res = per.movedim(-1, -3) if last_dim_is_batch else per.prod(-1)
            return res.diagonal(dim1=-1, dim2=-2) if diag else res
    return LabelData, LabelStationary


def _set_index_kernel(torch, ik, q, t, r):
    with torch.no_grad():
        F = torch.tensor([[a + 2 * rho + q - 3 for rho in range(1, r + 1)] for a in range(1, t + 1)], dtype=torch.float64).reshape(t, r)
        ik.covar_factor.copy_(F)
        ik.var = torch.tensor([float(a + q) for a in range(1, t + 1)], dtype=torch.float64)


def l1_worker(item):
    torch = core.setup_torch()
    import gpytorch
    out = []
    for c in item["cases"]:
        r = globals()["_l1_" + c["part"]](torch, gpytorch, c)
        out.extend(r if isinstance(r, list) else [r])
    return out


def _cell(c, sig, nontrivial=True):
    return dict(key=[c["part"], c["c"]], ok=True, nontrivial=nontrivial, sig=sig, detail="", case=dict(c, section="l1"))


def _l1_kron(torch, gpytorch, c):
    D = torch.float64
    k = c["c"]
    n, m, t, r, Q = k["n"], k["m"], k["t"], k["r"], k["Q"]
    res = _cell(c, "C09/exact/%s/rank%s" % ("multitask" if Q == 1 else "lcm", "0" if r == 0 else ("full" if r == t else "low")), nontrivial=(n > 1 or m > 1) and t > 1)
    LabelData, _ = _label_kernels(torch, gpytorch)
    x1 = torch.arange(1, n + 1, dtype=D).unsqueeze(-1)
    x2 = torch.arange(1, m + 1, dtype=D).unsqueeze(-1)
    want = torch.tensor(c["out"], dtype=D)

    def build():
        if Q == 1:
            kern = gpytorch.kernels.MultitaskKernel(LabelData(1), num_tasks=t, rank=r).to(D)
            mts = [kern]
        else:
            kern = gpytorch.kernels.LCMKernel([LabelData(q) for q in range(1, Q + 1)], num_tasks=t, rank=r).to(D)
            mts = list(kern.covar_module_list)
        for q, mt in enumerate(mts, 1):
            _set_index_kernel(torch, mt.task_covar_module, q, t, r)
        with torch.no_grad():
            return kern(x1, x2).to_dense()
    ok, got = core.guarded(build)
    if not ok:
        return dense.fail(res, res["sig"] + "/raises", "n=%d m=%d t=%d rank=%d terms=%d: %s" % (n, m, t, r, Q, got))
    ok, why = core.close(got, want, 1e-12, 1e-12)
    if not ok:
        dense.fail(res, res["sig"], "n=%d m=%d t=%d rank=%d terms=%d: to_dense() differs from the spec's sum_q K_q[i,j] B_q[a,b] at (i*t+a, j*t+b): %s; got %s want %s" % (
            n, m, t, r, Q, why, got.tolist(), want.tolist()))
    return res


def _l1_index(torch, gpytorch, c):
    D = torch.float64
    k = c["c"]
    t, r, i1, i2 = k["t"], k["r"], list(k["i1"]), list(k["i2"])
    res = _cell(c, "C09/exact/index/rank%s" % ("0" if r == 0 else ("full" if r == t else "low")), nontrivial=t > 1 and len(set(i1)) > 1)
    LabelData, _ = _label_kernels(torch, gpytorch)
    ik = gpytorch.kernels.IndexKernel(num_tasks=t, rank=r).to(D)
    _set_index_kernel(torch, ik, 1, t, r)
    a = torch.tensor(i1).unsqueeze(-1)
    b = torch.tensor(i2).unsqueeze(-1)
    x1 = torch.arange(1, len(i1) + 1, dtype=D).unsqueeze(-1)
    x2 = torch.arange(1, len(i2) + 1, dtype=D).unsqueeze(-1)
    desc = "t=%d rank=%d i1=%s i2=%s" % (t, r, i1, i2)
    with torch.no_grad():
        ok, got = core.guarded(lambda: (ik(a, b).to_dense(), LabelData(1)(x1, x2).mul(ik(a, b)).to_dense()))
    if not ok:
        return dense.fail(res, res["sig"] + "/raises", "%s: %s" % (desc, got))
    for g_, w_, what in ((got[0], c["out"]["index"], "IndexKernel(i1, i2)"), (got[1], c["out"]["hadamard"], "K(x1, x2) * IndexKernel(i1, i2)")):
        ok, why = core.close(g_, torch.tensor(w_, dtype=D), 1e-12, 1e-12)
        if not ok:
            dense.fail(res, res["sig"], "%s: %s differs from the spec's (F F^T + diag v)[task_r, task_c] lookup: %s" % (desc, what, why))
    return res


def _l1_grid(torch, gpytorch, c):
    D = torch.float64
    k = c["c"]
    sizes, toep = list(k["sizes"]), bool(k["toep"])
    d = len(sizes)
    res = _cell(c, "C09/exact/grid/%dd-%s-%s" % (d, "ragged" if len(set(sizes)) > 1 else "square", "toeplitz" if toep else "dense"), nontrivial=d > 1)
    _, LabelStationary = _label_kernels(torch, gpytorch)
    grid = [torch.tensor([float((i + 1) + a * (i + 1)) for a in range(s)], dtype=D) for i, s in enumerate(sizes)]       # Off(i) + a Step(i), i 1-based
    desc = "sizes=%s use_toeplitz=%s" % (sizes, toep)

    def build():
        kern = gpytorch.kernels.GridKernel(LabelStationary(), grid=grid).to(D)
        with torch.no_grad(), gpytorch.settings.use_toeplitz(toep):
            return kern(kern.full_grid, kern.full_grid).to_dense(), kern.full_grid
    ok, got = core.guarded(build)
    if not ok:
        return dense.fail(res, res["sig"] + "/raises", "%s: %s" % (desc, got))
    want = torch.tensor(c["out"], dtype=D)
    ok, why = core.close(got[0], want, 1e-12, 1e-9)
    if not ok:
        dense.fail(res, res["sig"], "%s: GridKernel on its full_grid differs from the product kernel on the points of full_grid (spec GridDense): %s" % (desc, why))
    # and the spec's matrix IS the product kernel on the real full_grid (binding of FullGrid)
    _, LS = _label_kernels(torch, gpytorch)
    ok, why = core.close(LS().forward(got[1], got[1]), want, 1e-12, 1e-9)
    if not ok:
        dense.fail(res, res["sig"] + "/full_grid-order", "%s: create_data_from_grid orders the points differently from the spec's FullGrid: %s" % (desc, why))
    return res


def _l1_interp(torch, gpytorch, c):
    """interpolate() on one grid and ALL its lattice targets at once (as the kernel calls it) against TLC's indices and weights"""
    D = torch.float64
    from gpytorch.utils.interpolation import Interpolation
    g = c["g"]
    d = len(g)
    grid = [torch.tensor([float(gd["lo"] + j * gd["step"]) for j in range(gd["size"])], dtype=D) for gd in g]
    ks = [list(p["k"]) for p in c["points"]]
    X = torch.tensor([[gd["lo"] + k[i] / DEN for i, gd in enumerate(g)] for k in ks], dtype=D)
    gname = "x".join(str(gd["size"]) for gd in g)
    out = []
    ok, got = core.guarded(lambda: Interpolation().interpolate(grid, X))
    if not ok:
        r = dict(key=["interp", g], ok=False, nontrivial=True, sig="C09/interp/%dd/raises" % d, detail="grid %s: %s" % (g, got), case=dict(c, section="l1"))
        return [r]
    idx, val = got
    npts = math.prod(gd["size"] for gd in g)
    for row, p in enumerate(c["points"]):
        k = list(p["k"])
        x = [Fraction(gd["lo"] * DEN + k[i], DEN) for i, gd in enumerate(g)]
        region = "interior" if p["interior"] else "boundary"
        r = dict(key=["interp", g, k], ok=True, nontrivial=not p["node"], sig="C09/interp/%dd/%s" % (d, region), detail="", case=dict(part="interp", g=g, points=[p], section="l1"))
        desc = "grid %s target %s" % ([(gd["lo"], gd["step"], gd["size"]) for gd in g], [str(v) for v in x])
        gi, gv = idx[row].tolist(), val[row].tolist()
        wi = [int(v) for v in p["idx"]]
        ww = [frac(v) for v in p["w"]]
        # property level: range, sum to one, exact at nodes
        if any(j < 0 or j >= npts for j in gi):
            dense.fail(r, r["sig"] + "/range", "%s: indices %s outside 0..%d" % (desc, gi, npts - 1))
        if abs(sum(gv) - 1.0) > 1e-12:
            dense.fail(r, r["sig"] + "/sum", "%s: weights sum to %.15g" % (desc, sum(gv)))
        agg = {}
        for j, v in zip(gi, gv):
            agg[j] = agg.get(j, 0.0) + v
        wagg = {}
        for j, v in zip(wi, ww):
            wagg[j] = wagg.get(j, 0) + v
        if p["node"]:
            node = [j for j, v in wagg.items() if v == 1]
            if len(node) != 1:
                raise core.Machinery("spec gives no unit weight at a node: %s" % desc)
            if any(abs(v - (1.0 if j == node[0] else 0.0)) > 1e-12 for j, v in agg.items()) or node[0] not in agg:
                dense.fail(r, r["sig"] + "/node", "%s: at a grid node the weights are %s (expected weight 1 on flat index %d)" % (desc, agg, node[0]))
        # against TLC's exact values: in the interior these are Keys' kernel (declarative); near the boundary the snapping is the code's own
        # choice, a difference there is model drift unless one of the property clauses above fails
        same = set(agg) >= set(j for j, v in wagg.items() if v != 0) and all(abs(agg.get(j, 0.0) - float(v)) <= 1e-12 for j, v in wagg.items()) \
            and all(abs(v) <= 1e-12 for j, v in agg.items() if j not in wagg)
        if not same:
            msg = "%s: interpolate() gives %s, the transcription %s" % (desc, sorted(agg.items()), sorted((j, float(v)) for j, v in wagg.items()))
            if p["interior"]:
                dense.fail(r, r["sig"] + "/weights", msg + " (Keys' cubic convolution weights on the four surrounding nodes)")
            else:
                r["drift"] = "Interp.tla boundary handling: " + msg
        if row % 97 == 0:
            r["sample"] = dict(case=desc, idx=gi[:4], w=[str(v) for v in ww[:4]])
        out.append(r)
    return out


def interp_float_worker(item):
    """interpolate() on seeded regular float grids and seeded targets: range, sum to one, exact at nodes, reproduction of a random
    polynomial of total degree <= 2 at the targets that are interior in every dimension"""
    torch = core.setup_torch()
    from gpytorch.utils.interpolation import Interpolation
    D = torch.float64
    out = []
    for c in item["cases"]:
        g = torch.Generator().manual_seed(c["seed"])
        sizes, d = c["sizes"], len(c["sizes"])
        grid = []
        for sz in sizes:
            lo = float(torch.rand(1, generator=g, dtype=D)) * 4 - 2
            step = 0.05 + float(torch.rand(1, generator=g, dtype=D))
            grid.append(lo + step * torch.arange(sz, dtype=D))
        npts = math.prod(sizes)
        nt = c["n"]
        U = torch.stack([torch.rand(nt, generator=g, dtype=D) * (sz - 1) for sz in sizes], -1)          # targets in index space
        node_rows = torch.arange(0, nt, 5)
        U[node_rows] = U[node_rows].round()                                                              # every fifth target is a grid node
        X = torch.stack([grid[i][0] + U[:, i] * (grid[i][1] - grid[i][0]) for i in range(d)], -1)
        for i in range(d):
            X[node_rows, i] = grid[i][U[node_rows, i].long()]
        r = dict(key=["interp-float", sizes], ok=True, nontrivial=True, sig="C09/interp-float/%dd" % d, detail="", case=dict(c, section="interp-float"))
        desc = "sizes=%s seed=%d" % (sizes, c["seed"])
        ok, got = core.guarded(lambda: Interpolation().interpolate(grid, X))
        if not ok:
            out.append(dense.fail(r, r["sig"] + "/raises", "%s: %s" % (desc, got)))
            continue
        idx, val = got
        if int(idx.min()) < 0 or int(idx.max()) >= npts:
            dense.fail(r, r["sig"] + "/range", "%s: indices outside 0..%d" % (desc, npts - 1))
            out.append(r)
            continue
        if float((val.sum(-1) - 1).abs().max()) > 1e-12:
            dense.fail(r, r["sig"] + "/sum", "%s: weights sum to %.15g" % (desc, float(val.sum(-1)[(val.sum(-1) - 1).abs().argmax()])))
        # the grid point a flat index denotes (the code's own flattening, detected)
        coeff = [math.prod(sizes[i + 1:]) if c["order"] == "lex" else math.prod(sizes[:i]) for i in range(d)]
        multi = [(idx // coeff[i]) % sizes[i] for i in range(d)]
        pts = torch.stack([grid[i][multi[i]] for i in range(d)], -1)                                    # nt x 4^d x d
        W = torch.zeros(nt, npts, dtype=D).scatter_add_(1, idx, val)
        flat_nodes = sum(U[node_rows, i].long() * coeff[i] for i in range(d))
        want = torch.zeros(len(node_rows), npts, dtype=D)
        want[torch.arange(len(node_rows)), flat_nodes] = 1.0
        if float((W[node_rows] - want).abs().max()) > 1e-12:
            dense.fail(r, r["sig"] + "/node", "%s: at a grid node the weights are not (1 on the node, 0 elsewhere): max deviation %.3e" % (desc, float((W[node_rows] - want).abs().max())))
        interior = torch.ones(nt, dtype=torch.bool)
        for i, sz in enumerate(sizes):
            interior &= (U[:, i] >= 1 + 1e-6) & (U[:, i] <= sz - 2 - 1e-6)
        A = torch.randn(d, d, generator=g, dtype=D)
        bvec, c0 = torch.randn(d, generator=g, dtype=D), float(torch.randn(1, generator=g, dtype=D))

        def f(P):
            return ((P @ A) * P).sum(-1) + P @ bvec + c0
        lhs = (val * f(pts)).sum(-1)
        rhs = f(X)
        scale = max(1.0, float(f(pts).abs().max()))
        if interior.any() and float((lhs - rhs)[interior].abs().max()) > 1e-10 * scale:
            dense.fail(r, r["sig"] + "/quadratic", "%s: a polynomial of total degree 2 is not reproduced at interior targets: max error %.3e (scale %.3e)" % (
                desc, float((lhs - rhs)[interior].abs().max()), scale))
        r["n"] = nt
        r["interior"] = int(interior.sum())
        out.append(r)
    return out


def _l1_sgpr(torch, gpytorch, c):
    D = torch.float64
    inst, exp = c["c"], c["out"]
    corr = bool(inst["corr"])
    nk = inst["nk"]
    res = _cell(c, "C09/exact/sgpr/%s/%s" % (nk, "corr" if corr else "nocorr"))
    X = torch.tensor(inst["X"], dtype=D)
    Xs = torch.tensor(inst["Xs"], dtype=D)
    y = torch.tensor(inst["y"], dtype=D)
    nv = torch.tensor(inst["nv"], dtype=D)
    Z = torch.tensor([row + [0] for row in inst["L"]], dtype=D)
    desc = "L=%s X=%s Xs=%s y=%s noise model=%s s2=%d nv=%s mean=%d correction=%s" % (inst["L"], inst["X"], inst["Xs"], inst["y"], nk, inst["s2"], inst["nv"], inst["mc"], corr)
    lik, needs = dense.make_lik(torch, gpytorch, nk, inst["s2"], nv, dense.table_noise_model(torch, gpytorch, X, nv) if nk == "hetero" else None)
    lin = gpytorch.kernels.LinearKernel().to(D)
    with torch.no_grad():
        lin.variance = torch.tensor(1.0, dtype=D)
    kern = gpytorch.kernels.InducingPointKernel(lin, inducing_points=Z, likelihood=lik).to(D)
    model = dense.make_gp_with(torch, gpytorch, X, y, kern, lik, inst["mc"])
    # binding of the noise model: the diagonal the likelihood adds at the training inputs is the spec's NoiseVec
    wn = torch.tensor([float(frac(v)) for v in exp["nz"]], dtype=D)
    ok, gn = core.guarded(lambda: dense.lik_noise_vector(torch, lik, X, needs))
    if not ok:
        return dense.fail(res, res["sig"] + "/noise-raises", "%s: %s" % (desc, gn))
    if gn.shape != wn.shape or float((gn - wn).abs().max()) > 1e-12 or abs(float(lin.variance) - 1.0) > 1e-12:
        raise core.Machinery("could not set the integer hyperparameters exactly: noise %s, spec %s" % (gn.tolist(), wn.tolist()))
    wm = torch.tensor([float(frac(v)) for v in exp["mean"]], dtype=D)
    wc = torch.tensor([[float(frac(v)) for v in row] for row in exp["cov"]], dtype=D)
    n = len(inst["y"])
    params = (X,) if needs else ()

    def kernel_forms(mode, x, want, where):
        """the KERNEL on x under every access form of Structured.tla part "access" against TLC's exact matrix (spec: kxtrain / kxeval / kseval)"""
        wantM = torch.tensor([[float(frac(v)) for v in row] for row in want], dtype=D)
        kern.train(mode == "train")
        for form in dense.ACCESS_FORMS:
            with torch.no_grad(), gpytorch.settings.sgpr_diagonal_correction(corr):
                ok, got = core.guarded(lambda: dense.read_form(torch, gpytorch, kern, x, x, form))
            sg = "C09/exact/sgpr/kernel/%s-%s/%s" % (mode, "corr" if corr else "nocorr", form)
            if not ok:
                dense.fail(res, sg + "/raises", "%s: InducingPointKernel in %s mode on the %s, read as %s: %s" % (desc, mode, where, form, got))
                continue
            ok, why = core.close(got, dense.project_form(torch, gpytorch, wantM, form), 1e-9, 1e-10)
            if not ok:
                dense.fail(res, sg, "%s: InducingPointKernel in %s mode on the %s, read as %s: %s, the exact %s of Kxz Kzz^-1 Kzx%s is %s: %s" % (
                    desc, mode, where, form, got.tolist(), "matrix" if form == "full" else "diagonal",
                    " + diag(Kxx - Qxx)" if (corr and mode == "eval") else " (no diagonal correction)", [[str(frac(v)) for v in row] for row in want], why))
    if nk == "homo":
        kernel_forms("train", X, exp["kxtrain"], "training inputs")
        kernel_forms("eval", X, exp["kxeval"], "training inputs")
        kernel_forms("eval", Xs, exp["kseval"], "test inputs")
        kern.train(True)
        res["gap"] = float(max([frac(v) for v in exp["gap"]] + [frac(v) for v in exp["gaps"]]))
    if not corr:
        # training objective * N against the collapsed bound assembled from TLC's exact pieces (tr = sum_p gap_p / noise_p)
        bound = -0.5 * (float(frac(exp["quad"])) + math.log(float(frac(exp["det"]))) + n * math.log(2 * math.pi)) - float(frac(exp["tr"])) / 2
        ok, got = core.guarded(lambda: dense.sgpr_objective(torch, gpytorch, model, lik, X, y, params))
        if not ok:
            return dense.fail(res, "C09/exact/sgpr/%s/objective/raises" % nk, "%s: %s" % (desc, got))
        if abs(got - bound) > 1e-8 * max(1.0, abs(bound)):
            dense.fail(res, "C09/exact/sgpr/%s/objective" % nk, "%s: N * mll = %.12g, collapsed bound from the exact pieces (quad %s, det %s, trace term sum_p gap_p / noise_p = %s) = %.12g" % (
                desc, got, frac(exp["quad"]), frac(exp["det"]), frac(exp["tr"]), bound))
    model.eval()
    lik.eval()

    def predict():
        with torch.no_grad(), gpytorch.settings.sgpr_diagonal_correction(corr):
            post = model(Xs)
            return post.mean.clone(), post.covariance_matrix.clone(), type(model.prediction_strategy).__name__
    ok, got = core.guarded(predict)
    if not ok:
        return dense.fail(res, res["sig"] + "/raises", "%s: %s" % (desc, got))
    if got[2] != "SGPRPredictionStrategy":
        res["drift"] = "InducingPointKernel model predicts with %s" % got[2]
    ok, why = core.close(got[0], wm, 1e-9, 1e-10)
    if not ok:
        dense.fail(res, res["sig"] + "/mean", "%s: predictive mean %s, exact SGPR / dense conditional mean %s: %s" % (desc, got[0].tolist(), [str(frac(v)) for v in exp["mean"]], why))
    ok, why = core.close(got[1], wc, 1e-9, 1e-10)
    if not ok:
        dense.fail(res, res["sig"] + "/covariance", "%s: predictive covariance %s, exact %s: %s" % (desc, got[1].tolist(), [[str(frac(v)) for v in row] for row in exp["cov"]], why))
    res["sample"] = dict(case=desc, mean=[str(frac(v)) for v in exp["mean"]])
    return res


# ---------------------------------------------------------------------------------------------
def float_cases(thorough, seed, rnd):
    """(2) - (5): seeded float64 cells"""
    dn, st, ob, rf = [], [], [], []
    counter = itertools.count(seed * 100000 + 1)

    def add(lst, **k):
        lst.append(dict(k, seed=next(counter)))
    reps = 3 if thorough else 1
    for _ in range(reps):
        for t in (1, 2, 3) if thorough else (2, 3):
            for rank in range(0, t + 1):
                for same in (True, False):
                    add(dn, kind="mtask", n=3, m=2, t=t, d=2, rank=rank, same=same)
                    add(dn, kind="lcm", n=3, m=2, t=t, d=1, rank=rank, same=same, q=2 if not thorough else rnd.choice([2, 3]))
                    for use in ("alone", "hadamard-mul", "product"):
                        add(dn, kind="index", n=4, m=3, t=t, d=2, rank=rank, same=same, use=use)
        grid_sizes = [[5], [4, 4], [3, 5], [2, 3, 4]] + ([[6, 2], [3, 3, 3], [7]] if thorough else [])
        for sizes in grid_sizes:
            for toep in (0, 1):
                for mode in ("train", "eval"):
                    for base, ard in (("rbf", False), ("rbf", True), ("matern25", False)):
                        if not thorough and mode == "train" and base == "matern25":
                            continue
                        add(dn, kind="grid", sizes=sizes, toeplitz=toep, mode=mode, base=base, ard=ard)
        ski = [([12], [(0, 1)], False), ([10, 10], [(0, 1), (0, 1)], False), ([10, 10], [(0, 1), (0, 1)], True), ([8, 11], [(0, 1), (0, 1)], False),
               ([9, 9], [(0, 1), (-1, 2)], False), ([14], None, False)] + ([([6, 7, 8], [(0, 1)] * 3, False), ([6, 6, 6], [(0, 1)] * 3, False), ([20], [(-2, 3)], False)] if thorough else [])
        for sizes, bounds, ard in ski:
            for toep in (0, 1):
                for mode in ("train", "eval"):
                    for same in (True, False):
                        for scale in (0, 1):
                            if not thorough and (toep + (mode == "eval") + same + scale) % 2 == 1 and len(sizes) > 1:
                                continue
                            add(dn, kind="ski", sizes=sizes, bounds=[list(b) for b in bounds] if bounds else None, ard=ard, toeplitz=toep, mode=mode, same=same, scale=scale, base="rbf", n=5, m=3)
        for mode, corr in (("train", 1), ("eval", 0), ("eval", 1)):
            for same in (True, False):
                for d in (1, 2):
                    for base in ("rbf", "matern25"):
                        add(dn, kind="nystrom", n=6, m=3, d=d, nz=3, base=base, mode=mode, corr=corr, same=same)
        for ns in (2, 5):
            for same in (True, False):
                for ard in (0, 1):
                    for scale in (0, 1):
                        add(dn, kind="rff", n=7, m=3, d=2, num_samples=ns, same=same, ard=ard, scale=scale)
    # (3) strategies: every cell of solve x fast_pred_var x (correction | toeplitz) per family
    kiss = [([16], [(-1.2, 1.2)], False), ([10, 10], [(-1.2, 1.2)] * 2, False), ([9, 11], [(-1.2, 1.2), (-1, 1.5)], True), ([16], None, False)]
    for rep in range(6 if thorough else 1):
        for solve in ("chol", "cg"):
            for fpv in (0, 1):
                for scale in (0, 1):
                    fps = (rep + fpv + scale) % 2
                    for toep in (0, 1):
                        for ki, (sizes, bounds, ard) in enumerate(kiss):
                            for fantasy in (0, 1):
                                if not thorough and (ki + toep + fantasy + scale + fpv) % 2 == 1:
                                    continue
                                add(st, fam="kiss", d=len(sizes), n=12 if solve == "chol" else 8, ns=4, sizes=sizes, bounds=[list(b) for b in bounds] if bounds else None, ard=ard, solve=solve,
                                    fpv=fpv, scale=scale, fps=fps, toeplitz=toep, noise=0.2 if solve == "chol" else 0.4, mean=0.3, fantasy=fantasy)
                    for corr in (0, 1):
                        for d in (1, 2):
                            for nk in dense.NOISE_KINDS:      # the SGPR predictive equations under every noise model of the Gaussian family
                                if not thorough and nk != "homo" and (corr + d + fpv + scale + (solve == "cg")) % 2 == 1:
                                    continue
                                add(st, fam="sgpr", d=d, n=12, ns=4, nz=4, solve=solve, fpv=fpv, scale=scale, fps=fps, corr=corr, noise=0.2, mean=0.3, nk=nk)
                    for nsmp in (3, 10):
                        add(st, fam="rff", d=2, n=12 if solve == "chol" else 8, ns=4, num_samples=nsmp, solve=solve, fpv=fpv, scale=scale, fps=fps,
                            noise=0.2 if solve == "chol" else 0.4, mean=0.3)
    # (4) objective: every noise model of the Gaussian likelihood family (Structured.tla NoiseKinds, their batched forms, the Dirichlet
    # classification likelihood) and the multitask branch
    for rep in range(6 if thorough else 1):
        for solve in ("chol", "cg"):
            for d in (1, 2):
                for nz in (2, 5):
                    for base in ("rbf", "matern25"):
                        for nk in dense.OBJECTIVE_KINDS:
                            if nk == "mtask" or (solve == "cg" and nk not in dense.NOISE_KINDS):
                                continue
                            if not thorough and nk not in dense.NOISE_KINDS and (d + (nz == 5) + (base == "rbf")) % 2 == 1:
                                continue
                            add(ob, n=10, d=d, nz=nz, base=base, solve=solve, nk=nk, noise=0.15 + 0.1 * rep, mean=0.2 * rep - 0.3)
        for t, ranks in ((2, (0, 1, 2)), (3, (1,) if not thorough else (0, 1, 3))):
            for rank in ranks:
                for mn in dense.MTASK_NOISES:
                    for bunit in (1, 0):
                        add(ob, n=6, d=1 + (rank + t) % 2, nz=3, base="rbf" if (rank + bunit) % 2 else "matern25", solve="chol", nk="mtask", t=t, rank=rank, mnoise=mn[0],
                            bunit=bunit, noise=0.15 + 0.1 * rep, mean=0.0)
    # (5) refinement table
    for d, sizes in ((1, [10, 20, 40]), (2, [8, 16, 32])):
        for base in ("rbf", "matern25"):
            add(rf, d=d, base=base, sizes=sizes, n=8)
    return dn, st, ob, rf


def gsm_mode0(hist, final_mode):
    """the mode a gridsm history started in (the spec's Init choice), recovered from the history: switches flip it"""
    flips = sum(1 for st in hist if st["a"] == "switch")
    other = "train" if final_mode == "eval" else "eval"
    return final_mode if flips % 2 == 0 else other


def chunks(lst, k):
    return [dict(cases=lst[i:i + k]) for i in range(0, len(lst), k)]


def _tick(label, _t=[None]):
    import sys
    import time
    now = time.time()
    if os.environ.get("VERIF_C09_TIMING") and _t[0] is not None:
        sys.stderr.write("[c09 timing] %-28s %.1fs\n" % (label, now - _t[0]))
    _t[0] = now


def run(ck):
    thorough = ck.tier == "thorough"
    _tick("start")
    core.setup_torch()
    rnd = random.Random(ck.seed)
    order, skikron = detect_order(), detect_skikron()
    if order.startswith("invalid"):
        # property level: the interpolation indices must address the nodes of the grid the kernel is built on
        ck.violation("C09/interp/flattening/not-a-grid-enumeration",
                     "interpolate() flattens the 2-D node (1, 3) of a 5 x 7 grid to %s, which is neither the last-dimension-fastest nor the "
                     "first-dimension-fastest enumeration of the 35 nodes: the weights address other nodes than the ones they were computed for" % order.split(":")[1],
                     dict(grid=[5, 7], node=[1, 3]))
        ck.case(["interp-flattening"], True)
        return
    ck.rule = ("exact cases = every state of Structured.tla parts kron / index / grid (whole small domains) and sgpr (rational instances, each under every noise model "
               "of the Gaussian likelihood family: homoskedastic, fixed per-point, fixed per-point + learned, input-dependent) and every lattice target "
               "of Interp.tla (step 1/4 over 1-D and 2-D integer grids), each replayed into the real kernel / interpolate() / SGPR model against TLC's exact "
               "matrix, indices, weights, posterior and bound pieces; grid histories = every behaviour of Structured.tla part gridsm (evaluate / update_grid / "
               "load_state_dict / re-laying of a data-dependent grid / train-eval switches, up to the stated depth) that ends with an evaluation, replayed into a real "
               "GridInterpolationKernel / GridKernel and compared at the last step with W K_UU W^T of the CURRENT grid and with a fresh kernel on that grid; "
               "grid predictions = every behaviour of part gridpred (model-level predictions of a KISS-GP exact GP on a data-driven grid, the test extent in every position "
               "relative to the training extent on either side: well inside / a fraction of a cell inside / equal / outside; strategy resets) that ends with a prediction, replayed "
               "into a real ExactGP (d, fast_pred_var, use_toeplitz, ScaleKernel assigned so that every combination occurs for every last position) and compared at the last step with "
               "the dense conditional of covar_module(cat(train, test)).to_dense(); access forms = every state of part access (10 structured kernel families x train/eval x the "
               "setting the family reads x x1 is x2 or not x 5 ways of reading the kernel), each read from a real kernel and compared with the projection of the dense formula; the "
               "exact SGPR instances also read the InducingPointKernel itself in every form and mode against TLC's exact Nystrom (+ correction) matrix; "
               "seeded float grids / targets for interpolate() (sum, nodes, quadratics); float cells = seeded "
               "instances of every structured kernel against its dense formula, "
               "of every kernel-specific prediction strategy x settings cell (SGPR also x noise model) against the default strategy on the same approximate matrix, and of the SGPR "
               "objective x noise model (also batched, Dirichlet classification, multitask) against the collapsed bound; "
               "non-trivial = more than one point and task / a target that is not a grid node / a multi-dimensional grid / a history in which the grid moved / any float cell")
    ck.assumptions = [
        "SGPR dense meaning (read from SGPRPredictionStrategy and Titsias 2009): the predictive distribution is the Gaussian conditional of the joint prior with "
        "training block Qxx (+ diag(Kxx - Qxx) when sgpr_diagonal_correction is on) + noise, cross block Q*x and test block the BASE kernel K** "
        "(not Q** + correction, which is what the kernel itself returns for test inputs in eval mode)",
        "GridInterpolationKernel meaning: sum_{u,u'} w_u(x) k(u,u') w_u'(x') with tensor-product cubic weights w_u(x) = prod_c w^c_{u_c}(x_c) taken per dimension "
        "from interpolate() and k the base kernel on the grid points (enumeration-free); in 1-D also W K_grid W^T with W from interpolate() itself",
        "grid kernels: equally spaced float64 grids (GridInterpolationKernel's own grid is created in float32 and only cast, so it is rebuilt with "
        "update_grid(create_grid(..., dtype=float64)) before use); data strictly inside the grid bounds; grid sizes >= 2 per dimension (a 1-point "
        "dimension under use_toeplitz fails inside linear_operator's KroneckerProductLinearOperator, outside /repo); for d > 1 the dense formula of GridKernel is "
        "the product over dimensions of the 1-D base kernel (for RBF also the base kernel on full_grid)",
        "strategies are created under the default lazily_evaluate_kernels(True) (known finding of C03 otherwise); KISS-GP fantasy updates only with parameters "
        "not requiring grad (known finding of C04 otherwise)",
        "tolerances: direct paths 1e-7 (fast_pred_var root caches of KISS-GP 1e-6) relative to the magnitude of the PRIOR covariance / the targets (the posterior "
        "covariance is a difference of prior-sized terms); iterative cells (max_cholesky_size(0), eval_cg_tolerance 1e-12) %.0e, their WISKI fantasy updates %.0e: "
        "linear_operator's linear_cg stops updating a column at residual 1e-10 and guards divisions with eps = 1e-10, calibration on the unchanged tree gave "
        "up to 7e-5 (2e-4 with fantasy updates); instances with cond(K + noise) > 1e4 are skipped" % (dense.CG_RTOL, dense.CG_FANTASY_RTOL),
        "collapsed bound for a Gaussian likelihood with diagonal noise covariance N (Titsias 2009 with sigma^2 I replaced by N; Structured.tla proves on the rational "
        "instances that it is the ELBO at the optimal q(u)): log N(y; m, Qxx + N) - tr(N^-1 (Kxx - Qxx)) / 2, N = the diagonal the likelihood adds at the training inputs "
        "(FixedNoise: the given variances, + the learned variance with learn_additional_noise; HeteroskedasticNoise: the noise model's mean at the inputs, passed as mll "
        "params); for MultitaskKernel(InducingPointKernel) under MultitaskGaussianLikelihood the inducing variables are all tasks at the inducing inputs: "
        "log N(vec Y; vec M, Qxx (x) B + I (x) S) - tr(Kxx - Qxx) tr(S^-1 B) / 2 with B the task covariance and S the task noise covariance",
        "grid histories: the kernel's hyperparameters do not change inside a history (parameter changes in eval mode without train() are the cache protocol of C03); "
        "a data-dependent grid (grid_bounds=None) is only moved by the kernel itself: update_grid / load_state_dict on such a kernel leave the Python attribute "
        "grid_bounds stale and are not part of the machine; evaluations covered by the current grid use data 2% inside the range the grid was fitted to (the code "
        "compares against bounds recomputed in floating point); the three data ranges / grids have pairwise different spacings (a shifted grid with the same "
        "spacing has the same K_UU for a stationary kernel); d and use_toeplitz are assigned round-robin to the histories (thorough: all four combinations for depth < 4)",
        "access forms: a kernel denotes ONE matrix per (mode, settings); diag=True, the diagonal of the lazily evaluated kernel, the diagonal of the evaluated operator and "
        "the variance of a MultivariateNormal holding the lazy kernel (rounded up to settings.min_variance) are its diagonal.  For the inducing-point kernel that matrix is "
        "Kxz Kzz^-1 Kzx, + diag(Kxx - Qxx) exactly when (eval mode, sgpr_diagonal_correction on, x1 equal to x2); in training mode x1 != x2 is rejected (documented) and not a case; "
        "with diag=True and x1 != x2 (same number of points) the forms denote the diagonal of the cross matrix",
        "grid predictions: the position classes are realised as: 'in' 15-40%% of the training extent away from the extreme, 'sl' one of %s grid cells inside it "
        "(cell = extent / (grid_size - 4.02)), 'eq' exactly the training extreme, 'out' 8-28%% outside; in 2-D the second dimension takes the same pair of positions with the "
        "sides exchanged.  Histories with a test extent outside the training extent since the last strategy reset are the class of known finding "
        "C03/ext/gridi/strategy-kept-across-update_grid (the data-driven grid moves under the kept strategy; decided by C03): they are replayed and counted in "
        "coverage.gridpred_outside_class but are not a verdict of this check" % (dense.GP_SLIVER,),
        "'converges to the base kernel as the grid is refined' is NOT decided: only a monotone error table on three grid sizes",
        "the code-shaped model follows the code's flattening of multi-indices in interpolate() (detected: %s) and its Kronecker order of K_uu in interpolation mode (detected: %s); verdicts come from the property-level clauses only" % (order, skikron)]
    wd = os.path.join(tlc.BUILD, PID)
    # ---------------- TLC ----------------
    jobs, labels = [], []

    def job(mc, name, workers=2, timeout=900):
        # no -coverage: it switches off TLC's caching of LET values (every reference re-evaluates: exponential in the depth of the algebra)
        jobs.append((mc, dict(name=PID + "/" + name, dump=True, check=False, workers=workers, timeout=timeout, coverage=False)))
        labels.append(name)
    gs_all = [list(s) for d in (1, 2, 3) for s in itertools.product((2, 3, 4) if d < 3 else ((2, 3, 4) if thorough else (2, 3)), repeat=d)]
    wk = gen_wiski(rnd, 144 if thorough else 24)          # the slowest runs first
    for b in range(0, len(wk), 24 if thorough else 8):
        job(write_structured(wd, "wiski%d" % b, "wiski", instances=wk[b:b + (24 if thorough else 8)]), "wiski%d" % b)
    job(write_structured(wd, "kron", "kron", maxn=3, maxt=3, maxq=2), "kron")
    job(write_structured(wd, "index", "index", maxn=3, maxt=3), "index")
    job(write_structured(wd, "grid", "grid", grid_sizes=gs_all), "grid", workers=4)
    job(write_structured(wd, "ski", "ski", grid_sizes=gs_all, order=order, skikron=skikron), "ski")
    sg = gen_sgpr(rnd, 2000 if thorough else 160)
    sgpr_batches = {}
    sb = 250 if thorough else 80
    for b in range(0, len(sg), sb):
        sgpr_batches["sgpr%d" % b] = sg[b:b + sb]
        job(write_structured(wd, "sgpr%d" % b, "sgpr", instances=sg[b:b + sb]), "sgpr%d" % b, workers=2)
    gsm_depth = 5 if thorough else 4
    for kind in GSM_KINDS:
        job(write_structured(wd, "gridsm_" + kind, "gridsm", gsm_kind=kind, gsm_depth=gsm_depth), "gridsm_" + kind, workers=2)
        if thorough:
            job(write_structured(wd, "gridsm_wide_" + kind, "gridsm", gsm_kind=kind, gsm_depth=4, gsm_wide=True), "gridsm_wide_" + kind, workers=2)
    for kind in ("fixed", "dyn"):       # the invariant is not vacuous: a kernel whose update_grid keeps K_UU must violate it
        job(write_structured(wd, "gridsm_stale_" + kind, "gridsm", gsm_kind=kind, gsm_depth=3, gsm_clear="noninterp"), "gridsm_stale_" + kind, workers=1)
    job(write_structured(wd, "rff", "rff", instances=gen_rff(rnd, 600 if thorough else 80)), "rff")
    # the access forms of every structured family; the model of a diag=True shortcut that skips the settings must violate AccessOK
    job(write_structured(wd, "access", "access"), "access", workers=1)
    job(write_structured(wd, "access_shortcut", "access", access_model="shortcut"), "access_shortcut", workers=1)
    # model-level predictions on a data-driven grid: GpOK over the histories without a test extent outside the training extent since the last
    # strategy reset (GpAllOK, all histories, is violated by the model: known finding C03/ext/gridi); a kernel whose tight bounds lie inside
    # the fitted extent must violate GpOK
    gp_depth = 3 if thorough else 2
    job(write_structured(wd, "gridpred", "gridpred", gp_depth=gp_depth, gp_outside=True), "gridpred", workers=1)
    job(write_structured(wd, "gridpred_tight", "gridpred", gp_depth=2, gp_tight=2, gp_outside=False), "gridpred_tight", workers=1)
    one, two = interp_grids(thorough)
    job(write_interp(wd, "1d", one, order), "interp1d")
    for b in range(0, len(two), 2):
        job(write_interp(wd, "2d_%d" % b, two[b:b + 2], order), "interp2d_%d" % b)
    par = max(2, min(8, core.NPROC // 2))
    _tick("setup")
    rs = dict(zip(labels, tlc.run_many(jobs, parallel=par)))
    _tick("tlc")
    # TLC integers are 32 bit: a rational instance whose intermediate products overflow stops the whole run; such a batch is re-run in
    # quarters and the quarters that overflow again are left out (counted below)
    dropped = 0
    for lab in [l for l in list(rs) if l in sgpr_batches and rs[l].rc != 0 and not rs[l].violation and "Overflow" in rs[l].stdout]:
        insts = sgpr_batches[lab]
        q = max(1, (len(insts) + 3) // 4)
        sub = [(write_structured(wd, "%s_q%d" % (lab, k), "sgpr", instances=insts[k * q:(k + 1) * q]),
                dict(name=PID + "/%s_q%d" % (lab, k), dump=True, check=False, workers=2, timeout=900, coverage=False)) for k in range(4) if insts[k * q:(k + 1) * q]]
        del rs[lab]
        for k, r in enumerate(tlc.run_many(sub, parallel=par)):
            if r.rc != 0 and not r.violation and "Overflow" in r.stdout:
                dropped += len(insts[k * q:(k + 1) * q])
            else:
                rs["%s_q%d" % (lab, k)] = r
    ck.extra["sgpr_instances_left_out_int32_overflow"] = dropped
    predicted = {}
    for lab, r in rs.items():
        ck.add_tlc(r, ("Interp " if lab.startswith("interp") else "Structured ") + lab)
        if lab.startswith("gridsm_stale_"):
            if not (r.violation and r.violation["name"] == "GsmOK"):
                ck.vacuous("GsmOK holds for a grid kernel whose update_grid keeps the cached K_UU (%s): the invariant does not see stale caches" % lab)
            continue
        if lab == "access_shortcut":
            if not (r.violation and r.violation["name"] == "AccessOK"):
                ck.vacuous("AccessOK holds for a kernel whose diag=True path returns the base diagonal whatever sgpr_diagonal_correction says")
            continue
        if lab == "gridpred_tight":
            if not (r.violation and r.violation["name"] == "GpOK"):
                ck.vacuous("GpOK holds for a kernel that re-lays its data-driven grid for test inputs a fraction of a cell inside the training extent")
            continue
        if r.violation:
            predicted[lab] = r.violation["name"]
            import re
            m = re.search(r"/\\ c = (.*)", r.stdout)
            ck.model_drift("%s.tla part %s: TLC finds %s violated on the model of the current code%s" % (
                "Interp" if lab.startswith("interp") else "Structured", lab, r.violation["name"], (" at c = " + m.group(1).strip()) if m else ""))
        elif r.rc != 0:
            raise tlc.TLCError("TLC failed on %s:\n%s" % (lab, r.stdout[-2000:]))
        elif r.distinct == 0:
            ck.vacuous("TLC run %s produced no states" % lab)
    ck.extra["interpolate_index_order"] = order
    ck.extra["ski_kuu_kronecker_order"] = skikron
    ck.extra["tlc_predictions"] = predicted
    # ---------------- exact replays ----------------
    l1 = []
    gsm = []
    acc = []
    gpr = []
    for lab, r in rs.items():
        part = "sgpr" if lab.startswith("sgpr") else lab
        if lab.startswith("gridsm_") and not lab.startswith("gridsm_stale_") and lab not in predicted:
            kind = lab.split("_")[-1]
            sts = [s for s in r.states() if len(s["out"]) and s["out"][-1]["a"] == "eval"]        # every history that ends with an evaluation
            sts.sort(key=lambda s: repr(s["out"]))
            for i, s in enumerate(sts):
                hist = _plain(s["out"])
                for combo in (range(4) if (thorough and len(hist) < 4) else [i % 4]):
                    gsm.append(dict(kind=kind, d=1 + combo % 2, toep=combo // 2, mode0=gsm_mode0(hist, s["c"]["mode"]), hist=hist, seed=ck.seed * 100003 + len(gsm)))
            if not any(st.get("refit") for s in sts for st in s["out"][1:]) and kind == "dyn":
                ck.vacuous("no gridsm history in which the data-dependent grid is re-laid after the first call")
            if kind != "dyn" and not any(st["a"] in ("update", "load") for s in sts for st in s["out"]):
                ck.vacuous("no gridsm history with update_grid / load_state_dict (%s)" % kind)
            continue
        if lab == "access" and lab not in predicted:
            groups = {}
            for s in r.states():
                cc, oo = s["c"], s["out"]
                gk = (cc["fam"], cc["mode"], bool(cc["on"]), bool(cc["same"]))
                groups.setdefault(gk, dict(fam=cc["fam"], mode=cc["mode"], on=bool(cc["on"]), same=bool(cc["same"]), setting=oo["setting"], forms=[]))["forms"].append(
                    dict(form=cc["form"], proj=oo["proj"], corrected=bool(oo["corrected"]), route=oo["route"]))
            for gk in sorted(groups):
                groups[gk]["forms"].sort(key=lambda f: f["form"])
                for rep in range(3 if thorough else 1):
                    acc.append(dict(groups[gk], seed=ck.seed * 100019 + 31 * len(acc) + 7))
            if not any(f["corrected"] for a_ in acc for f in a_["forms"]) or not any(not f["corrected"] and a_["mode"] == "eval" and not a_["on"] and f["form"] != "full"
                                                                                 for a_ in acc if a_["fam"] == "nystrom" for f in a_["forms"]):
                ck.vacuous("the access cases do not contain a diagonal form of the inducing-point kernel in eval mode with and without the diagonal correction")
            continue
        if lab == "gridpred" and lab not in predicted:
            sts = [s for s in r.states() if len(s["out"]) and s["out"][-1]["a"] == "predict"]
            sts.sort(key=lambda s: repr(s["out"]))
            per_last = {}
            n_dirty = 0
            for s in sts:
                hist = _plain(s["out"])
                if not hist[-1]["clean"]:          # the outside class is not a verdict of this check: a sample of it
                    n_dirty += 1
                    if len(hist) > 1 and n_dirty % (6 if not thorough else 12):
                        continue
                k = per_last[tuple(hist[-1]["pos"])] = per_last.get(tuple(hist[-1]["pos"]), -1) + 1      # every (d, fast_pred_var, use_toeplitz, scale) per last position
                for combo in (range(16) if (thorough and len(hist) == 1) else [k % 16]):
                    gpr.append(dict(d=1 + combo % 2, fpv=(combo // 2) % 2, toep=(combo // 4) % 2, scale=(combo // 8) % 2, hist=hist, seed=ck.seed * 100043 + len(gpr)))
            # what the model says about the histories outside GpOK's scope (GpAllOK, stated in the spec, is not checked by TLC: it is violated by design)
            ck.extra["gridpred_model_predicts_blocks_on_different_grids_when_test_outside_training_extent (known finding C03/ext/gridi)"] = any(
                not e["clean"] and not (e["gs"] == e["gtt"] == e["gtx"] == e["gref"]) for s in sts for e in s["out"] if e["a"] == "predict")
            if not any(h["hist"][-1]["clean"] and "sl" in h["hist"][-1]["pos"] for h in gpr):
                ck.vacuous("no model-level prediction with a test extent a fraction of a cell inside the training extent")
            continue
        if part not in ("kron", "index", "grid", "sgpr") or lab in predicted:
            continue
        for s in r.states():
            l1.append(dict(part=part, c=_plain(s["c"]), out=_plain(s["out"])))
    interp_items = []
    for lab, r in rs.items():
        if not lab.startswith("interp") or lab in predicted:
            continue
        by_grid = {}
        for s in r.states():
            g = [dict(gd) for gd in s["c"]["g"]]
            by_grid.setdefault(repr(g), (g, []))[1].append(dict(k=list(s["c"]["k"]), idx=list(s["out"]["idx"]), w=[list(v) for v in s["out"]["w"]],
                                                             interior=bool(s["out"]["interior"]), node=bool(s["out"]["node"])))
        for g, pts in by_grid.values():
            interp_items.append(dict(part="interp", g=g, points=pts))
    n_lattice = sum(len(i["points"]) for i in interp_items)
    if not interp_items or not any(p["interior"] and not p["node"] for i in interp_items for p in i["points"]):
        ck.vacuous("no interior lattice target was generated")
    rnd.shuffle(l1)
    _tick("parse dumps")
    results = core.pmap(l1_worker, chunks(l1, 40) + [dict(cases=[i]) for i in interp_items], chunksize=1)
    ck.absorb(results)
    fl = [dict(sizes=sz, n=60, seed=ck.seed * 1000 + i, order=order)
          for i, sz in enumerate([[4], [5], [9], [4, 4], [6, 5], [7, 9], [4, 5, 6]] * (6 if thorough else 2))]
    rfl = core.pmap(interp_float_worker, chunks(fl, 2), chunksize=1)
    ck.absorb(rfl)
    if not sum(r.get("interior", 0) for r in rfl):
        ck.vacuous("no interior float target for the quadratic reproduction")
    ck.section("interpolation_float", grids=len(fl), targets=sum(r.get("n", 0) for r in rfl), interior_targets=sum(r.get("interior", 0) for r in rfl))
    rnd.shuffle(gsm)
    _tick("exact + interp replays")
    rg = core.pmap(dense.gridsm_worker, chunks(gsm, 25), chunksize=1)
    ck.absorb(rg)
    _tick("gridsm replays")
    rnd.shuffle(acc)
    ra = core.pmap(dense.access_worker, chunks(acc, 6), chunksize=1)
    ck.absorb(ra)
    ck.section("access_forms", kernel_instances=len(acc), cells=len(ra), forms=len(dense.ACCESS_FORMS), families=len({a_["fam"] for a_ in acc}),
               sgpr_exact_instances_with_positive_gap=sum(1 for r in results if r.get("gap", 0) > 0))
    if not any(r.get("gap", 0) > 0 and not r["case"]["c"]["corr"] for r in results):
        ck.vacuous("no exact SGPR instance with Kxx - Qxx > 0 and the diagonal correction off: the diagonal forms cannot tell Nystrom from the base kernel")
    rnd.shuffle(gpr)
    rp = core.pmap(dense.gridpred_worker, chunks(gpr, 12), chunksize=1)
    ck.absorb(rp)
    _tick("access + gridpred replays")
    outside = [r for r in rp if not r.get("clean", True)]
    ck.section("grid_predictions", histories=len(gpr), depth=gp_depth, inside_class=len(rp) - len(outside), outside_class_not_a_verdict=len(outside),
               outside_class_deviating=sum(1 for r in outside if r.get("outside_deviates")))
    ck.extra["gridpred_outside_class"] = dict(
        what="predictions whose test inputs stick out of the training extent (or follow such a prediction without a strategy reset): the data-driven grid "
             "moves under the kept prediction strategy = known finding C03/ext/gridi/strategy-kept-across-update_grid (decided by C03); evaluated, recorded, not a verdict of C09 "
             "(VERIF_C09_OUTSIDE=violation turns them into violations C09/gridpred/test-outside-training-extent/*)",
        cells=len(outside), deviating=sum(1 for r in outside if r.get("outside_deviates")), example=next((r["outside_detail"] for r in outside if r.get("outside_deviates")), None))
    worst_gp = {}
    for r in rp:
        if r.get("clean", True):
            for what, e in (r.get("errs") or {}).items():
                key = "fpv%d/%s" % (r["case"]["fpv"], what)
                worst_gp[key] = max(worst_gp.get(key, 0.0), e)
    ck.extra["gridpred_inside_max_error_relative_to_prior_scale"] = {k: float("%.3g" % v) for k, v in sorted(worst_gp.items())}
    ck.section("grid_histories", histories=len(gsm), depth=gsm_depth, **{k: sum(1 for c in gsm if c["kind"] == k) for k in GSM_KINDS})
    ck.section("exact", kron=sum(1 for c in l1 if c["part"] == "kron"), index=sum(1 for c in l1 if c["part"] == "index"), grid=sum(1 for c in l1 if c["part"] == "grid"),
               sgpr=sum(1 for c in l1 if c["part"] == "sgpr"), interpolation_lattice_targets=n_lattice, interpolation_grids=len(interp_items))
    ck.exhaustive = False          # the numeric dimension is sampled; the discrete domains below are covered completely
    ck.extra["domains_covered_completely"] = dict(kron="n, m <= 3 points, t <= 3 tasks, rank 0..t, 1..2 LCM terms", index="every task-index vector of length <= 3 x <= 2, t <= 3, rank 0..t",
                         grid="every grid shape with 1..3 dimensions of 2..4 points (3-D quick: 2..3), use_toeplitz on/off",
                         interp="every target of the step-1/4 lattice over %d 1-D and %d 2-D integer grids" % (len(one), len(two)),
                         access="every (family, mode, setting value, x1 is x2, form) of Structured.tla AccessCases",
                         gridpred="every history of length <= %d over {predict with (lower, upper) test-extent positions in {in, sl, eq, out}^2, train();eval()} "
                                  "(histories after a test extent outside the training extent: a sample)" % gp_depth,
                         gridsm="every history of length <= %d over {evaluate (x1 is x2 / x1 != x2; three data ranges: first, covering, disjoint), update_grid(2 grids), "
                                "load_state_dict, train(), eval()} from both initial modes, for GridInterpolationKernel with and without grid_bounds and GridKernel" % gsm_depth)
    # ---------------- float cells ----------------
    dn, st, ob, rf = float_cases(thorough, ck.seed, rnd)
    for lst in (dn, st, ob):
        rnd.shuffle(lst)
    r2 = core.pmap(dense.dense_worker, chunks(dn, 12), chunksize=1)
    ck.absorb(r2)
    r3 = core.pmap(dense.strategy_worker, chunks(st, 3), chunksize=1)
    ck.absorb(r3)
    r4 = core.pmap(dense.objective_worker, chunks(ob, 4), chunksize=1)
    ck.absorb(r4)
    r5 = core.pmap(dense.refine_worker, chunks(rf, 1), chunksize=1)
    ck.absorb(r5)
    _tick("float cells")
    worst = {}
    for r in r3:
        for what, e in (r.get("errs") or {}).items():
            key = "%s/%s/%s" % (r["sig"].split("/")[2], r["case"]["solve"], what)
            worst[key] = max(worst.get(key, 0.0), e)
    ck.extra["strategy_max_error_relative_to_prior_scale"] = {k: float("%.3g" % v) for k, v in sorted(worst.items())}
    ck.extra["refinement_table_not_a_verdict_on_convergence"] = [r["table"] for r in r5 if "table" in r]
    skipped = sum(1 for r in r2 + r3 + r4 if r.get("n") == 0)
    ck.section("float", dense_cells=len(dn), strategy_cells=len(st), objective_cells=len(ob), refinement_rows=len(rf), skipped_ill_conditioned=skipped)
    used = {}
    for r in r3:
        if r.get("scls"):
            used[r["scls"]] = used.get(r["scls"], 0) + 1
    ck.extra["strategy_classes_exercised"] = used
    for cls in ("InterpolatedPredictionStrategy", "SGPRPredictionStrategy", "RFFPredictionStrategy"):
        if not used.get(cls):
            ck.vacuous("no compared prediction went through %s" % cls)


def _plain(v):
    """TLC values -> JSON-able (tuples to lists, dict keys kept)"""
    if isinstance(v, dict):
        return {k: _plain(x) for k, x in v.items()}
    if isinstance(v, (list, tuple)):
        return [_plain(x) for x in v]
    return v


def replay(rep):
    core.setup_torch()
    case = rep["case"]
    sec = case.get("section")
    if sec == "l1":
        res = l1_worker(dict(cases=[case]))
    elif sec == "interp-float":
        res = interp_float_worker(dict(cases=[case]))
    elif sec == "dense":
        res = dense.dense_worker(dict(cases=[case]))
    elif sec == "strategy":
        res = dense.strategy_worker(dict(cases=[case]))
    elif sec == "objective":
        res = dense.objective_worker(dict(cases=[case]))
    elif sec == "refine":
        res = dense.refine_worker(dict(cases=[case]))
    elif sec == "gridsm":
        res = dense.gridsm_worker(dict(cases=[case]))
    elif sec == "access":
        res = dense.access_worker(dict(cases=[case]))
    elif sec == "gridpred":
        res = dense.gridpred_worker(dict(cases=[case]))
    else:
        raise core.Machinery("unknown replay section %r" % sec)
    bad = [r for r in res if not r.get("ok", True) or r.get("machinery")]
    for r in bad:
        print("VIOLATION property=C09 replay=- :: %s :: %s" % (r.get("sig"), r.get("detail", r.get("machinery"))))
    if not bad:
        print("replay passed")
    return 1 if bad else 0
