"""C10 - MultivariateNormal is the distribution it claims to be.
Spec: MVN.tla (__getitem__ as an exact function on labelled tensors, + PyIndex.tla, MVNShapes.tla) and MVNOps.tla (shape
algebra of log_prob, arithmetic / expand / unsqueeze / add_jitter as maps on (mean, covariance)).
Replay: (a) every enumerated index expression on real distributions whose covariance has unique integer entries, for every
covariance representation, exact label decoding, and log_prob of the result at the end of every chain (density_check: both paths,
fresh and after the indexed distribution's Cholesky factor was needed); (b) the numeric part lives in c10_numeric.py; (c) MVNReads.tla
(reads are pure: histories of observations on one object, for every kind of root of a root-form covariance and every variance class
around settings.min_variance) is replayed by c10_reads.py."""
import os

from harness import core, tlc

LEVEL = "model_checking"
PID = "C10"

REPS = ("dense", "lazy", "diag", "root")          # covariance representations of the index replay


def sq(b):
    return "<<%s>>" % ", ".join(str(x) for x in b)


def cfg_record(c):
    return "[n |-> %d, mb |-> %s, cb |-> %s, lazy |-> %s, sdiag |-> %s, fam |-> \"%s\", steps |-> %d]" % (
        c["n"], sq(c["mb"]), sq(c["cb"]), "TRUE" if c["lazy"] else "FALSE", "TRUE" if c.get("sdiag") else "FALSE", c["family"], c["steps"])


def write_mc(workdir, name, configs, variant="pinned"):
    os.makedirs(workdir, exist_ok=True)
    mod = "MC_MVN_" + name
    with open(os.path.join(workdir, mod + ".tla"), "w") as f:
        f.write("---- MODULE %s ----\nEXTENDS MVN\nConfigsDef == {\n  %s}\n====\n" % (mod, ",\n  ".join(cfg_record(c) for c in configs)))
    cfg = os.path.join(workdir, mod + ".cfg")
    tlc.write_cfg(cfg, spec="Spec", constants={"Configs": "<- ConfigsDef", "Variant": variant},
                  invariants=["RaisesIff", "Consistent", "DiagJustified"], properties=["MeanIsIndexedMean"])
    return os.path.join(workdir, mod + ".tla"), cfg


# ---------------------------------------------------------------------------------------------------------------
# index replay

def py_index(torch, idx):
    out = []
    for it in idx:
        k = it["k"]
        if k == "int":
            out.append(int(it["v"]))
        elif k == "slice":
            out.append(slice(*[None if x == 99 else int(x) for x in (it["a"], it["b"], it["s"])]))
        elif k == "ell":
            out.append(Ellipsis)
        elif k == "list":
            out.append(torch.tensor([int(x) for x in it["v"]], dtype=torch.long))
    return tuple(out) if len(out) != 1 else out[0]      # d[i] and d[(i,)] are the same call for Python


def show_index(idx):
    parts = []
    for it in idx:
        k = it["k"]
        if k == "int":
            parts.append(str(it["v"]))
        elif k == "slice":
            a, b, s = ["" if x == 99 else str(x) for x in (it["a"], it["b"], it["s"])]
            parts.append("%s:%s" % (a, b) + (":" + s if s else ""))
        elif k == "ell":
            parts.append("...")
        else:
            parts.append("tensor(%s)" % list(it["v"]))
    return "[" + ", ".join(parts) + "]"


def prod(s):
    p = 1
    for x in s:
        p *= x
    return p


def bshape(torch, a, b):
    return tuple(torch.broadcast_shapes(tuple(a), tuple(b)))


def label_cov(torch, n, cb, rep):
    """Stored covariance (cb + (n, n)) with integer entries, distinct over all (batch element, unordered pair) - and the
    root R for rep == 'root'.  Variable u = cbflat * n + i."""
    nb = prod(cb)
    if rep == "root":
        k = n + 1
        for seed in range(200):
            gen = torch.Generator().manual_seed(1000 + seed)
            R = torch.randint(1, 60, (nb, n, k), generator=gen).to(torch.float64)
            C = R @ R.transpose(-1, -2)
            iu = torch.triu_indices(n, n)
            vals = C[:, iu[0], iu[1]].reshape(-1)
            if len(set(vals.tolist())) == vals.numel():
                return C.reshape(*cb, n, n), R.reshape(*cb, n, k)
        raise core.Machinery("no integer root with distinct covariance entries found (n=%d, cb=%s)" % (n, cb))
    C = torch.zeros(nb, n, n, dtype=torch.float64)
    for b in range(nb):
        for p in range(n):
            for q in range(n):
                u, v = b * n + min(p, q), b * n + max(p, q)
                C[b, p, q] = 1.0 + u * 128 + v + (100000.0 if p == q else 0.0)
                if rep == "diag" and p != q:
                    C[b, p, q] = 0.0
    return C.reshape(*cb, n, n), None


def build_index_dist(torch, n, mb, cb, lazy, rep):
    from gpytorch.distributions import MultivariateNormal
    from linear_operator import to_linear_operator
    from linear_operator.operators import DiagLinearOperator, RootLinearOperator
    mean = (torch.arange(prod(mb) * n, dtype=torch.float64) + 100).reshape(*mb, n)
    C, R = label_cov(torch, n, cb, rep)
    if rep == "dense":
        cov = C
    elif rep == "lazy":
        cov = to_linear_operator(C)
    elif rep == "diag":
        cov = DiagLinearOperator(torch.diagonal(C, dim1=-1, dim2=-2).clone())
    else:
        cov = RootLinearOperator(R)
    return MultivariateNormal(mean, cov), C


def expected_cov(torch, C, n, shape, clabels, ids, N0):
    """Covariance the result must carry: entry (p, q) of a batch element is the covariance of the selected variables -
    the stored entry if both belong to the same original batch element, 0 otherwise (batch elements are independent)."""
    if len(shape) == 0:
        u = clabels[0] - 100
        return C.reshape(-1, n, n)[u // n, u % n, u % n].clone()
    m = shape[-1]
    rows = prod(shape[:-1])
    Cf = C.reshape(-1, n, n)
    out = torch.zeros(rows, m, m, dtype=torch.float64)
    for r in range(rows):
        for p in range(m):
            for q in range(m):
                ip, iq = ids[r * m + p] - 100, ids[r * m + q] - 100
                if ip // N0 != iq // N0:
                    continue
                u, v = clabels[r * m + p] - 100, clabels[r * m + q] - 100
                out[r, p, q] = Cf[u // n, u % n, v % n]
    return out.reshape(*shape[:-1], m, m)


def chains_of(states):
    """{config key: [chain]} from the states of a dump; a chain that is a proper prefix of another is replayed as part of it"""
    by = {}
    for st in states:
        c = st["cfg"]
        by.setdefault((c["n"], tuple(c["mb"]), tuple(c["cb"]), bool(c["lazy"]), str(c["fam"]), c["steps"]), []).append(st)
    return {k: _chains_of(v) for k, v in by.items()}


def _chains_of(states):
    chains = []
    for st in states:
        h = st["hist"]
        if len(h) == 0:
            continue
        chains.append([dict(idx=[{k: (list(v) if isinstance(v, tuple) else v) for k, v in it.items() if k != "t"} for it in s["idx"]], br=s["br"], err=s["err"],
                            shape=list(s["shape"]), labels=list(s["labels"]), clabels=list(s["clabels"]), ids=list(s["ids"])) for s in h])
    longer = set()
    for ch in chains:
        if len(ch) > 1:
            longer.add(core.digest([s["idx"] for s in ch[:-1]]))
    return [ch for ch in chains if len(ch) > 1 or core.digest([s["idx"] for s in ch]) not in longer]


def rep_name(rep, mb, cb):
    if list(mb) == list(cb):
        return rep
    return rep + ("-bcast-mean" if len(mb) < len(cb) or prod(mb) < prod(cb) else "-bcast-cov")


def replay_chain(torch, n, mb, cb, lazy, rep, chain):
    """Replays one chain d[i][j]... ; returns a result dict."""
    d, C = build_index_dist(torch, n, mb, cb, lazy, rep)
    db = bshape(torch, mb, cb)
    full = db + (n,)
    ids = (torch.arange(prod(full)) + 100).reshape(full)
    mlab = (torch.arange(prod(mb) * n) + 100).reshape(*mb, n).expand(full)
    clab = (torch.arange(prod(cb) * n) + 100).reshape(*cb, n).expand(full)
    rn = rep_name(rep, mb, cb)
    desc = "n=%d mean batch=%s cov batch=%s %s d%s" % (n, list(mb), list(cb), rep, "".join(show_index(s["idx"]) for s in chain))
    lastst = chain[-1]
    res = dict(key=[n, list(mb), list(cb), rep, [s["idx"] for s in chain]], ok=True,
               nontrivial=(not lastst["err"]) and 0 < len(lastst["ids"]) < prod(full),
               sample=dict(case=desc, expect_shape=lastst["shape"], expect_mean=lastst["labels"][:12]))
    cur = d
    strict = list(mb) == list(cb)
    for k, step in enumerate(chain):
        idx = py_index(torch, step["idx"])
        cell = "C10/getitem/%s/%s" % (rn, step["br"])
        # oracle-side self check: the spec's Python index semantics against torch indexing of the label tensors
        try:
            oid, oml, ocl = ids[idx], mlab[idx], clab[idx]
            oerr = False
        except (IndexError, TypeError, RuntimeError):
            oerr = True
        if oerr != bool(step["err"]) or (not oerr and (list(oid.shape) != step["shape"] or oid.reshape(-1).tolist() != step["ids"]
                                                       or oml.reshape(-1).tolist() != step["labels"] or ocl.reshape(-1).tolist() != step["clabels"])):
            if step["err"] and not oerr and oid.numel() == 0 and any(it["k"] == "list" for it in step["idx"]):
                # an out-of-range entry of an index tensor next to an empty selection: numpy raises, torch gathers nothing and
                # does not look at the entry - not a form whose meaning the two share
                res.update(nontrivial=False, skipped=True, n=0)
                break
            raise core.Machinery("PyIndex.tla / MVN.tla disagree with torch indexing on %s step %d: spec err=%s shape=%s, torch err=%s shape=%s" % (
                desc, k, step["err"], step["shape"], oerr, None if oerr else list(oid.shape)))
        ok, r = core.guarded(lambda: cur[idx])
        if step["err"]:
            if ok:
                res.update(ok=False, sig=cell + "/accepts-invalid-index", detail="%s: indexing a tensor of the distribution's shape raises but d[idx] returned %s" % (desc, type(r).__name__))
            break
        if not ok:
            res.update(ok=False, sig=cell + "/raises", detail="%s: the index is valid (result shape %s) but d[idx] raised %s" % (desc, step["shape"], r))
            break
        shape = tuple(step["shape"])
        empty = prod(shape) == 0
        ok2, info = core.guarded(lambda: (r.mean, tuple(r.batch_shape) + tuple(r.event_shape),
                                          tuple(r.lazy_covariance_matrix.shape) if empty else r.covariance_matrix))
        if not ok2:
            res.update(ok=False, sig=cell + "/raises", detail="%s: the result cannot be evaluated: %s" % (desc, info))
            break
        m, dshape, cov = info
        want_m = torch.tensor(step["labels"], dtype=torch.float64).reshape(shape)
        if dshape != shape or (strict and tuple(m.shape) != shape):
            res.update(ok=False, sig=cell + "/shape", detail="%s: result has batch+event shape %s and mean shape %s; expected %s" % (desc, list(dshape), list(m.shape), list(shape)))
            break
        okb, mb_ = core.guarded(lambda: torch.broadcast_to(m.double(), shape))
        if not okb or not torch.equal(mb_, want_m):
            res.update(ok=False, sig=cell + "/mean", detail="%s: mean is %s (shape %s), expected the indexed mean %s" % (
                desc, m.reshape(-1)[:8].tolist(), list(m.shape), want_m.reshape(-1)[:8].tolist()))
            break
        cshape = shape[:-1] + (shape[-1], shape[-1]) if shape else ()
        if empty:
            if tuple(cov) != cshape:
                res.update(ok=False, sig=cell + "/cov-shape", detail="%s: covariance has shape %s, expected %s" % (desc, list(cov), list(cshape)))
            break           # nothing left to index
        want = expected_cov(torch, C, n, shape, step["clabels"], step["ids"], n)
        okc, covb = core.guarded(lambda: torch.broadcast_to(cov.double(), cshape))
        if not okc or (strict and tuple(cov.shape) != cshape):
            res.update(ok=False, sig=cell + "/cov-shape", detail="%s: covariance has shape %s for a result of shape %s; expected %s" % (desc, list(cov.shape), list(shape), list(cshape)))
            break
        if float((covb - want).abs().max()) > 0.25:      # entries are distinct integers
            bad = ((covb - want).abs() > 0.25).nonzero()[0].tolist()
            res.update(ok=False, sig=cell + "/cov-entries", detail="%s: covariance entry %s is %s; the covariance of the selected components is %s" % (
                desc, bad, float(covb[tuple(bad)]), float(want[tuple(bad)])))
            break
        if k + 1 < len(chain):
            # continue the chain on the result: its own variables are now the reference
            cur = r
            ids, mlab, clab = oid, oml, ocl
        elif len(shape) >= 1:
            # the end of the chain: the selected variables are a Gaussian vector with the labelled mean and covariance, so the
            # result's log_prob is that Gaussian's log density - on both paths, and whether or not the distribution that was
            # indexed had its Cholesky factor computed before (mean / covariance do not show a factor that is carried along)
            bad = density_check(torch, d_fresh=lambda: build_index_dist(torch, n, mb, cb, lazy, rep)[0], chain=chain, r=r, want_m=want_m, want=want,
                                warm=(rep != "dense"))      # a dense distribution always has its factor: no history to tell apart
            if bad:
                res.update(ok=False, sig=cell + "/then-log_prob-" + bad[0], detail="%s: %s" % (desc, bad[1]))
    if not res["ok"]:
        res["case"] = dict(kind="index", n=n, mb=list(mb), cb=list(cb), lazy=lazy, rep=rep, chain=chain)
    return res


def density_check(torch, d_fresh, chain, r, want_m, want, warm=True):
    """log_prob of the result r of an index chain against the Gaussian log density with the expected (labelled) mean and
    covariance; then the same chain on a distribution whose Cholesky factor was needed before.  Returns None or (cell, detail).
    Only for well-conditioned expected covariances (a repeated variable makes the marginal singular: no density)."""
    import gpytorch
    from checks import c10_numeric
    ev = torch.linalg.eigvalsh(want)
    if float(ev.min()) <= 0 or float((ev.max(-1).values / ev.min(-1).values).max()) > 1e4:
        return None
    gen = torch.Generator().manual_seed(4242)
    L = torch.linalg.cholesky(want)
    Y = want_m + (L @ (1.2 * torch.randn(*want_m.shape, 1, generator=gen, dtype=torch.float64))).squeeze(-1)
    ref = c10_numeric.ref_logpdf(torch, Y, want_m, want)

    def both(dist, hist):
        for fast in ((True, False) if not hist else (False,)):       # (a cached factor is only read on the Cholesky path)
            with gpytorch.settings.fast_computations(log_prob=fast):
                ok, lp = core.guarded(lambda: dist.log_prob(Y))
            path = "fast" if fast else "cholesky"
            if not ok:
                return (path + hist + "/raises", "log_prob of the result raised %s (fast_computations.log_prob=%s)" % (lp, fast))
            good, why = core.close(lp, ref, 1e-7, 1e-9)
            if not good:
                return (path + hist, "log_prob of the result%s = %s, Gaussian log density of the selected components = %s: %s" % (
                    " (indexed after a Cholesky-path log_prob of the whole)" if hist else "", lp.reshape(-1)[:3].tolist(), ref.reshape(-1)[:3].tolist(), why))
        return None
    bad = both(r, "")
    if bad or not warm:
        return bad
    # history: the factor of the indexed distribution exists already
    d = d_fresh()
    with gpytorch.settings.fast_computations(log_prob=False):
        ok, _ = core.guarded(lambda: d.log_prob(d.mean + 1.0))
    if not ok:
        return None         # (the labelled covariance of the whole need not be well conditioned: no history then)
    cur = d
    for step in chain:
        ok, cur = core.guarded(lambda: cur[py_index(torch, step["idx"])])
        if not ok:
            return ("cholesky/warm/raises", "the chain raised %s after a Cholesky-path log_prob of the whole, and did not before" % cur)
    return both(cur, "/warm")


def _parse_worker(path):
    from harness import tlaval
    with open(path) as f:
        states = [st for _, st in tlaval.parse_dump(f.read())]
    return [dict(path=path, chains=[(list(k[:1]) + [list(k[1]), list(k[2])] + list(k[3:]), v) for k, v in chains_of(states).items()])]


def _index_worker(item):
    torch = core.setup_torch()
    out = []
    for ch in item["chains"]:
        for rep in REPS:
            if rep == "dense" and item["lazy"]:
                continue
            if rep != "dense" and not item["lazy"] and list(item["mb"]) != list(item["cb"]):
                continue        # the dense constructor is the one that expands; LinearOperator covariances belong to Lazy = TRUE
            out.append(replay_chain(torch, item["n"], tuple(item["mb"]), tuple(item["cb"]), item["lazy"], rep, ch))
    return out


def index_configs(thorough):
    """(n, mean batch, cov batch, lazy, family, steps, expect_violation)"""
    out = []

    def add(n, b, fams):
        for f in fams:
            if f in ("mixed", "ziplast") and not b:
                continue
            out.append(dict(n=n, mb=b, cb=b, lazy=False, family=f if f != "chain" else "small", steps=2 if f == "chain" else 1, predicted=(f == "ziplast")))
    if thorough:
        for n in (1, 2, 3):
            for b in ((), (2,), (2, 2)):
                add(n, b, ("event", "mixed", "ell", "ziplast") + (("chain",) if len(b) < 2 or n < 3 else ()))
    else:
        add(3, (), ("event", "ell", "chain"))
        add(3, (2,), ("event", "mixed", "ell", "ziplast", "chain"))
        add(2, (2, 2), ("mixed", "ell", "ziplast"))
        add(1, (2,), ("event", "mixed", "ell"))
        add(1, (), ("event", "chain"))
    # broadcast representations: mean and covariance with different batch shapes
    pairs = [((), (2,)), ((2,), ())] + ([((2,), (2, 2)), ((2, 2), (2,)), ((1,), (2,)), ((2, 1), (1, 2))] if thorough else [])
    for mb, cb in pairs:
        for lazy in (False, True):
            out.append(dict(n=2 if not thorough else 3, mb=mb, cb=cb, lazy=lazy, family="small", steps=1, predicted=lazy))
    return out


def run(ck):
    thorough = ck.tier == "thorough"
    core.setup_torch()
    ck.rule = ("index cases = every index expression of the enumerated families (ints incl. out of range, slices with start/stop in -(n+2)..n+2 or None and "
               "step None/1/2/3, one ellipsis in any position, 1-d index tensors incl. negative entries, batch items, over-long indices) on every (event size, "
               "batch shape, covariance representation), plus chains d[i][j]; non-trivial = valid index selecting a proper non-empty subset. numeric cases = "
               "every (value batch, mean batch, covariance batch) broadcast pattern of rank <= 2 over dims {1,2} x representation x fast_computations.log_prob, "
               "and every (operation, parameter, history) of MVNOps.tla: scalar operations (X + k, k + X, X * k, X / k, k * X, add_jitter) over the value alphabet "
               "{identity, its negative, 0, 0-adjacent, (+-1)-adjacent, proper fractions, ordinary values of both signs} x spelling {int, float, bool, numpy.float64, "
               "0-dim tensor, omitted default}, expand (incl. to the same shape), unsqueeze, sums of MVNs, each on a fresh operand and (lazy) on one whose Cholesky "
               "factor was needed before; every result is compared on mean AND covariance AND log_prob on both paths (values drawn around the expected "
               "distribution); the result at the end of every index chain additionally on log_prob (both paths, fresh and after a Cholesky-path log_prob of "
               "the whole); non-trivial = some batch shape involved is non-empty. read histories (MVNReads.tla) = every sequence of 2 (thorough: 3) "
               "observations out of {mean, variance, stddev, confidence_region, covariance_matrix, scale_tril, precision_matrix, log_prob fast / Cholesky, "
               "rsample(base_samples), entropy, X + c, X * 2, X[..., 1:], expand, unsqueeze} on ONE object x representation {dense, lazy, diag, root form with a "
               "lower-triangular / upper-triangular / symmetric / rotated square root, n x k root with k > n and k < n} x smallest marginal variance {below, at, "
               "just above settings.min_variance, ordinary} x batch shape; every observation at every position is compared with the reference function of the "
               "constructed (mean, K) (entrywise relative), then the caller's tensors bitwise and the stored (mean, K). distinct = distinct abstract case")
    ck.assumptions = [
        "index tensors are 1-d LongTensors in adjacent positions, at most one ellipsis, positive steps (the forms whose meaning numpy and torch share, PyIndex.tla)",
        "index tensors in batch positions have pairwise distinct entries (a repeated batch element is 'the same variable twice' for the labels but 'an independent "
        "replica' for batch semantics; the property does not say which)",
        "variables of different batch elements are independent: after an int in the last position a former batch dimension is the event dimension and the expected "
        "covariance between its components is 0",
        "for an empty selection (a zero-size dimension) only shapes are compared (densifying an empty DiagLinearOperator slice divides by zero inside linear_operator)",
        "the mean / covariance of a distribution are compared after expansion to batch_shape + event_shape (a LinearOperator-constructed distribution stores them unexpanded)",
        "index / numeric cases: variances of the constructed distributions are >= 0.05, so settings.min_variance never clamps; the variance of a product with a 0-adjacent scalar "
        "(below 1e-4) is not compared (mean, covariance and log_prob are)",
        "a 0-dim tensor as scalar, number * X (no __rmul__) and 0 * X (degenerate) may be rejected: such a case must raise or be right; X / 0 is outside the domain",
        "log_prob of an index result is compared only when the expected marginal covariance has condition number <= 1e4 (a repeated component makes it singular)",
        "'sample moments converge to mean and covariance' is statistical and is not checked; rsample is checked through base_samples only",
        "read histories: a marginal variance below settings.min_variance is REPORTED by variance / stddev / confidence_region as min_variance (the documented "
        "rounding, NumericalWarning); covariance_matrix, log_prob, rsample, KL and every derived distribution keep the constructed covariance",
        "read histories: for the rank-deficient root form (n x k, k < n) the covariance is singular: density-based quantities (log_prob, scale_tril, "
        "precision_matrix, entropy) are taken as part of the history but not compared; mean, variance, covariance, rsample and purity are",
        "'the caller's tensors are left untouched' is compared bitwise on the tensors handed to the constructor (mean; dense covariance / diagonal / root)",
    ]
    ck.exhaustive = True
    wd = os.path.join(tlc.BUILD, PID)
    jobs, meta = [], []
    cfgs = index_configs(thorough)
    if thorough:   # the DiagJustified invariant for a distribution that is diagonal to begin with (same cases, no extra replay)
        cfgs.append(dict(n=2, mb=(2,), cb=(2,), lazy=False, sdiag=True, family="mixed", steps=1, predicted=False, noreplay=True))
    groups = {}
    def weight(c):      # rough number of states, to balance the TLC runs
        b, n = len(c["mb"]), c["n"]
        per = dict(event=(560, 880, 1300)[n - 1], mixed=(0, 370, 4000)[b], ell=(120, 600, 2700)[b], ziplast=100, small=(30, 50, 120)[b])[c["family"]]
        return per ** c["steps"] if c["family"] == "small" else per
    ngroups = 6 if thorough else 4
    loads = [0] * ngroups
    for c in sorted([c for c in cfgs if not c["predicted"]], key=weight, reverse=True):
        g = loads.index(min(loads))
        loads[g] += weight(c)
        groups.setdefault("plain%d" % g, []).append(c)
    groups["predicted"] = [c for c in cfgs if c["predicted"]]
    for name, cs in groups.items():
        mod, cfg = write_mc(os.path.join(wd, "mc"), name, cs)
        jobs.append(((mod, cfg), dict(name=PID + "/run_" + name, timeout=3000, dump=True, check=False, workers=3, heap="2g", extra=["-continue"])))
        meta.append((name, cs))
    # the same cells under the repaired model (documents what a repair has to change; decides which variant the tree matches)
    mod, cfg = write_mc(os.path.join(wd, "mc"), "predicted_fixed", groups["predicted"], variant="fixed")
    jobs.append(((mod, cfg), dict(name=PID + "/run_predicted_fixed", timeout=3000, check=False, workers=2, heap="2g", extra=["-continue"])))
    meta.append(("predicted_fixed", None))
    from checks import c10_numeric, c10_reads
    njobs, nmeta = c10_numeric.tlc_jobs(wd, thorough)
    rjobs, rmeta = c10_reads.tlc_jobs(wd, thorough)
    # (the MVNOps / MVNReads runs go first: they are short, and their replay can only start when everything is back)
    results = tlc.run_many(njobs + rjobs + jobs, parallel=min(8, core.NPROC))
    results_r = results[len(njobs):len(njobs) + len(rjobs)]
    results = results[len(njobs) + len(rjobs):] + results[:len(njobs)]
    dumps, tlc_pred = [], {}
    for (name, cs), res in zip(meta, results[:len(jobs)]):
        ck.add_tlc(res, name)
        if res.rc != 0 and res.violation is None:
            raise tlc.TLCError("TLC failed on %s:\n%s" % (name, res.stdout[-1500:]))
        ck.require_coverage(res, ["Next"])
        if name.startswith("predicted"):
            tlc_pred[name] = (res.violation or {}).get("name"), res.stdout.count("is violated")
        elif res.violation is not None:
            ck.model_drift("MVN.tla (model of the current code) violates %s in run %s (%d violation reports): a prediction, decided by the replay" % (
                res.violation["name"], name, res.stdout.count("is violated")))
        if cs is None:
            continue
        ck.section("index-gen", runs=1, configs=len(cs), states=res.distinct)
        dumps.append((name, cs, res.dump_path))
    parsed = {r["path"]: r["chains"] for r in core.pmap(_parse_worker, [d[2] for d in dumps], chunksize=1)}
    items = []
    for name, cs, path in dumps:
        got = {core.digest(k): v for k, v in parsed[path]}
        for c in cs:
            chains = got.get(core.digest([c["n"], list(c["mb"]), list(c["cb"]), bool(c["lazy"]), c["family"], c["steps"]]), [])
            if not chains:
                ck.vacuous("TLC run %s generated no index case for configuration %s" % (name, cfg_record(c)))
            if c.get("noreplay"):
                continue
            for i in range(0, len(chains), 60):
                items.append(dict(n=c["n"], mb=list(c["mb"]), cb=list(c["cb"]), lazy=c["lazy"], chains=chains[i:i + 60]))
    results_i = core.pmap(_index_worker, items, chunksize=1)
    ck.absorb(results_i)
    failed = [r for r in results_i if not r.get("ok", True)]
    ck.section("index-replay", cases=len(results_i), failed=len(failed), skipped_numpy_torch_differ=sum(1 for r in results_i if r.get("skipped")))
    pred_cells = [r for r in failed if "tensor-last-zipped" in r["sig"] or "-bcast-" in r["sig"]]
    report_variant(ck, "MVN.tla", tlc_pred.get("predicted"), tlc_pred.get("predicted_fixed"), len(pred_cells),
                   "index tensors in batch positions zipped with an index tensor in the last position; LinearOperator-constructed distributions whose mean and "
                   "covariance batch shapes differ")
    c10_numeric.run(ck, nmeta, results[len(jobs):])
    c10_reads.run(ck, rmeta, results_r)


def report_variant(ck, spec, pinned, fixed, nfail, what):
    """pinned / fixed = (first violated invariant or None, number of violation reports) of the two model variants on the cells
    `what`; nfail = failing replay cells there.  The variant that agrees with the replay is the model of the current code."""
    ck.extra.setdefault("model_variants", {})[spec] = dict(cells=what, pinned_model_violations=pinned[1], fixed_model_violations=fixed[1], failing_replay_cells=nfail,
                                                           code_matches="pinned" if nfail else "fixed")
    if nfail:
        if pinned[0] is None:
            ck.model_drift("%s (variant pinned) holds on [%s] but %d replay cells fail there" % (spec, what, nfail))
        else:
            ck.model_drift("%s (model of the current code, variant pinned) violates %s on [%s] (%d violation reports): a prediction - confirmed by %d failing replay cells; "
                           "variant fixed has %d" % (spec, pinned[0], what, pinned[1], nfail, fixed[1]))
    elif fixed[0] is not None:
        ck.model_drift("%s (variant fixed) violates %s on [%s] although no replay cell fails there" % (spec, fixed[0], what))


def replay(rep):
    torch = core.setup_torch()
    case = rep["case"]
    if case.get("kind") == "reads":
        from checks import c10_reads
        return c10_reads.replay(rep)
    if case.get("kind") != "index":
        from checks import c10_numeric
        return c10_numeric.replay(rep)
    try:
        r = replay_chain(torch, case["n"], tuple(case["mb"]), tuple(case["cb"]), case["lazy"], case["rep"], case["chain"])
    except core.Machinery as e:
        print("MACHINERY-FAILURE", e)
        return 2
    if not r["ok"]:
        print("VIOLATION property=C10 replay=- :: %s :: %s" % (r["sig"], r["detail"]))
        return 1
    print("replay passed")
    return 0
