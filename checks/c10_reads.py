"""C10, reads-are-pure part.  Histories (representation incl. every kind of root, variance class relative to
settings.min_variance, batch shape, sequence of observations) come from the TLC dump of MVNReads.tla; every maximal history is
replayed on one real MultivariateNormal built from the caller's tensors, and every observation - at every position - is compared
with the reference function of the CONSTRUCTED (mean, K); at the end the caller's tensors must be bitwise what they were and the
stored mean / covariance must still be (mean, K).  The instance: K = blockdiag(K1, v), v = the marginal variance of the variance
class (decoupled, so the Cholesky-based references are exact to rounding whatever v is); comparisons are entrywise RELATIVE with an
absolute floor scaled by the entry's own magnitude (a 1e-12 entry that became 1e-10 must show)."""
import math
import os

from harness import core, tlc

PID = "C10"
ALL_REPS = ("dense", "lazy", "diag", "root-lower", "root-upper", "root-sym", "root-rot", "root-wide", "root-narrow")
VCLASSES = ("below", "at", "above", "ordinary")
SQUARE_KINDS = ("lower", "upper", "sym", "rot")
DERIVE = ("addc", "mul2", "tail", "expand", "unsqueeze")


def tla_set(xs):
    return "{%s}" % ", ".join(xs)


def write_mc(workdir, name, reps, vcs, batches, maxlen, variant):
    os.makedirs(workdir, exist_ok=True)
    mod = "MC_MVNReads_" + name
    with open(os.path.join(workdir, mod + ".tla"), "w") as f:
        f.write("---- MODULE %s ----\nEXTENDS MVNReads\nRepsDef == %s\nVCDef == %s\nBatchesDef == %s\n====\n" % (
            mod, tla_set('"%s"' % r for r in reps), tla_set('"%s"' % v for v in vcs), tla_set("<<%s>>" % ", ".join(map(str, b)) for b in batches)))
    cfg = os.path.join(workdir, mod + ".cfg")
    tlc.write_cfg(cfg, spec="Spec", constants={"Reps": "<- RepsDef", "VClasses": "<- VCDef", "Batches": "<- BatchesDef", "MaxLen": maxlen, "Variant": variant},
                  invariants=["ReadsPure"])
    return os.path.join(workdir, mod + ".tla"), cfg


def tlc_jobs(wd, thorough):
    jobs, meta = [], []

    def add(name, reps, vcs, batches, maxlen, variant="pure", ns=(3,)):
        mod, cfg = write_mc(os.path.join(wd, "mc"), name, reps, vcs, batches, maxlen, variant)
        jobs.append(((mod, cfg), dict(name=PID + "/reads_" + name, timeout=1800, dump=(variant == "pure"), check=False, workers=2, heap="1g")))
        meta.append(dict(name=name, variant=variant, maxlen=maxlen, ns=list(ns)))
    if thorough:
        add("len2a", ALL_REPS[:5], VCLASSES, ((), (2,), (2, 1)), 2)
        add("len2b", ALL_REPS[5:], VCLASSES, ((), (2,), (2, 1)), 2)
        add("len2n4", ALL_REPS, VCLASSES, ((2,),), 2, ns=(4,))
        for i, rep in enumerate(ALL_REPS):      # every history of three observations, clamp active / not
            add("len3_%d" % i, (rep,), ("below", "ordinary"), ((2,),), 3)
    else:
        add("len2", ALL_REPS, VCLASSES, ((), (2,)), 2)
    # the what-if variants: TLC must find the violation (the invariant is able to see either defect class)
    add("whatif_inplace", ALL_REPS, VCLASSES, ((),), 2, variant="inplace")
    add("whatif_reuseroot", ALL_REPS, ("ordinary",), ((),), 2, variant="reuseroot")
    return jobs, meta


# ---------------------------------------------------------------------------------------------------------------
def prod(s):
    p = 1
    for x in s:
        p *= x
    return p


def variance_value(vc):
    import gpytorch
    import torch
    mv = float(gpytorch.settings.min_variance.value(torch.float64))
    return dict(below=mv * 1e-2, at=mv, above=mv * 1.5, ordinary=0.7)[vc], mv


def square_root_of(torch, K, kind, gen):
    """n x n root B of K (B B^T = K) of the given kind."""
    m = K.shape[-1]
    L = torch.linalg.cholesky(K)
    if kind == "lower":
        return L
    if kind == "upper":
        P = torch.eye(m, dtype=torch.float64).flip(0)
        return P @ torch.linalg.cholesky(P @ K @ P) @ P
    if kind == "sym":
        e, V = torch.linalg.eigh(K)
        return V @ torch.diag_embed(e.sqrt()) @ V.transpose(-1, -2)
    if kind == "rot":
        Q, _ = torch.linalg.qr(torch.randn(*K.shape[:-2], m, m, generator=gen, dtype=torch.float64))
        return L @ Q
    raise core.Machinery("unknown kind of square root %r" % (kind,))


def make_instance(torch, rep, vc, batch, n, seed):
    """The caller's tensors (mean, carrier of the covariance) and K.  K = blockdiag(K1, v): K1 (n-1 x n-1) well conditioned."""
    gen = torch.Generator().manual_seed(seed)
    v, mv = variance_value(vc)
    m = n - 1
    mean = torch.randn(*batch, n, generator=gen, dtype=torch.float64)
    A = torch.randn(*batch, m, m, generator=gen, dtype=torch.float64)
    K1 = A @ A.transpose(-1, -2) / m + torch.eye(m, dtype=torch.float64)
    if rep == "diag":
        carrier = torch.cat([0.5 + 2 * torch.rand(*batch, m, generator=gen, dtype=torch.float64), torch.full(tuple(batch) + (1,), v, dtype=torch.float64)], -1)
        return mean, carrier, torch.diag_embed(carrier), mv
    if rep in ("dense", "lazy"):
        K = torch.zeros(*batch, n, n, dtype=torch.float64)
        K[..., :m, :m] = K1
        K[..., m, m] = v
        return mean, K, K.clone(), mv
    kind = rep[len("root-"):]
    if kind in SQUARE_KINDS:
        B = square_root_of(torch, K1, kind, gen)
    elif kind == "wide":
        Q, _ = torch.linalg.qr(torch.randn(*batch, m + 1, m + 1, generator=gen, dtype=torch.float64))
        B = torch.linalg.cholesky(K1) @ Q[..., :m, :]
    elif kind == "narrow":
        B = torch.linalg.cholesky(K1)[..., :, :m - 1]
    else:
        raise core.Machinery("unknown representation %r" % (rep,))
    k = B.shape[-1] + 1
    R = torch.zeros(*batch, n, k, dtype=torch.float64)
    R[..., :m, :k - 1] = B
    R[..., m, k - 1] = math.sqrt(v)
    if kind in ("upper", "sym", "rot") and float(R.tril(-1).abs().max()) > 0 and float(R.triu(1).abs().max()) == 0:
        raise core.Machinery("the %s root came out lower triangular" % kind)
    return mean, R, R @ R.transpose(-1, -2), mv


def construct(torch, rep, mean, carrier):
    from gpytorch.distributions import MultivariateNormal
    from linear_operator import to_linear_operator
    from linear_operator.operators import DiagLinearOperator, RootLinearOperator
    if rep == "dense":
        cov = carrier
    elif rep == "lazy":
        cov = to_linear_operator(carrier)
    elif rep == "diag":
        cov = DiagLinearOperator(carrier)
    else:
        cov = RootLinearOperator(carrier)
    return MultivariateNormal(mean, cov)       # the caller's own tensors: not cloned


def eclose(a, b, scale, rtol=1e-7, afac=1e-9):
    """entrywise: |a - b| <= rtol * |b| + afac * scale (scale = the natural magnitude of each entry)"""
    import torch
    a = torch.as_tensor(a, dtype=torch.float64)
    if tuple(a.shape) != tuple(b.shape):
        return False, "shape %s vs %s" % (list(a.shape), list(b.shape))
    if not bool(torch.isfinite(a).all()):
        return False, "non-finite values"
    err = (a - b).abs()
    tol = rtol * b.abs() + afac * scale
    if bool((err <= tol).all()):
        return True, ""
    i = int((err - tol).reshape(-1).argmax())
    return False, "entry %d is %.12g, expected %.12g" % (i, float(a.reshape(-1)[i]), float(b.reshape(-1)[i]))


_INST = {}


def replay_history(torch, rep, vc, batch, n, seed, acts):
    """One history on one object.  Returns (ok, cell, detail, ncomparisons)."""
    import gpytorch
    from checks import c10_numeric
    batch = tuple(batch)
    ikey = (rep, vc, batch, n, seed)
    if ikey not in _INST:       # (the histories of one configuration share the instance; the object is built anew for each)
        _INST.clear()
        _INST[ikey] = make_instance(torch, rep, vc, batch, n, seed)
    mean0, carrier0, S, mv = _INST[ikey]
    mean, carrier = mean0.clone(), carrier0.clone()
    ok, d = core.guarded(lambda: construct(torch, rep, mean, carrier))
    if not ok:
        return False, "construct/raises", d, 1
    M = mean0
    dg = torch.diagonal(S, dim1=-1, dim2=-2)
    sc2 = (dg.unsqueeze(-1) * dg.unsqueeze(-2)).sqrt()         # magnitude of covariance entry (i, j)
    sd = dg.sqrt()
    var_ref = dg.clamp_min(mv)                                 # the documented rounding of variances below settings.min_variance
    has_density = rep != "root-narrow"
    gen = torch.Generator().manual_seed(seed + 77)
    if has_density:
        L0 = torch.linalg.cholesky(S)
        Y = M + (L0 @ (1.2 * torch.randn(2, *batch, n, 1, generator=gen, dtype=torch.float64))).squeeze(-1)
        lp_ref = c10_numeric.ref_logpdf(torch, Y, M, S)
        ent_ref = 0.5 * n * (1 + math.log(2 * math.pi)) + torch.log(torch.diagonal(L0, dim1=-1, dim2=-2)).sum(-1)
        P_ref = torch.cholesky_inverse(L0)
    ncmp = [0]

    def logprob(dist, fast, Yv, ref):
        with gpytorch.settings.fast_computations(log_prob=fast):
            okl, lp = core.guarded(lambda: dist.log_prob(Yv))
        if not okl:
            return "raises", "log_prob (fast_computations.log_prob=%s) raised %s" % (fast, lp)
        ncmp[0] += 1
        g, w = core.close(lp, ref, 1e-7, 1e-9)
        return (None, "") if g else ("value", "log_prob (fast_computations.log_prob=%s) = %s, Gaussian log density of N(mean, K) = %s: %s" % (
            fast, lp.reshape(-1)[:3].tolist(), ref.reshape(-1)[:3].tolist(), w))

    def moments(dist, bs, rm, rS, rsc):
        okv, view = core.guarded(lambda: (tuple(dist.batch_shape), torch.broadcast_to(dist.mean, bs + rm.shape[-1:]), torch.broadcast_to(dist.covariance_matrix, bs + rS.shape[-2:])))
        if not okv:
            return "raises", "the derived distribution cannot be evaluated: %s" % view
        if view[0] != bs:
            return "batch-shape", "batch_shape %s, expected %s" % (list(view[0]), list(bs))
        ncmp[0] += 2
        g, w = eclose(view[1], rm.expand(bs + rm.shape[-1:]), 1.0)
        if not g:
            return "mean", "mean: " + w
        g, w = eclose(view[2], rS.expand(bs + rS.shape[-2:]), rsc.expand(bs + rS.shape[-2:]))
        return (None, "") if g else ("covariance", "covariance: " + w)

    def observe(act, compare):
        """(bad cell or None, detail)"""
        if act in DERIVE:
            if act == "addc":
                fn, rm, rS, rsc, bs, Yv = (lambda: d + 0.5), M + 0.5, S, sc2, batch, (Y + 0.5 if has_density else None)
            elif act == "mul2":
                fn, rm, rS, rsc, bs, Yv = (lambda: d * 2), 2 * M, 4 * S, 4 * sc2, batch, (2 * Y if has_density else None)
            elif act == "tail":
                fn, rm, rS, rsc, bs, Yv = (lambda: d[..., 1:]), M[..., 1:], S[..., 1:, 1:], sc2[..., 1:, 1:], batch, (Y[..., 1:] if has_density else None)
            elif act == "expand":
                B = (2,) + batch
                fn, rm, rS, rsc, bs, Yv = (lambda: d.expand(torch.Size(B))), M, S, sc2, B, (Y if has_density else None)
            else:
                fn, rm, rS, rsc, bs, Yv = (lambda: d.unsqueeze(0)), M.unsqueeze(0), S.unsqueeze(0), sc2.unsqueeze(0), (1,) + batch, (Y.unsqueeze(1) if has_density else None)
            okd, r = core.guarded(fn)
            if not okd:
                return "raises", "%s raised %s" % (act, r)
            bad, why = moments(r, bs, rm, rS, rsc)
            if bad or compare != "all":
                return bad, why
            ref = c10_numeric.ref_logpdf(torch, Yv, rm, rS)
            for fast in (True, False):
                bad, why = logprob(r, fast, Yv, ref)
                if bad:
                    return "then-log_prob-%s/%s" % ("fast" if fast else "cholesky", bad), why
            return None, ""
        if act in ("log_prob_fast", "log_prob_chol"):
            if compare == "none":
                with gpytorch.settings.fast_computations(log_prob=(act == "log_prob_fast")):
                    core.guarded(lambda: d.log_prob(M + 1.0))       # K is singular: may be refused; whatever it does is part of the history
                return None, ""
            return logprob(d, act == "log_prob_fast", Y, lp_ref)
        if act == "rsample":
            okb, kk = core.guarded(lambda: int(d.base_sample_shape[-1]))
            want_k = carrier0.shape[-1] if rep.startswith("root") else n
            if not okb or kk != want_k:
                return "base_sample_shape", "base_sample_shape is %s, expected [%d]" % (kk, want_k)
            E = torch.eye(kk, dtype=torch.float64).reshape(kk, *([1] * len(batch)), kk).expand(kk, *batch, kk).contiguous()
            okr, smp = core.guarded(lambda: d.rsample(base_samples=E))
            if not okr:
                return "raises", "rsample(base_samples=unit vectors) raised %s" % smp
            if tuple(smp.shape) != (kk,) + batch + (n,):
                return "shape", "rsample(base_samples of shape %s) has shape %s" % (list(E.shape), list(smp.shape))
            Rr = (smp - M).movedim(0, -1)
            ncmp[0] += 1
            g, w = eclose(Rr @ Rr.transpose(-1, -2), S, sc2)
            return (None, "") if g else ("value", "rsample(base_samples=e) - mean = R e with R R^T != K: " + w)
        getter = dict(mean=lambda: d.mean, variance=lambda: d.variance, stddev=lambda: d.stddev, confidence_region=lambda: d.confidence_region(),
                      covariance_matrix=lambda: d.covariance_matrix, scale_tril=lambda: d.scale_tril, precision_matrix=lambda: d.precision_matrix,
                      entropy=lambda: d.entropy()).get(act)
        if getter is None:
            raise core.Machinery("unknown observation %r in the TLC dump" % (act,))
        okg, val = core.guarded(getter)
        if compare == "none":
            return None, ""                 # (a singular K: the Cholesky-path quantities may be refused or jittered; they are part of the history only)
        if not okg:
            return "raises", "%s raised %s" % (act, val)
        ncmp[0] += 1
        if act == "mean":
            g, w = eclose(torch.broadcast_to(val, M.shape), M, 1.0)
        elif act == "variance":
            g, w = eclose(torch.broadcast_to(val, dg.shape), var_ref, var_ref)
        elif act == "stddev":
            g, w = eclose(torch.broadcast_to(val, dg.shape), var_ref.sqrt(), var_ref.sqrt())
        elif act == "confidence_region":
            g, w = eclose(val[0], M - 2 * var_ref.sqrt(), var_ref.sqrt() + M.abs())
            if g:
                g, w = eclose(val[1], M + 2 * var_ref.sqrt(), var_ref.sqrt() + M.abs())
        elif act == "covariance_matrix":
            g, w = eclose(torch.broadcast_to(val, S.shape), S, sc2)
        elif act == "scale_tril":
            val = torch.broadcast_to(val, S.shape)
            if float(val.triu(1).abs().max()) != 0.0:
                g, w = False, "scale_tril is not lower triangular (largest entry above the diagonal %.6g)" % float(val.triu(1).abs().max())
            else:
                g, w = eclose(val @ val.transpose(-1, -2), S, sc2)
                w = "scale_tril scale_tril^T != K: " + w
        elif act == "precision_matrix":
            g, w = eclose(torch.broadcast_to(val, S.shape), P_ref, 1.0 / sc2)
        else:
            g, w = core.close(torch.broadcast_to(val, ent_ref.shape), ent_ref, 1e-7, 1e-9)
        return (None, "") if g else ("value", "%s: %s" % (act, w))

    done = []
    for h in acts:
        act, compare = h["act"], h["compare"]
        bad, why = observe(act, compare)
        if bad:
            hist = "".join("%s/then-" % a for a in done)
            first = (" after reading %s" % ", ".join(done)) if done else ""
            return False, "%s%s/%s" % (hist, act, bad), "%s%s: %s" % (act, first, why), ncmp[0]
        done.append(act)
    # the history is over: the caller's tensors are what they were, the object still holds (mean, K)
    ncmp[0] += 3
    hist = "/then-".join(done)
    if not torch.equal(carrier, carrier0) or not torch.equal(mean, mean0):
        which = "covariance" if not torch.equal(carrier, carrier0) else "mean"
        t, t0 = (carrier, carrier0) if which == "covariance" else (mean, mean0)
        i = int((t - t0).abs().reshape(-1).argmax())
        return False, hist + "/caller-tensor-changed", "after %s the caller's %s tensor differs from what was passed in (entry %d: %.6g, was %.6g)" % (
            ", ".join(done), which, i, float(t.reshape(-1)[i]), float(t0.reshape(-1)[i])), ncmp[0]
    oks, st = core.guarded(lambda: (torch.broadcast_to(d.mean, M.shape), torch.broadcast_to(d.lazy_covariance_matrix.to_dense(), S.shape)))
    if not oks:
        return False, hist + "/stored/raises", "after %s: %s" % (", ".join(done), st), ncmp[0]
    g1, w1 = eclose(st[0], M, 1.0)
    g2, w2 = eclose(st[1], S, sc2)
    if not (g1 and g2):
        return False, hist + "/stored-changed", "after %s the distribution holds another %s: %s" % (", ".join(done), "mean" if not g1 else "covariance", w1 or w2), ncmp[0]
    return True, hist, "", ncmp[0]


def _reads_worker(item):
    torch = core.setup_torch()
    out = []
    rep, vc, batch, n = item["rep"], item["vc"], item["batch"], item["n"]
    for j, acts in enumerate(item["hists"]):
        seed = item["seed"]
        ok, cell, detail, ncmp = replay_history(torch, rep, vc, batch, n, seed, acts)
        names = [h["act"] for h in acts]
        if not ok:
            # report the shortest sub-history (same instance) that fails too: a failure that does not need the history gets the
            # same signature wherever it shows
            import itertools
            for ln in range(1, len(acts)):
                sub = [[acts[i] for i in idx] for idx in itertools.combinations(range(len(acts)), ln)]
                hit = [(c, r) for c, r in ((c, replay_history(torch, rep, vc, batch, n, seed, c)) for c in sub) if not r[0]]
                if hit:
                    acts, (_, cell, detail, _) = hit[-1]
                    break
        r = dict(key=["reads", rep, vc, list(batch), n, names], ok=ok, nontrivial=True, n=max(1, ncmp),
                 sig="C10/reads/%s/%s/%s" % (rep, vc, cell),
                 detail="n=%d batch=%s %s, smallest marginal variance %s settings.min_variance: %s" % (n, list(batch), rep, vc, detail))
        if not ok:
            r["case"] = dict(kind="reads", rep=rep, vc=vc, batch=list(batch), n=n, seed=seed, acts=acts)
        elif j == 0 and item.get("sample"):
            r["sample"] = dict(case="n=%d batch=%s %s variance class %s" % (n, list(batch), rep, vc), history=names)
        out.append(r)
    return out


def run(ck, meta, results):
    items = []
    seen_acts, seen_cfg = set(), set()
    for m, res in zip(meta, results):
        ck.add_tlc(res, "MVNReads " + m["name"] + ("" if m["variant"] == "pure" else " (what-if variant of the model: the violation is expected)"))
        if res.rc != 0 and res.violation is None:
            raise tlc.TLCError("TLC failed on MVNReads %s:\n%s" % (m["name"], res.stdout[-1500:]))
        if m["variant"] != "pure":
            # a what-if variant: the invariant must be able to see the defect class
            if res.violation is None:
                ck.vacuous("MVNReads.tla, what-if variant %s: TLC found no violation of ReadsPure - the invariant does not see that class" % m["variant"])
            ck.extra.setdefault("model_variants", {}).setdefault("MVNReads.tla", {})[m["variant"]] = dict(
                expected="violation of ReadsPure", found=(res.violation or {}).get("name"))
            continue
        if res.violation is not None:
            ck.model_drift("MVNReads.tla (model of the current code) violates %s on %s: a prediction, decided by the replay" % (res.violation["name"], m["name"]))
        states = res.states()
        ck.section("reads-gen", runs=1, states=len(states))
        by = {}
        for st in states:
            h = st["hist"]
            if len(h) != m["maxlen"]:
                continue                    # a proper prefix: every position of the maximal histories is compared
            c = st["cfg"]
            acts = [dict(act=str(e["act"]), compare=("all" if e["compare"] is True else "none" if e["compare"] is False else str(e["compare"]))) for e in h]
            by.setdefault((str(c["rep"]), str(c["vc"]), tuple(c["batch"])), []).append(acts)
            seen_acts.update(a["act"] for a in acts)
        if not by:
            ck.vacuous("MVNReads run %s generated no history of length %d" % (m["name"], m["maxlen"]))
        for (rep, vc, batch), hists in sorted(by.items()):
            seen_cfg.add((rep, vc))
            hists.sort(key=repr)
            for n in m["ns"]:
                for i in range(0, len(hists), 120):
                    items.append(dict(rep=rep, vc=vc, batch=list(batch), n=n, hists=hists[i:i + 120], sample=(i == 0 and rep == "root-sym" and vc == "below"),
                                      seed=ck.seed * 100003 + 7001 + 1009 * len(items)))
    need = set((r, v) for r in ALL_REPS for v in VCLASSES)
    if need - seen_cfg:
        ck.vacuous("MVNReads: no history for %s" % sorted(need - seen_cfg)[:4])
    for a in ("variance", "stddev", "confidence_region", "scale_tril", "precision_matrix", "log_prob_chol", "log_prob_fast", "entropy", "rsample", "covariance_matrix", "mean") + DERIVE:
        if a not in seen_acts:
            ck.vacuous("MVNReads: observation %s never taken" % a)
    res = core.pmap(_reads_worker, items, chunksize=1)
    ck.absorb(res)
    ck.section("reads-replay", histories=len(res), comparisons=sum(r.get("n", 1) for r in res), failed=sum(1 for r in res if not r["ok"]))


def replay(rep):
    torch = core.setup_torch()
    c = rep["case"]
    ok, cell, detail, _ = replay_history(torch, c["rep"], c["vc"], tuple(c["batch"]), c["n"], c["seed"], c["acts"])
    if not ok:
        print("VIOLATION property=C10 replay=- :: C10/reads/%s/%s/%s :: %s" % (c["rep"], c["vc"], cell, detail))
        return 1
    print("replay passed")
    return 0
