"""C04 - fantasy models equal conditioning from scratch and leave the source untouched.
Spec: Fantasy.tla (shape reconciliation, rational bordered update, source/fantasy machine), GPCache.tla (GetFantasy),
CacheTrace.tla (no cache event on the source's objects while a fantasy is created)."""
import itertools
import os
import random

from harness import core, tlc

LEVEL = "model_checking"
PID = "C04"


# comparison of a fantasy model with conditioning from scratch: direct (Cholesky) algebra for the default strategy; the KISS-GP update
# goes through root decompositions of interpolated operators and agrees to ~2e-8 absolute on O(0.1) values (measured over the thorough tier)
TOL = {"exact": (1e-7, 1e-9), "kw": (1e-7, 1e-9), "kiss": (1e-6, 1e-8)}


def tla(v):
    if isinstance(v, bool):
        return "TRUE" if v else "FALSE"
    if isinstance(v, int):
        return str(v)
    if isinstance(v, str):
        return '"%s"' % v
    if isinstance(v, (list, tuple)):
        return "<<" + ", ".join(tla(x) for x in v) + ">>"
    if isinstance(v, dict):
        return "[" + ", ".join("%s |-> %s" % (k, tla(x)) for k, x in v.items()) + "]"
    raise TypeError(v)


def write_mc(workdir, name, part, dims=(1, 2, 3), maxrank=1, instances=(), follows=False):
    os.makedirs(workdir, exist_ok=True)
    mod = "MC_Fantasy_" + name
    with open(os.path.join(workdir, mod + ".tla"), "w") as f:
        f.write("---- MODULE %s ----\nEXTENDS Fantasy\nDimsDef == {%s}\nInstDef == {%s}\n====\n" % (
            mod, ", ".join(map(str, dims)), ",\n  ".join(tla(i) for i in instances)))
    cfg = os.path.join(workdir, mod + ".cfg")
    inv = {"shapes": ["ShapesOK"], "update": ["UpdateOK"], "machine": ["DataIsConcatenation"], "list": ["ListOK"]}[part]
    tlc.write_cfg(cfg, spec="Spec", constants={"Part": part, "Dims": "<- DimsDef", "MaxRank": maxrank, "Instances": "<- InstDef",
                                          "FantasyFollowsSource": bool(follows)},
                  invariants=inv, properties=["SourceUntouched", "DataFixed", "HyperOwn"] if part == "machine" else [])
    return os.path.join(workdir, mod + ".tla"), cfg


def gen_instances(rnd, count):
    out, seen = [], set()
    while len(out) < count:
        n, m = rnd.choice([(1, 1), (2, 1), (1, 2), (2, 2)])
        G = [[rnd.randint(-2, 2), rnd.randint(-2, 2)] for _ in range(n + m)]
        inst = dict(n=n, G=G, s2=rnd.choice([1, 2]), y=[rnd.randint(-2, 2) for _ in range(n + m)], t=[rnd.randint(-2, 2), rnd.randint(-2, 2)])
        k = repr(inst)
        if k not in seen:
            seen.add(k)
            out.append(inst)
    return out


# ---------------------------------------------------------------------------------------------
def make_model(torch, gpytorch, kind, lik_kind, x, y, noise=None, d=1, requires_grad=True, mean="const"):
    from checks import gpmodels as G
    if lik_kind == "homo":
        lik = gpytorch.likelihoods.GaussianLikelihood()
    elif lik_kind == "fixed":
        lik = gpytorch.likelihoods.FixedNoiseGaussianLikelihood(noise=noise, learn_additional_noise=False)
    elif lik_kind == "fixed+learned":
        lik = gpytorch.likelihoods.FixedNoiseGaussianLikelihood(noise=noise, learn_additional_noise=True)
    elif lik_kind == "mtask":
        lik = gpytorch.likelihoods.MultitaskGaussianLikelihood(num_tasks=2)
    fam = "mtask" if lik_kind == "mtask" else kind
    model = KwModel(x, y, lik, d) if kind == "kw" else G.ExactModel(x, y, lik, fam, d)
    if mean == "linear":              # an input-dependent prior mean (the fantasy points have their own prior mean values)
        model.mean_module = gpytorch.means.LinearMean(d)
    model = model.to(torch.float64)
    lik = lik.to(torch.float64)
    if mean == "linear":
        with torch.no_grad():
            model.mean_module.weights.fill_(0.8)
            model.mean_module.bias.fill_(-0.3)
    with torch.no_grad():
        if lik_kind in ("homo", "mtask"):
            lik.noise = 0.15
        if lik_kind == "fixed+learned":
            lik.second_noise = 0.05
        for _, mod in model.named_modules():
            if isinstance(mod, gpytorch.kernels.RBFKernel):
                mod.lengthscale = 0.6
            if isinstance(mod, gpytorch.kernels.ScaleKernel):
                mod.outputscale = 1.4
    if not requires_grad:
        for p in model.parameters():
            p.requires_grad_(False)
    model.eval()
    lik.eval()
    return model, lik


_KW = {}


def _kw_classes():
    """an exact GP whose forward passes a call-time keyword on to its kernel (valid, rare): model(x, warp=w), get_fantasy_model(X, y, warp=w)"""
    if _KW:
        return _KW
    import gpytorch

    class WarpRBF(gpytorch.kernels.RBFKernel):
        def forward(self, x1, x2, diag=False, warp=1.0, **params):
            return super().forward(x1 * warp, x2 * warp, diag=diag, **params)

    class _KwModel(gpytorch.models.ExactGP):
        def __init__(self, x, y, lik, d=1):
            super().__init__(x, y, lik)
            self.mean_module = gpytorch.means.ConstantMean()
            self.covar_module = gpytorch.kernels.ScaleKernel(WarpRBF(ard_num_dims=d))

        def forward(self, x, warp=1.0):
            return gpytorch.distributions.MultivariateNormal(self.mean_module(x), self.covar_module(x, warp=warp))
    _KW["model"] = _KwModel
    return _KW


def KwModel(x, y, lik, d=1):
    return _kw_classes()["model"](x, y, lik, d)


def snapshot(torch, model):
    ps = model.prediction_strategy
    return dict(state={k: v.clone() for k, v in model.state_dict().items()},
                x=[t.clone() for t in model.train_inputs], xid=[id(t) for t in model.train_inputs],
                y=model.train_targets.clone(), yid=id(model.train_targets), psid=id(ps),
                memo={repr(k): id(v) for k, v in getattr(ps, "_memoize_cache", {}).items()},
                lik=id(model.likelihood), training=model.training)


def same_snapshot(torch, a, b):
    why = []
    if set(a["state"]) != set(b["state"]) or any(not torch.equal(a["state"][k], b["state"][k]) for k in a["state"]):
        why.append("parameters/buffers changed")
    if a["xid"] != b["xid"] or any(not torch.equal(p, q) for p, q in zip(a["x"], b["x"])):
        why.append("train_inputs replaced or changed")
    if a["yid"] != b["yid"] or not torch.equal(a["y"], b["y"]):
        why.append("train_targets replaced or changed")
    if a["psid"] != b["psid"]:
        why.append("prediction_strategy replaced")
    # entries may be added (computed from the source's own state); existing entries must stay the same objects
    gone = [k for k, v in a["memo"].items() if b["memo"].get(k) != v]
    if gone:
        why.append("prediction cache entries replaced or dropped: %s" % gone)
    if a["lik"] != b["lik"] or a["training"] != b["training"]:
        why.append("likelihood / mode changed")
    return why


def _worker(item):
    torch = core.setup_torch()
    import gpytorch
    from gpytorch import settings
    try:
        from gpytorch import _verif
        if not _verif.ON:
            _verif = None
    except ImportError:
        _verif = None
    cfgs = item["cfgs"]
    out = []
    for c in cfgs:
        if c.get("kind") == "modellist":
            out.append(run_list_config(torch, gpytorch, settings, c))
        elif c.get("tree"):
            out.append(run_tree_config(torch, gpytorch, settings, c))
        else:
            out.append(run_config(torch, gpytorch, settings, _verif, c))
    return out


def run_config(torch, gpytorch, settings, _verif, c):
    kind, lik_kind = c["kind"], c["lik"]
    MB, IB, TB = tuple(c["MB"]), tuple(c["IB"]), tuple(c["TB"])
    n, m, d, ms = 5, 2, 1, 3
    depth = c["depth"]
    g = torch.Generator().manual_seed(c["seed"])
    tasks = 2 if lik_kind == "mtask" else 0
    tshape = (tasks,) if tasks else ()
    desc = "%s/%s%s model_batch=%s input_batch=%s target_batch=%s fast_pred_var=%s detach=%s depth=%d grad=%s" % (
        kind, lik_kind, "/linear-mean" if c.get("mean") == "linear" else "", list(MB), list(IB), list(TB), c["fpv"], c["detach"], depth, c["grad"])
    cell = "C04/%s/%s/mb%d-ib%d-tb%d%s%s" % (kind + ("-callkw" if c.get("callkw") else ""), lik_kind, len(MB), len(IB), len(TB), "" if c["grad"] else "/nograd",
                                         "/unit-batch-dims" if 1 in (list(MB) + list(TB)) else "")
    key = [kind, lik_kind, list(MB), list(IB), list(TB), c["fpv"], c["detach"], depth, c["grad"], c.get("mean", "const")]
    res = dict(key=key, ok=True, nontrivial=True, sample=dict(config=desc))

    def fail(sym, detail):
        res.update(ok=False, sig=cell + "/" + sym, detail=desc + ": " + detail, case=c)
        return res

    x = torch.rand(*MB, n, d, generator=g, dtype=torch.float64) * 2 - 1
    y = torch.sin(3 * x.sum(-1, keepdim=bool(tasks)).expand(*MB, n, *tshape) if tasks else 3 * x.sum(-1)) + 0.1 * torch.randn(*MB, n, *tshape, generator=g, dtype=torch.float64)
    noise = (0.05 + 0.1 * torch.rand(*MB, n, generator=g, dtype=torch.float64)) if lik_kind.startswith("fixed") else None
    xs = torch.rand(ms, d, generator=g, dtype=torch.float64) * 2 - 1
    model, lik = make_model(torch, gpytorch, kind, lik_kind, x, y, noise, d, c["grad"], c.get("mean", "const"))
    cms = lambda: (settings.fast_pred_var(c["fpv"]), settings.detach_test_caches(c["detach"]))
    from contextlib import ExitStack

    callkw = dict(c.get("callkw") or {})

    def predict(mdl, inp):
        with ExitStack() as st:
            for cm in cms():
                st.enter_context(cm)
            o = mdl(inp, **callkw)
            return o.mean.detach().clone(), o.covariance_matrix.detach().clone()

    ok, r0 = core.guarded(lambda: predict(model, xs))
    if not ok:
        return fail("source-predict-raises", r0)
    cur, cur_lik = model, lik
    all_x, all_y, all_noise = x, y, noise
    for k in range(depth):
        xf = torch.rand(*IB, m, d, generator=g, dtype=torch.float64) * 2 - 1
        yf = torch.randn(*TB, m, *tshape, generator=g, dtype=torch.float64) * 0.5
        # fixed noise belongs to the inputs: shared fantasy inputs carry shared noise
        # (the fantasy noise is concatenated with the stored noise: it carries at least the model's batch shape)
        NB = IB if len(IB) >= len(MB) else MB
        nf = (0.05 + 0.1 * torch.rand(*NB, m, generator=g, dtype=torch.float64)) if noise is not None else None
        before = snapshot(torch, cur)
        before_pred = predict(cur, xs) if k == 0 else None
        kw = {"noise": nf} if nf is not None else {}
        kw.update(callkw)
        if _verif is not None:
            mark = len(_verif.events)
        with ExitStack() as st:
            for cm in cms():
                st.enter_context(cm)
            ok, fm = core.guarded(lambda: cur.get_fantasy_model(xf, yf, **kw))
        if not ok:
            return fail("raises", "get_fantasy_model raised %s" % fm)
        # (3) the source is untouched
        why = same_snapshot(torch, before, snapshot(torch, cur))
        if why:
            return fail("source-changed", "; ".join(why))
        if _verif is not None:
            src_owners = {_verif.oid(cur), _verif.oid(cur.prediction_strategy)}
            # additional fills (entries computed from the source's own state) are fine; dropping or replacing is not
            evs = [e for e in _verif.events[mark:] if e["ev"] in ("c_clear", "c_pop", "ps_clear", "ps_create") and e.get("owner") in src_owners]
            if evs:
                return fail("source-cache-events", "cache events on the source during get_fantasy_model: %s" % evs[:3])
        if before_pred is not None:
            after_pred = predict(cur, xs)
            g1, w1 = core.close(after_pred[0], before_pred[0], 1e-10, 1e-12)
            g2, w2 = core.close(after_pred[1], before_pred[1], 1e-10, 1e-12)
            if not (g1 and g2):
                return fail("source-predictions-changed", w1 + w2)
        # the concatenated data set in the documented meaning
        B = tuple(c["meaning"]) if k == 0 else tuple(all_x.shape[:-2])
        if k == 0:
            all_x = all_x.expand(*B, *all_x.shape[-2:])
            all_y = all_y.expand(*B, *all_y.shape[len(MB):])
            if all_noise is not None:
                all_noise = all_noise.expand(*B, all_noise.shape[-1])
        all_x = torch.cat([all_x, xf.expand(*B, m, d)], dim=-2)
        all_y = torch.cat([all_y, yf.expand(*B, m, *tshape)], dim=-1 - len(tshape))
        if all_noise is not None:
            all_noise = torch.cat([all_noise, nf.expand(*B, m)], dim=-1)
        # shapes of the fantasy model's data
        if tuple(fm.train_inputs[0].shape) != tuple(all_x.shape) or tuple(fm.train_targets.shape) != tuple(all_y.shape):
            return fail("data-shape", "fantasy model holds inputs %s targets %s; documented meaning is %s / %s" % (
                list(fm.train_inputs[0].shape), list(fm.train_targets.shape), list(all_x.shape), list(all_y.shape)))
        if not torch.equal(fm.train_inputs[0], all_x) or not torch.equal(fm.train_targets, all_y):
            return fail("data-values", "fantasy model's training data is not the concatenation of source data and fantasies")
        # (1) predictions vs a fresh model on the concatenated data
        fresh, flik = make_model(torch, gpytorch, kind, lik_kind, all_x, all_y, all_noise, d, c["grad"], c.get("mean", "const"))
        sd = {k2: v.clone() for k2, v in model.state_dict().items() if "noise_covar.noise" not in k2 or lik_kind == "homo"}
        if lik_kind.startswith("fixed"):
            sd = {k2: v for k2, v in sd.items() if not k2.endswith("noise_covar.noise")}
        fresh.load_state_dict(sd, strict=False)
        ok, fp = core.guarded(lambda: predict(fm, xs))
        if not ok:
            return fail("fantasy-predict-raises", fp)
        rp = predict(fresh, xs)
        g1, w1 = core.close(fp[0], rp[0], *TOL[kind])
        if not g1:
            return fail("mean", "fantasy mean differs from conditioning on the concatenated data: " + w1)
        g2, w2 = core.close(fp[1], rp[1], *TOL[kind])
        if not g2:
            return fail("covariance", "fantasy covariance differs from conditioning on the concatenated data: " + w2)
        # (2) carried solves vs recomputation from the full data
        ps = fm.prediction_strategy
        with torch.no_grad():
            mvn = fm.likelihood(fm.forward(*fm.train_inputs, **callkw), *fm.train_inputs, **({"noise": all_noise} if False else {}))
            A = mvn.covariance_matrix
            rhs = (fm.train_targets.reshape(*A.shape[:-2], -1) - mvn.mean.reshape(*A.shape[:-2], -1)).unsqueeze(-1)
            want_mean_cache = torch.linalg.solve(A, rhs).squeeze(-1)
            memo = getattr(ps, "_memoize_cache", {})
            mc = [v for k2, v in memo.items() if (k2[0] if isinstance(k2, tuple) else k2) == "mean_cache"]
            if mc:
                got = mc[0]
                got = got.expand(want_mean_cache.shape) if got.dim() <= want_mean_cache.dim() else got
                g3, w3 = core.close(got, want_mean_cache, 1e-7, 1e-9)
                if not g3:
                    return fail("carried-mean-cache", "carried A^-1 (y - m) differs from the solve recomputed from the full data: " + w3)
            cc = [v for k2, v in memo.items() if (k2[0] if isinstance(k2, tuple) else k2) == "covar_cache"]
            if cc and kind in ("exact", "kw"):
                Rm = cc[0]
                Rm = Rm.to_dense() if hasattr(Rm, "to_dense") else Rm
                Ainv = torch.linalg.inv(A)
                got = Rm @ Rm.transpose(-1, -2)
                got = got.expand(Ainv.shape) if got.dim() <= Ainv.dim() else got
                g4, w4 = core.close(got, Ainv, 1e-6, 1e-8)
                if not g4:
                    return fail("carried-inverse-root", "carried R with R R^T = A^-1 differs from the inverse recomputed from the full data: " + w4)
        cur, cur_lik = fm, fm.likelihood
        IB = ()
        TB = ()
        IB, TB = tuple(all_x.shape[:-2]), tuple(all_x.shape[:-2])  # re-fantasize with full batch shapes
    return res


def run_list_config(torch, gpytorch, settings, c):
    """IndependentModelList.get_fantasy_model: every member's fantasy = that member conditioned on its own concatenated data
    (with its own noise entry); the source list is untouched."""
    from contextlib import ExitStack
    members, entries = c["members"], c["noise"]
    n, m, d, ms = 5, 2, 1, 3
    g = torch.Generator().manual_seed(c["seed"])
    desc = "IndependentModelList(%s).get_fantasy_model(noise=%s) fast_pred_var=%s detach=%s depth=%d" % (
        ", ".join(members), "-" if entries == ["-", "-"] else "[%s]" % ", ".join("v%d" % k if e == "v" else "None" for k, e in enumerate(entries)),
        c["fpv"], c["detach"], c["depth"])
    cell = "C04/modellist/%s/noise-%s" % ("+".join(members), "".join(entries))
    res = dict(key=["modellist", members, entries, c["fpv"], c["detach"], c["depth"]], ok=True, nontrivial=True, sample=dict(config=desc))

    def fail(sym, detail):
        res.update(ok=False, sig=cell + "/" + sym, detail=desc + ": " + detail, case=c)
        return res

    def predict(mdl, inps):
        with ExitStack() as st:
            st.enter_context(settings.fast_pred_var(c["fpv"]))
            st.enter_context(settings.detach_test_caches(c["detach"]))
            outs = mdl(*inps)
            return [(o.mean.detach().clone(), o.covariance_matrix.detach().clone()) for o in outs]

    data, models = [], []
    for k, kind in enumerate(members):
        x = torch.rand(n, d, generator=g, dtype=torch.float64) * 2 - 1
        y = torch.sin(3 * x.sum(-1) + k) + 0.1 * torch.randn(n, generator=g, dtype=torch.float64)
        noise = (0.05 + 0.1 * torch.rand(n, generator=g, dtype=torch.float64)) if kind.startswith("fixed") else None
        mdl, lik = make_model(torch, gpytorch, "exact", kind, x, y, noise, d, True)
        with torch.no_grad():       # distinct hyperparameters per member
            mdl.covar_module.base_kernel.lengthscale = 0.5 + 0.3 * k
            if kind == "homo":
                lik.noise = 0.1 + 0.1 * k
        data.append([x, y, noise])
        models.append(mdl)
    ml = gpytorch.models.IndependentModelList(*models)
    ml.eval()
    xs = [torch.rand(ms, d, generator=g, dtype=torch.float64) * 2 - 1 for _ in members]
    ok, r0 = core.guarded(lambda: predict(ml, xs))
    if not ok:
        return fail("source-predict-raises", r0)
    cur = ml
    for step in range(c["depth"]):
        xf = [torch.rand(m, d, generator=g, dtype=torch.float64) * 2 - 1 for _ in members]
        yf = [torch.randn(m, generator=g, dtype=torch.float64) * 0.5 for _ in members]
        nf = [(0.3 + 0.4 * torch.rand(m, generator=g, dtype=torch.float64)) if e == "v" else None for e in entries]
        kw = {} if entries == ["-", "-"] else {"noise": nf}
        before = [snapshot(torch, mm) for mm in cur.models]
        before_pred = predict(cur, xs)
        with ExitStack() as st:
            st.enter_context(settings.fast_pred_var(c["fpv"]))
            st.enter_context(settings.detach_test_caches(c["detach"]))
            ok, fm = core.guarded(lambda: cur.get_fantasy_model(xf, yf, **kw))
        if not ok:
            return fail("raises", "get_fantasy_model raised %s" % fm)
        for k, mm in enumerate(cur.models):
            why = same_snapshot(torch, before[k], snapshot(torch, mm))
            if why:
                return fail("source-changed", "member %d: %s" % (k, "; ".join(why)))
        after_pred = predict(cur, xs)
        for k in range(len(members)):
            for a, b in zip(after_pred[k], before_pred[k]):
                gk, wk = core.close(a, b, 1e-10, 1e-12)
                if not gk:
                    return fail("source-predictions-changed", "member %d: %s" % (k, wk))
        if not isinstance(fm, gpytorch.models.IndependentModelList) or len(fm.models) != len(members):
            return fail("result-type", "result is %s" % type(fm).__name__)
        ok, fp = core.guarded(lambda: predict(fm, xs))
        if not ok:
            return fail("fantasy-predict-raises", fp)
        for k, kind in enumerate(members):
            x, y, noise = data[k]
            x = torch.cat([x, xf[k]], dim=-2)
            y = torch.cat([y, yf[k]], dim=-1)
            if noise is not None:
                noise = torch.cat([noise, nf[k]], dim=-1)
            data[k] = [x, y, noise]
            fmk = fm.models[k]
            if tuple(fmk.train_inputs[0].shape) != tuple(x.shape) or not torch.equal(fmk.train_inputs[0], x) or not torch.equal(fmk.train_targets, y):
                return fail("data", "member %d of the fantasy list does not hold the concatenation of its own data and its own fantasies" % k)
            fresh, flik = make_model(torch, gpytorch, "exact", kind, x, y, noise, d, True)
            sd = {k2: v.clone() for k2, v in models[k].state_dict().items() if not (kind.startswith("fixed") and k2.endswith("noise_covar.noise"))}
            fresh.load_state_dict(sd, strict=False)
            with ExitStack() as st:
                st.enter_context(settings.fast_pred_var(c["fpv"]))
                st.enter_context(settings.detach_test_caches(c["detach"]))
                o = fresh(xs[k])
                rp = (o.mean.detach().clone(), o.covariance_matrix.detach().clone())
            g1, w1 = core.close(fp[k][0], rp[0], 1e-7, 1e-9)
            if not g1:
                return fail("mean", "member %d (%s): fantasy mean differs from conditioning on its concatenated data: %s" % (k, kind, w1))
            g2, w2 = core.close(fp[k][1], rp[1], 1e-7, 1e-9)
            if not g2:
                return fail("covariance", "member %d (%s): fantasy covariance differs from conditioning on its concatenated data: %s" % (k, kind, w2))
        cur = fm
    return res


def run_tree_config(torch, gpytorch, settings, c):
    """A history of the Fantasy.tla machine: GetFantasy(of=k) / Predict(k) in any interleaving over the family tree.  Every model of the
    tree, whenever it is evaluated, must equal a fresh model on ITS data (source data ++ its chain of fantasies) - whether or not it or its
    children were evaluated before."""
    from contextlib import ExitStack
    kind, lik_kind, mean = c["kind"], c["lik"], c["mean"]
    n, m, d, ms = 5, 2, 1, 3
    g = torch.Generator().manual_seed(c["seed"])
    names = ["%s(%d)" % ({"GetFantasy": "F", "Predict": "P", "Refit": "R"}[o["a"]], o["of"]) for o in c["ops"]]
    desc = "%s/%s/%s-mean fast_pred_var=%s history=%s" % (kind, lik_kind, mean, c["fpv"], " ".join(names))
    cell = "C04/tree/%s/%s/%s-mean" % (kind, lik_kind, mean)
    res = dict(key=["tree", kind, lik_kind, mean, c["fpv"], names], ok=True, nontrivial=True, sample=dict(config=desc))

    def fail(sym, detail):
        res.update(ok=False, sig=cell + "/" + sym, detail=desc + ": " + detail, case=c)
        return res

    x = torch.rand(n, d, generator=g, dtype=torch.float64) * 2 - 1
    y = torch.sin(3 * x.sum(-1)) + 0.1 * torch.randn(n, generator=g, dtype=torch.float64)
    noise = (0.05 + 0.1 * torch.rand(n, generator=g, dtype=torch.float64)) if lik_kind.startswith("fixed") else None
    xs = torch.rand(ms, d, generator=g, dtype=torch.float64) * 2 - 1
    model, lik = make_model(torch, gpytorch, kind, lik_kind, x, y, noise, d, False, mean)

    def predict(mdl):
        with ExitStack() as st:
            st.enter_context(settings.fast_pred_var(c["fpv"]))
            o = mdl(xs)
            return o.mean.detach().clone(), o.covariance_matrix.detach().clone()

    ok, r0 = core.guarded(lambda: predict(model))          # the source needs a strategy before it can be fantasized
    if not ok:
        return fail("source-predict-raises", r0)
    def own_hypers(mdl):
        return {k2: v.detach().clone() for k2, v in mdl.state_dict().items() if not (lik_kind.startswith("fixed") and k2.endswith("noise_covar.noise"))}

    # "hypers": the values the model was given - by its creation (a copy of its parent's at that moment) or by its own latest Refit
    tree = [dict(model=model, x=x, y=y, noise=noise, evaluated=True, hypers=own_hypers(model))]

    def check(i, when):
        t = tree[i]
        ok, fp = core.guarded(lambda: predict(t["model"]))
        if not ok:
            return fail("predict-raises", "model %d (%s): %s" % (i + 1, when, fp))
        fresh, _ = make_model(torch, gpytorch, kind, lik_kind, t["x"], t["y"], t["noise"], d, False, mean)
        fresh.load_state_dict({k2: v.clone() for k2, v in t["hypers"].items()}, strict=False)
        rp = predict(fresh)
        first = "its first evaluation" if not t["evaluated"] else "re-evaluated"
        t["evaluated"] = True
        for nm, a, b in (("mean", fp[0], rp[0]), ("covariance", fp[1], rp[1])):
            good, why = core.close(a, b, *TOL[kind])
            if not good:
                return fail(nm + ("/first-evaluation-after-it-was-fantasized" if (first.startswith("its") and t.get("children")) else ""),
                            "model %d (%s, %s, %d children): %s differs from conditioning on its data from scratch: %s" % (
                                i + 1, when, first, t.get("children", 0), nm, why))
        return None

    for step, o in enumerate(c["ops"]):
        k = o["of"] - 1
        if o["a"] == "GetFantasy":
            xf = torch.rand(m, d, generator=g, dtype=torch.float64) * 2 - 1
            yf = torch.randn(m, generator=g, dtype=torch.float64) * 0.5
            nf = (0.05 + 0.1 * torch.rand(m, generator=g, dtype=torch.float64)) if noise is not None else None
            kw = {"noise": nf} if nf is not None else {}
            with ExitStack() as st:
                st.enter_context(settings.fast_pred_var(c["fpv"]))
                ok, fm = core.guarded(lambda: tree[k]["model"].get_fantasy_model(xf, yf, **kw))
            if not ok:
                return fail("raises", "step %d get_fantasy_model of model %d raised %s" % (step, k + 1, fm))
            tree[k]["children"] = tree[k].get("children", 0) + 1
            tree.append(dict(model=fm, x=torch.cat([tree[k]["x"], xf], -2), y=torch.cat([tree[k]["y"], yf], -1),
                             noise=None if noise is None else torch.cat([tree[k]["noise"], nf], -1), evaluated=False,
                             hypers={k2: v.clone() for k2, v in tree[k]["hypers"].items()}))
        elif o["a"] == "Refit":                               # new hyperparameter values for model k alone, the documented way
            mk = tree[k]["model"]
            mk.train()
            with torch.no_grad():
                for q, prm in enumerate(mk.parameters()):
                    prm.add_(0.4 + 0.15 * q)
            mk.eval()
            tree[k]["hypers"] = own_hypers(mk)
            tree[k]["refit"] = True
            bad = check(k, "step %d (after its re-fit)" % step)
            if bad:
                return bad
        else:
            bad = check(k, "step %d" % step)
            if bad:
                return bad
    for i in range(len(tree)):                                # closing observation of every model of the tree
        bad = check(i, "closing")
        if bad:
            return bad
    return res


def run(ck):
    thorough = ck.tier == "thorough"
    core.setup_torch()
    rnd = random.Random(ck.seed)
    ck.rule = ("configurations = every documented (model batch, input batch, target batch) triple from Fantasy.tla x likelihood x strategy x "
               "fast_pred_var x detach_test_caches x re-fantasizing depth, plus IndependentModelList fantasies (member likelihood kinds x noise-list entries "
               "incl. None); each compared with a fresh ExactGP on the concatenated data, the carried "
               "solves with recomputation, the source with its snapshot; non-trivial = all (every configuration conditions on new data)")
    ck.assumptions = ["supported batch patterns are those of the get_fantasy_model docstring: inputs/targets b1..bk x m or f x b1..bk x m, inputs not longer than targets",
                      "float64, 5 training + 2 fantasy points per step, noise >= 0.05"]
    wd = os.path.join(tlc.BUILD, PID)
    insts = gen_instances(rnd, 1500 if thorough else 250)
    jobs = []
    mod, cfg = write_mc(wd, "shapes", "shapes", dims=(1, 2, 3), maxrank=2 if thorough else 1)
    jobs.append(((mod, cfg), dict(name=PID + "/shapes", dump=True, check=False, workers=4)))
    mod, cfg = write_mc(wd, "update", "update", instances=insts)
    jobs.append(((mod, cfg), dict(name=PID + "/update", check=False, workers=8, timeout=1500)))
    mod, cfg = write_mc(wd, "machine", "machine")
    jobs.append(((mod, cfg), dict(name=PID + "/machine", check=False, workers=2, dump=True)))
    mod, cfg = write_mc(wd, "list", "list")
    jobs.append(((mod, cfg), dict(name=PID + "/list", dump=True, check=False, workers=2)))
    mod, cfg = write_mc(wd, "machine_follows", "machine", follows=True)
    jobs.append(((mod, cfg), dict(name=PID + "/machine_follows", check=False, workers=2)))
    rs = tlc.run_many(jobs, parallel=5)
    broken = rs.pop()
    ck.add_tlc(broken, "Fantasy machine, a fantasy follows its source's later hyperparameters (must be rejected)")
    if not (broken.violation and broken.violation["name"] == "HyperOwn"):
        ck.vacuous("the family-tree machine in which a re-fit of the source reaches its fantasies is accepted by TLC")
    for lab, r in zip(("shapes", "update (rational bordered system)", "machine", "list (per-member routing)"), rs):
        ck.add_tlc(r, "Fantasy " + lab)
        if r.violation:
            ck.model_drift("Fantasy.tla part %s violates %s: %s" % (lab, r.violation["name"], str(r.violation["trace"][:1])[:300]))
        elif r.rc != 0:
            raise tlc.TLCError("TLC failed on Fantasy %s:\n%s" % (lab, r.stdout[-1500:]))
    ck.section("rational_update", instances=len(insts))
    triples = []
    for st in rs[0].states():
        MB, IB, TB = [list(s) for s in st["c"]]
        if all(dd != 1 for dd in MB + IB + TB) or thorough:
            triples.append((MB, IB, TB))
    triples = sorted(set(map(lambda t: (tuple(t[0]), tuple(t[1]), tuple(t[2])), triples)))
    if not triples:
        ck.vacuous("no batch-shape triples generated")
    cfgs = []
    for (MB, IB, TB) in triples:
        meaning = TB if len(TB) > len(MB) else MB
        liks = ["homo", "fixed", "fixed+learned", "mtask"] if (len(MB) == 0) else ["homo", "fixed"]
        for lik in liks:
            for fpv, detach in itertools.product((False, True), (True, False)):
                for depth in ((1, 2, 3) if (thorough or (len(MB) + len(TB) <= 1 and lik == "homo")) else (1, 2)):
                    if not thorough and (fpv, detach) == (True, False) and lik != "homo":
                        continue
                    cfgs.append(dict(kind="exact", lik=lik, MB=list(MB), IB=list(IB), TB=list(TB), meaning=list(meaning), fpv=fpv, detach=detach,
                                     depth=depth, grad=True, seed=ck.seed * 1000 + len(cfgs)))
        for fpv in (False, True):                     # call-time keywords handed through get_fantasy_model(X, y, **kw)
            cfgs.append(dict(kind="kw", lik="homo", callkw=dict(warp=1.6), MB=list(MB), IB=list(IB), TB=list(TB), meaning=list(meaning), fpv=fpv, detach=True,
                             depth=2, grad=True, seed=ck.seed * 1000 + len(cfgs)))
        if len(MB) == 0 and len(TB) <= 1:
            for grad in (True, False):
                cfgs.append(dict(kind="kiss", lik="homo", MB=list(MB), IB=list(IB), TB=list(TB), meaning=list(meaning), fpv=False, detach=True,
                                 depth=1, grad=grad, seed=ck.seed * 1000 + len(cfgs)))
            for knd in ("kiss", "exact"):            # input-dependent prior mean
                for fpv in (False, True):
                    cfgs.append(dict(kind=knd, lik="homo", mean="linear", MB=list(MB), IB=list(IB), TB=list(TB), meaning=list(meaning), fpv=fpv, detach=True,
                                     depth=2, grad=False, seed=ck.seed * 1000 + len(cfgs)))
    # histories of the family-tree machine (creations and evaluations interleaved), maximal ones
    hists = set()
    for st in rs[2].states():
        o = st["out"]
        if len(o) == 5 or (len(o) >= 3 and len(st["c"]["models"]) == 4):
            hists.add(tuple((str(e["a"]), int(e["of"])) for e in o))
    hists = sorted(h for h in hists if any(a == "GetFantasy" for a, _ in h))
    if not hists:
        ck.vacuous("no family-tree histories generated")
    ck.section("tree", histories=len(hists))
    combos = [("kiss", "homo", "const"), ("kiss", "homo", "linear"), ("exact", "homo", "linear"), ("exact", "fixed+learned", "const")]
    for j, h in enumerate(hists):
        for q, (knd, lk, mn) in enumerate(combos):
            refit = any(a == "Refit" for a, _ in h)            # re-fit histories: only the homoskedastic-noise combos differ from the others
            if thorough or (j + q) % (16 if refit else 4) == 0:
                cfgs.append(dict(tree=True, kind=knd, lik=lk, mean=mn, fpv=bool((j + q) % 2), ops=[dict(a=a, of=k) for a, k in h], seed=ck.seed * 1000 + len(cfgs)))
    lists = [dict(members=[str(x) for x in st["c"]["members"]], noise=[str(x) for x in st["c"]["noise"]]) for st in rs[3].states()]
    if not lists:
        ck.vacuous("no model-list cases generated")
    for q in sorted(lists, key=repr):
        for fpv, detach in itertools.product((False, True), (True, False)):
            for depth in ((1, 2) if thorough or fpv else (1,)):
                cfgs.append(dict(kind="modellist", members=q["members"], noise=q["noise"], fpv=fpv, detach=detach, depth=depth, seed=ck.seed * 1000 + len(cfgs)))
    ck.section("modellist", cases=len(lists))
    items = [dict(cfgs=cfgs[i:i + 6]) for i in range(0, len(cfgs), 6)]
    results = core.pmap(_worker, items, chunksize=1)
    ck.absorb(results)
    ck.section("replay", triples=len(triples), configurations=len(cfgs))


def replay(rep):
    torch = core.setup_torch()
    import gpytorch
    from gpytorch import settings
    if rep["case"].get("kind") == "modellist":
        r = run_list_config(torch, gpytorch, settings, rep["case"])
    elif rep["case"].get("tree"):
        r = run_tree_config(torch, gpytorch, settings, rep["case"])
    else:
        r = run_config(torch, gpytorch, settings, None, rep["case"])
    if not r["ok"]:
        print("VIOLATION property=C04 replay=- :: %s :: %s" % (r["sig"], r["detail"]))
        return 1
    print("replay passed")
    return 0
