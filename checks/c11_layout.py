"""C11, layout part: mean / variance / log_prob / rsample / to_data_independent_dist / from_* constructors all refer to
the same joint distribution.  Spec: MTLayout.tla (permutation algebra, checked by TLC for every n, t, layout); replay:
the real distribution with a labelled mean and a seeded SPD covariance against a flat reference Gaussian whose
coordinate order is the spec's VarAt."""
import itertools
import math
import os

from harness import core, tlc

PID = "C11"


def write_mc(workdir, variant, maxn, maxt):
    os.makedirs(workdir, exist_ok=True)
    mod = "MC_MTLayout_" + variant
    with open(os.path.join(workdir, mod + ".tla"), "w") as f:
        f.write("---- MODULE %s ----\nEXTENDS MTLayout\n====\n" % mod)
    cfg = os.path.join(workdir, mod + ".cfg")
    tlc.write_cfg(cfg, spec="Spec", constants={"MaxN": maxn, "MaxT": maxt, "Variant": variant},
                  invariants=["MeanRefersToPairs", "LogProbRefersToPairs", "RsampleRoundTrip", "DataIndepRefersToPairs"])
    return os.path.join(workdir, mod + ".tla"), cfg


def var_order(n, t, inter):
    """spec's VarAt: (i, a) of the variable stored at flat position k"""
    return [(k // t, k % t) if inter else (k % n, k // n) for k in range(n * t)]


def ref_logpdf(torch, y, m, C):
    L = torch.linalg.cholesky(C)
    z = torch.linalg.solve_triangular(L, (y - m).unsqueeze(-1), upper=False).squeeze(-1)
    return -0.5 * (z * z).sum(-1) - torch.log(torch.diagonal(L, dim1=-1, dim2=-2)).sum(-1) - 0.5 * m.shape[-1] * math.log(2 * math.pi)


def _layout_worker(item):
    torch = core.setup_torch()
    from gpytorch.distributions import MultitaskMultivariateNormal, MultivariateNormal
    import gpytorch
    n, t, batch, inter, seed = item["n"], item["t"], tuple(item["batch"]), item["inter"], item["seed"]
    gen = torch.Generator().manual_seed(seed)
    nt = n * t
    out = []
    lay = "interleaved" if inter else "non-interleaved"
    desc = "n=%d t=%d batch=%s %s" % (n, t, list(batch), lay)

    def res(op, ok, detail=""):
        r = dict(key=[op, n, t, list(batch), inter], ok=ok, nontrivial=(n > 1 and t > 1 and n != t) or bool(batch),
                 sig="C11/%s/%s" % (op, lay), detail="%s: %s" % (desc, detail), case=dict(item, op=op))
        if op == "log_prob":
            r["sample"] = dict(case=desc, op=op)
        out.append(r)

    # joint distribution over labelled variables (i,a): mean M[i,a], covariance S[(i,a),(j,c)] (point-major reference)
    A = torch.randn(*batch, nt, nt, generator=gen, dtype=torch.float64)
    S = A @ A.transpose(-1, -2) / nt + torch.eye(nt, dtype=torch.float64)
    M = torch.randn(*batch, n, t, generator=gen, dtype=torch.float64)
    order = var_order(n, t, inter)
    perm = torch.tensor([i * t + a for (i, a) in order])
    C = S[..., perm, :][..., :, perm]  # covariance in the layout's storage order
    ok, d = core.guarded(lambda: MultitaskMultivariateNormal(M, C, interleaved=inter))
    if not ok:
        res("construct", False, d)
        return out
    # mean / variance
    ok, v = core.guarded(lambda: (d.mean, d.variance, d.stddev))
    if not ok:
        res("mean", False, v)
    else:
        good, why = core.close(v[0], M, 0, 0)
        res("mean", good, "mean differs from the one given: " + why)
        var_ref = torch.diagonal(S, dim1=-1, dim2=-2).reshape(*batch, n, t)
        good, why = core.close(v[1], var_ref, 1e-12, 0)
        res("variance", good, "variance[i,a] is not the variance of variable (i,a): " + why)
        good, why = core.close(v[2], var_ref.sqrt(), 1e-12, 0)
        res("stddev", good, why)
    # log_prob against the flat reference Gaussian in point-major order
    for vb in ([()] + ([(2,)] if not batch else [])):
        Y = torch.randn(*vb, *batch, n, t, generator=gen, dtype=torch.float64)
        ok, lp = core.guarded(lambda: d.log_prob(Y))
        ref = ref_logpdf(torch, Y.reshape(*vb, *batch, nt), M.reshape(*batch, nt), S)
        if not ok:
            res("log_prob", False, lp)
        else:
            good, why = core.close(lp, ref, 1e-9, 1e-9)
            res("log_prob", good, "log_prob(value) is not the density of the joint over (point, task) pairs: got %s want %s %s" % (
                lp.reshape(-1)[:2].tolist(), ref.reshape(-1)[:2].tolist(), why))
    # rsample with unit base samples: columns of a root R with R R^T = S (in pair labelling)
    E = torch.eye(nt, dtype=torch.float64).reshape(nt, *([1] * len(batch)), n, t).expand(nt, *batch, n, t)
    ok, smp = core.guarded(lambda: d.rsample(base_samples=E))
    if not ok:
        res("rsample", False, smp)
    else:
        R = (smp - M).reshape(nt, *batch, nt)            # R[k, ..., (i,a)]: response of variable (i,a) to base sample k
        R = R.movedim(0, -1)                              # (..., pair, k)
        good, why = core.close(R @ R.transpose(-1, -2), S, 1e-9, 1e-9)
        res("rsample", good, "rsample(base_samples=e) - mean = R e with R R^T != covariance of the pairs: " + why)
    ok, bs = core.guarded(lambda: d.get_base_samples(torch.Size([3])))
    if ok:
        res("get_base_samples", list(bs.shape) == [3, *batch, n, t], "shape %s" % (list(bs.shape),))
        ok2, s2 = core.guarded(lambda: d.rsample(torch.Size([3]), base_samples=bs))
        res("rsample_base_shape", ok2 and list(s2.shape) == [3, *batch, n, t], str(s2 if not ok2 else list(s2.shape)))
    else:
        res("get_base_samples", False, bs)
    ok, s3 = core.guarded(lambda: d.rsample(torch.Size([2])))
    res("rsample_shape", ok and list(s3.shape) == [2, *batch, n, t], str(s3 if not ok else list(s3.shape)))
    # to_data_independent_dist: per data point the t x t task covariance (+ jitter)
    ok, di = core.guarded(lambda: d.to_data_independent_dist(jitter_val=1e-4))
    if not ok:
        res("to_data_independent_dist", False, di)
    else:
        S4 = S.reshape(*batch, n, t, n, t)
        idx = torch.arange(n)
        blocks = S4[..., idx, :, idx, :]                 # advanced indexing puts the point dimension first
        if batch:
            blocks = blocks.movedim(0, len(batch))
        want = blocks + 1e-4 * torch.eye(t, dtype=torch.float64)
        good, why = core.close(di.covariance_matrix, want, 1e-10, 1e-12)
        g2, w2 = core.close(di.mean, M, 0, 0)
        res("to_data_independent_dist", good and g2, "task covariance of each data point differs: %s %s" % (why, w2))
    # expand
    ok, ex = core.guarded(lambda: d.expand(torch.Size([2]) + torch.Size(batch)))
    if ok:
        g1, w1 = core.close(ex.mean, M.expand(2, *batch, n, t), 0, 0)
        g2, w2 = core.close(ex.covariance_matrix, C.expand(2, *batch, nt, nt), 1e-12, 0)
        res("expand", g1 and g2 and ex._interleaved == inter, w1 + w2)
    else:
        res("expand", False, ex)
    return out


def _ctor_worker(item):
    """from_batch_mvn(task_dim) / from_independent_mvns / from_repeated_mvn: joint of INDEPENDENT tasks."""
    torch = core.setup_torch()
    from gpytorch.distributions import MultitaskMultivariateNormal, MultivariateNormal
    n, t, extra, task_dim, seed, ctor = item["n"], item["t"], tuple(item["extra"]), item["task_dim"], item["seed"], item["ctor"]
    gen = torch.Generator().manual_seed(seed)
    out = []
    desc = "%s n=%d t=%d other batch=%s task_dim=%s" % (ctor, n, t, list(extra), task_dim)

    def res(ok, detail=""):
        out.append(dict(key=[ctor, n, t, list(extra), task_dim], ok=ok, nontrivial=True, sig="C11/%s/task_dim=%s/batch=%d" % (ctor, task_dim, len(extra)),
                        detail="%s: %s" % (desc, detail), case=dict(item), sample=dict(case=desc) if ctor == "from_batch_mvn" else None))

    # per-task MVNs over n points, batch shape `extra`
    A = torch.randn(t, *extra, n, n, generator=gen, dtype=torch.float64)
    K = A @ A.transpose(-1, -2) / n + torch.eye(n, dtype=torch.float64)      # K[a] : extra x n x n
    m = torch.randn(t, *extra, n, generator=gen, dtype=torch.float64)
    if ctor == "from_batch_mvn":
        nb = len(extra) + 1
        pos = task_dim if task_dim >= 0 else nb + task_dim
        Kb, mb = K.movedim(0, pos), m.movedim(0, pos)
        ok, r = core.guarded(lambda: MultitaskMultivariateNormal.from_batch_mvn(MultivariateNormal(mb, Kb), task_dim=task_dim))
    elif ctor == "from_independent_mvns":
        ok, r = core.guarded(lambda: MultitaskMultivariateNormal.from_independent_mvns([MultivariateNormal(m[a], K[a]) for a in range(t)]))
    else:  # from_repeated_mvn: every task a copy of task 0
        K = K[:1].expand(t, *extra, n, n)
        m = m[:1].expand(t, *extra, n)
        ok, r = core.guarded(lambda: MultitaskMultivariateNormal.from_repeated_mvn(MultivariateNormal(m[0], K[0]), num_tasks=t))
    if not ok:
        res(False, r)
        return out
    want_mean = m.movedim(0, -1)                                              # extra x n x t
    ok, got = core.guarded(lambda: (r.mean, r.covariance_matrix, r._interleaved))
    if not ok:
        res(False, got)
        return out
    good, why = core.close(got[0], want_mean, 0, 0)
    if not good:
        res(False, "mean[..., i, a] is not the mean of task a at point i: " + why)
        return out
    # expected covariance in the result's own storage order
    order = var_order(n, t, got[2])
    want = torch.zeros(*extra, n * t, n * t, dtype=torch.float64)
    for p, (i, a) in enumerate(order):
        for q, (j, c) in enumerate(order):
            if a == c:
                want[..., p, q] = K[a][..., i, j]
    good, why = core.close(got[1], want, 1e-12, 0)
    res(good, "covariance is not that of independent tasks in the result's layout (interleaved=%s): %s" % (got[2], why))
    # and the density factorises over tasks
    if good:
        Y = torch.randn(*extra, n, t, generator=gen, dtype=torch.float64)
        ok, lp = core.guarded(lambda: r.log_prob(Y))
        ref = sum(ref_logpdf(torch, Y[..., a], m[a], K[a]) for a in range(t))
        if not ok:
            res(False, lp)
        else:
            good, why = core.close(lp, ref, 1e-9, 1e-9)
            out.append(dict(key=[ctor, "log_prob", n, t, list(extra), task_dim], ok=good, nontrivial=True,
                            sig="C11/%s/log_prob" % ctor, detail="%s: log_prob is not the sum of the tasks' log densities: %s" % (desc, why), case=dict(item)))
    return out


def _dispatch(item):
    return _ctor_worker(item) if "ctor" in item else _layout_worker(item)


def run(ck):
    thorough = ck.tier == "thorough"
    wd = os.path.join(tlc.BUILD, PID, "layout")
    mod, cfg = write_mc(wd, "fixed", 4 if thorough else 3, 4 if thorough else 3)
    res = tlc.run(mod, cfg, name=PID + "/layout_fixed", workers=2, check=False)
    ck.add_tlc(res, "MTLayout (model of the current code)")
    if res.violation:
        ck.model_drift("MTLayout.tla (model of the current code) violates %s" % res.violation["name"])
    mod, cfg = write_mc(wd, "pinned", 3, 3)
    res = tlc.run(mod, cfg, name=PID + "/layout_pinned", workers=2, check=False)
    ck.add_tlc(res, "MTLayout pinned-variant")
    ck.extra.setdefault("pinned_variant_predictions", {})["layout"] = (res.violation or {}).get("name")
    items = []
    sizes = [(1, 1), (1, 3), (3, 1), (2, 3), (3, 2), (3, 3)] + ([(4, 2), (2, 4), (4, 3)] if thorough else [])
    seeds = range(3 if thorough else 1)
    for (n, t), inter, batch, s in itertools.product(sizes, (True, False), ((), (2,), (2, 3)) if thorough else ((), (2,)), seeds):
        items.append(dict(n=n, t=t, batch=list(batch), inter=inter, seed=ck.seed * 1000 + s))
    for (n, t), s in itertools.product([(2, 3), (3, 2)] + ([(1, 2), (3, 3)] if thorough else []), seeds):
        for extra, tds in (((), (-1, 0)), ((2,), (-1, 0, 1, -2)), ((2, 3), (-1, 0, 1, 2, -3)) if thorough else ((2,), ())):
            for td in tds:
                items.append(dict(ctor="from_batch_mvn", n=n, t=t, extra=list(extra), task_dim=td, seed=ck.seed * 1000 + s))
        for extra in ((), (2,)):
            items.append(dict(ctor="from_independent_mvns", n=n, t=t, extra=list(extra), task_dim=None, seed=ck.seed * 1000 + s))
            items.append(dict(ctor="from_repeated_mvn", n=n, t=t, extra=list(extra), task_dim=None, seed=ck.seed * 1000 + s))
    results = core.pmap(_dispatch, items, chunksize=1)
    for r in results:
        if r.get("sample") is None:
            r.pop("sample", None)
    ck.absorb(results)
    ck.section("layout", configurations=len(items), comparisons=len(results))


def replay(rep):
    res = _dispatch({k: v for k, v in rep["case"].items() if k != "op"})
    bad = [r for r in res if not r["ok"]]
    for r in bad:
        print("VIOLATION property=C11 replay=- :: %s :: %s" % (r["sig"], r["detail"]))
    if not bad:
        print("replay passed")
    return 1 if bad else 0
