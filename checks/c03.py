"""C03 - evaluation-mode outputs are history independent (no stale prediction caches).
Spec: GPCache.tla (code-shaped cache machine + tags), CacheTrace.tla (NoStaleHit over recorded events)."""
import os
import random

from harness import core, tlc

LEVEL = "model_checking"
PID = "C03"

CURRENT = dict(TrainClears={"ps", "kern", "vs"}, LoadClears={"ps", "kern", "vs"}, SetDataClears={"ps"}, KernGuard=True, CholKeyedByJitter=False,
               ShapeGuard=True, LoadClearsOnlyTouched=False, XB={"flat", "b3", "b1"})
# deliberately broken models: TLC must reject each (the invariant is not vacuous)
BROKEN = {
    "train-does-not-clear-strategy": ("exact", dict(TrainClears={"kern", "vs"}), "NoStrategyWhileTraining"),
    "load-does-not-clear-strategy": ("exact", dict(LoadClears={"kern", "vs"}), "NoStaleServe"),
    "set_train_data-keeps-strategy": ("exact", dict(SetDataClears=set()), "NoStaleServe"),
    "load-does-not-clear-kernel-cache": ("sgpr", dict(LoadClears={"ps", "vs"}), "NoStaleServe"),
    "kernel-cache-unguarded-in-training": ("sgpr", dict(KernGuard=False, TrainClears={"ps", "vs"}), "NoStaleServe"),
    "train-does-not-clear-variational-memo": ("svgp", dict(TrainClears={"ps", "kern"}), "NoStaleServe"),
    "cholesky-factor-served-across-test-batch-shapes": ("svgp", dict(ShapeGuard=False), "NoStaleShape"),
    "partial-load-clears-only-modules-that-receive-keys": ("svgp", dict(LoadClearsOnlyTouched=True), "NoStaleServe"),
}


def write_mc(workdir, name, family, consts, maxv, maxlen, record, invariants):
    os.makedirs(workdir, exist_ok=True)
    mod = "MC_GPCache_" + name.replace("-", "_")
    c = dict(CURRENT)
    c.update(consts)

    def setlit(s):
        return "{" + ", ".join('"%s"' % x for x in sorted(s)) + "}"
    with open(os.path.join(workdir, mod + ".tla"), "w") as f:
        f.write("---- MODULE %s ----\nEXTENDS GPCache\nTC == %s\nLC == %s\nSC == %s\nXBDef == %s\n====\n" % (
            mod, setlit(c["TrainClears"]), setlit(c["LoadClears"]), setlit(c["SetDataClears"]), setlit(c["XB"])))
    cfg = os.path.join(workdir, mod + ".cfg")
    tlc.write_cfg(cfg, spec="Spec", constants={"Family": family, "MaxV": maxv, "MaxLen": maxlen, "RecordHist": record, "TrainClears": "<- TC",
                                               "LoadClears": "<- LC", "SetDataClears": "<- SC", "KernGuard": c["KernGuard"],
                                               "CholKeyedByJitter": c["CholKeyedByJitter"], "ShapeGuard": c["ShapeGuard"], "LoadClearsOnlyTouched": c["LoadClearsOnlyTouched"], "XB": "<- XBDef"}, invariants=invariants)
    return os.path.join(workdir, mod + ".tla"), cfg


# ---------------------------------------------------------------------------------------------
# replay of one history on a real model
# ---------------------------------------------------------------------------------------------
def prior_op(a):
    return a == "PriorPredict"


def run_history(family, ops, seed, want_trace=False):
    """Returns (failure or None, steps compared, trace events)."""
    import torch
    import gpytorch
    from gpytorch import settings
    from checks import gpmodels as G
    try:
        from gpytorch import _verif
        if not _verif.ON:
            _verif = None
    except ImportError:
        _verif = None
    rnd = random.Random(seed)
    torch.manual_seed(seed)
    tasks = 2 if family == "mtask" else 0
    x, y, xs = G.data(seed, tasks=tasks)
    model, lik = G.build(family, x, y)
    model.eval()
    lik.eval()
    if _verif is not None:
        del _verif.events[:]
        _verif.emit("new_model", owner=_verif.oid(model), family=family)
    pending = []
    fantasy_raised = []
    fantasies = []          # (step, pv/dv recorded by the spec, fantasy model, reference built at its creation)
    compared = 0
    alt_states = [G.perturbed_state(model, lik, seed + 7 + k) for k in range(3)]
    n_load = 0
    n_data = 0
    opt = torch.optim.SGD(list(model.parameters()) + ([] if family in G.EXACT_FAMILIES else list(lik.parameters())), lr=0.05)

    def ctx(s, extra):
        cms = [settings.fast_pred_var(s["fpv"]), settings.detach_test_caches(s["detach"])]
        if s.get("jit") == "big":
            cms.append(settings.variational_cholesky_jitter(double_value=1e-2))
        cms += [settings.lazily_evaluate_kernels(extra["lazy"]), settings.max_eager_kernel_size(extra["eager"]),
                settings.skip_posterior_variances(extra["skipvar"])]
        return cms

    g2 = torch.Generator().manual_seed(seed + 5)
    xs_by = {"flat": xs, "b3": torch.cat([xs.unsqueeze(0), torch.rand(2, *xs.shape, generator=g2, dtype=xs.dtype) * 2 - 1], 0), "b1": xs.flip(0).unsqueeze(0)}

    def predict(mdl, s, extra, prior=False):
        from contextlib import ExitStack
        with ExitStack() as st:
            for cm in ctx(s, extra):
                st.enter_context(cm)
            if prior:
                st.enter_context(settings.prior_mode(True))
            out = mdl(xs_by[extra.get("xb", "flat")])
            mean, cov = G.dist_tensors(out, extra["skipvar"])
        return out, mean, cov

    for i, op in enumerate(ops):
        a = op["a"]
        if _verif is not None:
            _verif.emit("op", name=a, step=i)
        try:
            if a in ("Train", "OptStep", "SetTrainData", "LoadStateDict"):
                del pending[:]   # graphs of earlier predictions are invalid after an in-place parameter / strategy change
            if a == "Train":
                model.train()
                lik.train()
            elif a == "Eval":
                model.eval()
                lik.eval()
            elif a == "OptStep":
                opt.zero_grad()
                mll = G.objective(model, lik, family, x.shape[0])
                tx = model.train_inputs[0] if family in G.EXACT_FAMILIES else x
                ty = model.train_targets if family in G.EXACT_FAMILIES else y
                out = model(tx)
                loss = -mll(out, ty)
                if loss.dim() > 0:
                    loss = loss.sum()
                loss.backward()
                opt.step()
                if _verif is not None:
                    _verif.emit("params_changed", step=i)
            elif a in ("Predict", "PriorPredict"):
                s = dict(fpv=op.get("fpv", False), detach=op.get("detach", True), jit=op.get("jit", "d0"))
                # skip_posterior_variances selects its own code path (and its own hidden state): every fifth history uses it for ALL its
                # predictions, the others occasionally
                extra = dict(lazy=bool(op.get("lazy", True)), eager=rnd.choice([512, 1]), skipvar=(seed % 5 == 0 or rnd.random() < 0.1))
                extra["xb"] = op.get("xb", "flat") if not prior_op(a) else "flat"
                if family == "mtask":
                    extra["eager"] = 512
                    extra["xb"] = "flat"
                flags = dict(stale_jit=bool(op.get("stalejit")), stale_cls=bool(op.get("stalecls")), stale_xb=bool(op.get("stalexb")))
                prior = a == "PriorPredict"
                lok, lres = core.guarded(lambda: predict(model, s, extra, prior=prior))
                # oracle: a freshly constructed model with the same parameters and data, same settings
                if _verif is not None:
                    _verif.emit("oracle_begin")
                fm, fl = G.clone_fresh(model, lik, family, model.train_inputs[0] if family in G.EXACT_FAMILIES else x,
                                       model.train_targets if family in G.EXACT_FAMILIES else y)
                fok, fres = core.guarded(lambda: predict(fm, s, extra, prior=prior))
                if _verif is not None:
                    _verif.emit("oracle_end")
                compared += 1
                evs = (list(_verif.events) if _verif else [])
                if lok != fok:
                    return dict(step=i, what="raises" if not lok else "does-not-raise", why="live model: %s; fresh model: %s" % (
                        "ok" if lok else lres, "ok" if fok else fres), settings=dict(s, **extra), **flags), compared, evs
                if not lok:
                    continue  # both raise: the same (unsupported) request on either model
                out, mean, cov = lres
                _, fmean, fcov = fres
                if not s["detach"] and a == "Predict":
                    pending.append(out)
                ok, why = core.close(mean, fmean, 1e-8, 1e-10)
                what = "mean"
                if ok and cov is not None:
                    ok, why = core.close(cov, fcov, 1e-8, 1e-10)
                    what = "covariance"
                if not ok:
                    return dict(step=i, what=what, why=why, settings=dict(s, **extra), **flags), compared, evs
            elif a == "SetTrainData":
                n_data += 1
                nx, ny, _ = G.data(seed + 100 * n_data, tasks=tasks)
                which = op.get("which", "both")
                if which == "targets":
                    model.set_train_data(targets=ny, strict=False)
                elif which == "inputs":
                    model.set_train_data(inputs=nx, strict=False)
                else:
                    model.set_train_data(nx, ny, strict=False)
                if _verif is not None:
                    _verif.emit("data_changed", step=i)
            elif a == "LoadStateDict":
                part = op.get("part", "full")
                sd = {k: v.clone() for k, v in alt_states[n_load % 3].items()}
                if part == "lik":
                    sd = {k: v for k, v in sd.items() if k.startswith("likelihood.")}
                elif part == "hyper":
                    # kernel and mean entries; the whitened strategy's version flag goes along (a dictionary without them is, by design,
                    # read as a checkpoint of an old version and converted)
                    sd = {k: v for k, v in sd.items() if k.startswith(("covar_module.", "mean_module."))
                          or k == "variational_strategy.updated_strategy"}
                if not sd:
                    raise core.Machinery("empty partial state dict (%s, %s)" % (family, part))
                model.load_state_dict(sd, strict=(part == "full"))
                n_load += 1
                if _verif is not None:
                    _verif.emit("params_changed", step=i)
            elif a == "GetFantasy":
                g = torch.Generator().manual_seed(seed + i)
                xf = torch.rand(2, 1, generator=g, dtype=torch.float64) * 2 - 1
                yf = torch.randn(2, 2, generator=g, dtype=torch.float64) if tasks else torch.randn(2, generator=g, dtype=torch.float64)
                fok, fres = core.guarded(lambda: model.get_fantasy_model(xf, yf))
                if not fok:
                    fantasy_raised.append(fres)      # whether fantasies are supported here is C04's question; the source must stay usable
                elif family == "exact":
                    # what the new model denotes is fixed now: the source's current parameters and data plus (xf, yf)
                    ref, _ = G.clone_fresh(model, lik, family, torch.cat([model.train_inputs[0], xf], -2), torch.cat([model.train_targets, yf], -1))
                    fantasies.append((i, fres, ref))
            elif a == "Backward":
                if pending:
                    out = pending[-1]
                    del pending[:]
                    tot = out.mean.sum()
                    if out.covariance_matrix.requires_grad:
                        tot = tot + out.variance.sum()
                    if tot.requires_grad:
                        tot.backward(retain_graph=True)
                    model.zero_grad(set_to_none=True)
            else:
                raise core.Machinery("unknown action %r" % a)
            if i == len(ops) - 1:
                # closing observation: every fantasy model created on the way is an object of its own - whatever was done to its
                # source afterwards, it equals the model built from the source's state at its creation (first evaluation: caches it has
                # not filled yet must not be filled from the source's later state)
                for (fi, fmodel, ref) in fantasies:
                    s0 = dict(fpv=False, detach=True, jit="d0")
                    e0 = dict(lazy=True, eager=512, skipvar=False, xb="flat")
                    lok, lres = core.guarded(lambda: predict(fmodel, s0, e0))
                    fok, fres = core.guarded(lambda: predict(ref, s0, e0))
                    compared += 1
                    evs = (list(_verif.events) if _verif else [])
                    later = "+".join(o["a"] for o in ops[fi + 1:]) or "nothing"
                    if not fok:
                        raise core.Machinery("reference of a fantasy model raised: %s" % fres)
                    if not lok:
                        return dict(step=fi, what="fantasy-raises-later", why="fantasy model of step %d, observed after %s: %s" % (fi, later, lres),
                                    settings={}, stale_jit=False, stale_cls=False, fantasy=True), compared, evs
                    for nm, u, v in (("mean", lres[1], fres[1]), ("covariance", lres[2], fres[2])):
                        ok, why = core.close(u, v, 1e-7, 1e-9)
                        if not ok:
                            return dict(step=fi, what="fantasy-follows-its-source/" + nm, why="fantasy model of step %d, observed after %s: %s" % (fi, later, why),
                                        settings={}, stale_jit=False, stale_cls=False, fantasy=True), compared, evs
        except core.Machinery:
            raise
        except Exception as e:  # the implementation raised where the spec enables the operation
            import traceback
            tb = traceback.extract_tb(e.__traceback__)
            inner = [f for f in tb if "/gpytorch/" in f.filename or "linear_operator" in f.filename]
            where = "%s:%d" % (os.path.basename(inner[-1].filename), inner[-1].lineno) if inner else "harness"
            if not inner:
                raise core.Machinery("driver error in %s at step %d (%s): %r" % (family, i, a, e))
            return dict(step=i, what="raised", why="%s: %s at %s" % (type(e).__name__, str(e)[:200], where), settings={}, stale_jit=False, stale_cls=False), compared, (list(_verif.events) if _verif else [])
    return None, compared, (list(_verif.events) if (_verif and want_trace) else [])


def signature(family, ops, fail):
    """cell = family + the state-changing operations since the previous prediction + what differs"""
    i = fail["step"]
    if fail.get("stale_jit") and fail["what"] in ("mean", "covariance"):
        return "C03/%s/cholesky_factor-not-keyed-by-variational_cholesky_jitter" % family
    if fail.get("stale_cls") and fail["what"] in ("mean", "covariance", "raises", "does-not-raise"):
        return "C03/%s/strategy-class-fixed-at-creation-by-lazily_evaluate_kernels" % family
    if fail.get("stale_xb") and fail["what"] in ("mean", "covariance") and family == "kiss":
        return "C03/kiss/fast_pred_var-covar_cache-keeps-the-test-batch-shape-of-the-call-that-filled-it"
    if fail.get("fantasy"):
        return "C03/%s/GetFantasy-then:%s/%s" % (family, "+".join(sorted(set(o["a"] for o in ops[i + 1:]))) or "nothing", fail["what"])
    since = []
    for op in ops[:i][::-1]:
        if op["a"] in ("Predict", "PriorPredict"):
            break
        since.append(op["a"])
    return "C03/%s/after:%s/%s:%s" % (family, "+".join(since[::-1]) or "predict", ops[i]["a"], fail["what"])


def _worker(item):
    core.setup_torch()
    out = []
    for h in item["hists"]:
        ops = h["ops"]
        fail, compared, trace = run_history(item["family"], ops, h["seed"], want_trace=h.get("trace", False))
        names = [o["a"] + ("(fpv)" if o.get("fpv") else "") + ("(attached)" if o.get("detach") is False else "") + ("(jit)" if o.get("jit") == "big" else "")
                 + ("(eager-kernels)" if o.get("lazy") is False else "") + ("(x:%s)" % o["xb"] if o.get("xb", "flat") != "flat" else "") + ("(%s-only)" % o["part"] if o.get("part", "full") != "full" else "") + ("(%s)" % o["which"] if o.get("which") in ("targets", "inputs") else "") for o in ops]
        preds = [k for k, o in enumerate(ops) if o["a"] in ("Predict", "PriorPredict")]
        nontrivial = len(preds) >= 2 and any(o["a"] not in ("Predict", "PriorPredict", "Eval") for o in ops[preds[0]:preds[-1]])
        r = dict(key=[item["family"], names], ok=fail is None, nontrivial=nontrivial, n=max(compared, 1))
        if fail is not None:
            r.update(sig=signature(item["family"], ops, fail),
                     detail="%s history %s: step %d (%s) %s differs from a freshly constructed model: %s settings=%s" % (
                         item["family"], " ; ".join(names), fail["step"], ops[fail["step"]]["a"], fail["what"], fail["why"], fail["settings"]),
                     case=dict(family=item["family"], ops=ops, seed=h["seed"]))
        if trace:
            r["trace"] = trace
        if len(out) == 0:
            r["sample"] = dict(family=item["family"], history=names)
        out.append(r)
    return out


def histories_from_states(states, maxlen):
    out = []
    for st in states:
        h = st["hist"]
        if len(h) != maxlen:
            continue
        ops = []
        for e in h:
            o = {k: (str(v) if not isinstance(v, (bool, int)) else v) for k, v in e.items()}
            ops.append(o)
        out.append(ops)
    return out


def finish_history(ops, has_kern=False):
    """close every history with an observation: eval mode + a default prediction"""
    ops = [dict(o) for o in ops]
    mode = "eval"
    for o in ops:
        if o["a"] == "Train":
            mode = "train"
        elif o["a"] == "Eval":
            o["_was_train"] = mode == "train"
            mode = "eval"
    appended_eval = False
    if mode == "train":
        ops.append(dict(a="Eval", _was_train=True))
        appended_eval = True
    if ops[-1]["a"] != "Predict":
        last = ops[-1]
        ops.append(dict(a="Predict", fpv=False, detach=True, jit="d0", lazy=True,
                        stalejit=(not appended_eval and last.get("choljit") == "big"),
                        stalecls=(not appended_eval and has_kern and last.get("pslazy") == "F")))
    return ops


def run(ck):
    thorough = ck.tier == "thorough"
    core.setup_torch()
    from checks import gpmodels as G
    ck.rule = ("histories = all sequences of GPCache.tla actions (Train, Eval, OptStep, Predict(fast_pred_var, detach_test_caches[, jitter]), "
               "PriorPredict, SetTrainData, LoadStateDict, GetFantasy, Backward) up to the length bound from a fresh eval-mode model, plus seeded "
               "longer simulations, each closed by a default prediction; every prediction is compared with a freshly constructed model holding the "
               "same parameters and data under the same settings; non-trivial = a state-changing operation between two predictions")
    ck.assumptions = ["parameters change only through optimizer steps in training mode or load_state_dict (the property's exclusion)",
                      "settings that select approximations (low-rank roots, loose CG tolerance) are not part of the alphabet: a cache computed "
                      "under an approximation is not comparable with a fresh exact computation",
                      "float64, 6 training points, 3 test points, well-conditioned (noise 0.2)"]
    wd = os.path.join(tlc.BUILD, PID)
    fams_spec = ["exact", "sgpr", "kiss", "svgp"]
    # (1) exhaustive check of the cache machine for the current code, per family; broken variants must be rejected
    jobs, meta = [], []
    for f in fams_spec:
        mod, cfg = write_mc(os.path.join(wd, "mc"), "cur_" + f, f, {}, 4 if thorough else 3, 0, False,
                            ["TypeOK", "NoStaleServe", "NoStrategyWhileTraining"] + (["NoStaleShape"] if f != "kiss" else []))   # kiss: known finding, see predxb
        jobs.append(((mod, cfg), dict(name=PID + "/mc_" + f, workers=4, check=False)))
        meta.append(("cur", f, None))
    mod, cfg = write_mc(os.path.join(wd, "mc"), "xb_kiss", "kiss", {}, 2, 0, False, ["NoStaleShape"])
    jobs.append(((mod, cfg), dict(name=PID + "/mc_xb_kiss", workers=2, check=False)))
    meta.append(("predxb", "kiss", "NoStaleShape"))
    mod, cfg = write_mc(os.path.join(wd, "mc"), "jit_svgp", "svgp", {}, 2, 0, False, ["NoStaleSettings"])
    jobs.append(((mod, cfg), dict(name=PID + "/mc_jit", workers=2, check=False)))
    meta.append(("pred", "svgp", "NoStaleSettings"))
    for name, (f, consts, inv) in BROKEN.items():
        mod, cfg = write_mc(os.path.join(wd, "mc"), "broken_" + name, f, consts, 2, 0, False, ["NoStaleServe", "NoStrategyWhileTraining", "NoStaleShape"])
        jobs.append(((mod, cfg), dict(name=PID + "/broken_" + name, workers=2, check=False)))
        meta.append(("broken", name, inv))
    # (2) generation
    Lmax = 4 if thorough else 3
    Lof = {f: (Lmax if f in ("exact", "svgp") else 3) for f in fams_spec}       # kernel-cache families: length 3 + simulations
    for f in fams_spec:
        L = Lof[f]
        mod, cfg = write_mc(os.path.join(wd, "gen"), "gen_" + f, f, dict(XB={"flat"} if f != "svgp" else {"flat", "b3", "b1"}), 3, L, True, [])
        jobs.append(((mod, cfg), dict(name=PID + "/gen_" + f, workers=4, check=False, dump=True, coverage=False)))
        meta.append(("gen", f, None))
        if f != "svgp":       # every test batch shape, one step shorter (the state space of histories grows with the alphabet)
            mod, cfg = write_mc(os.path.join(wd, "gen"), "genxb_" + f, f, {}, 3, L - 1, True, [])
            jobs.append(((mod, cfg), dict(name=PID + "/genxb_" + f, workers=4, check=False, dump=True, coverage=False)))
            meta.append(("genxb", f, None))
        mod, cfg = write_mc(os.path.join(wd, "gen"), "sim_" + f, f, {}, 4, 9, True, [])
        jobs.append(((mod, cfg), dict(name=PID + "/sim_" + f, workers=1, check=False, simulate=dict(num=(400 if thorough else 60)), depth=10, seed=ck.seed + 1)))
        meta.append(("sim", f, None))
    results = tlc.run_many(jobs, parallel=5)
    hists = {f: [] for f in fams_spec}
    rejected = {}
    for (kind, name, inv), res in zip(meta, results):
        ck.add_tlc(res, "%s %s" % (kind, name))
        if kind == "cur":
            if res.violation:
                ck.model_drift("GPCache.tla (model of the current code, family %s) violates %s" % (name, res.violation["name"]))
            elif res.rc != 0:
                raise tlc.TLCError("TLC failed on GPCache %s:\n%s" % (name, res.stdout[-1500:]))
            ck.require_coverage(res, ["Train", "Eval", "OptStep", "Next", "LoadStateDict"])
        elif kind == "predxb":
            ck.extra["model_prediction_kiss_test_batch_shape"] = (res.violation or {}).get("name")
        elif kind == "pred":
            ck.extra["model_prediction_jitter"] = (res.violation or {}).get("name")
        elif kind == "broken":
            rejected[name] = (res.violation or {}).get("name")
            if not res.violation:
                ck.vacuous("broken cache model %s is accepted by TLC (invariants vacuous)" % name)
        elif kind == "gen":
            if res.rc != 0 and not res.violation:
                raise tlc.TLCError("generation failed for %s:\n%s" % (name, res.stdout[-1500:]))
            hists[name] += histories_from_states(res.states(), Lof[name])
        elif kind == "genxb":
            if res.rc != 0 and not res.violation:
                raise tlc.TLCError("generation failed for %s:\n%s" % (name, res.stdout[-1500:]))
            hists[name] += [h for h in histories_from_states(res.states(), Lof[name] - 1) if any(o.get("xb", "flat") != "flat" for o in h)]
        elif kind == "sim":
            for beh in res.behaviours():
                if beh:
                    h = beh[-1][1]["hist"]
                    hists[name].append([{k: (str(v) if not isinstance(v, (bool, int)) else v) for k, v in e.items()} for e in h])
    ck.extra["broken_models_rejected"] = rejected
    # (3) replay on the real families
    real = {"exact": ["exact"] + (["mtask"] if thorough else []), "sgpr": ["sgpr"], "kiss": ["kiss"], "svgp": ["svgp", "usvgp"] + (["svgpmf"] if thorough else [])}
    if not thorough:
        real["exact"].append("mtask")
    rnd = random.Random(ck.seed)
    items = []
    for f in fams_spec:
        hs = hists[f]
        ck.section("gen_" + f, histories=len(hs))
        if not hs:
            ck.vacuous("no histories generated for family %s" % f)
        for rf in real[f]:
            sel = hs
            if rf == "mtask" and not thorough:
                sel = [h for k, h in enumerate(hs) if k % 6 == 0]
            if rf in ("sgpr", "kiss") and not thorough:
                # quick tier: every history that uses a non-default test batch shape or a partial load, a third of the others
                rare = lambda h: any(o.get("xb", "flat") != "flat" or o.get("part", "full") != "full" for o in h)
                sel = [h for k, h in enumerate(hs) if rare(h) or k % 3 == 0]
            chunk = []
            for k, h in enumerate(sel):
                chunk.append(dict(ops=finish_history(h, f in ("sgpr", "kiss")), seed=ck.seed * 7919 + k, trace=(k % 5 == 0)))
                if len(chunk) == 12:
                    items.append(dict(family=rf, hists=chunk))
                    chunk = []
            if chunk:
                items.append(dict(family=rf, hists=chunk))
    rnd.shuffle(items)
    results = core.pmap(_worker, items, chunksize=1)
    traces = [r.pop("trace") for r in results if "trace" in r]
    ck.absorb(results)
    ck.section("replay", histories=len(results))
    from checks import c03_trace
    c03_trace.validate(ck, traces)
    # further object families with state between calls (GPCacheExt.tla)
    from checks import c03_ext
    c03_ext.run_ext(ck)


def replay(rep):
    core.setup_torch()
    case = rep["case"]
    if case.get("ext"):
        from checks import c03_ext
        return c03_ext.replay_ext(rep)
    fail, compared, _ = run_history(case["family"], case["ops"], case["seed"])
    if fail:
        print("VIOLATION property=C03 replay=- :: %s :: %s" % (signature(case["family"], case["ops"], fail), fail))
        return 1
    print("replay passed (%d predictions compared)" % compared)
    return 0
