"""Model families of the C03 extension (GPCacheExt.tla): builders, fresh-model oracles, observations.

Every family is wrapped in a `Live` object: `.model`, `.lik`, the current training data and everything a fresh
construction needs.  `fresh(live)` constructs a NEW object of the same architecture from the constructor arguments
implied by the live object's current state (data, state_dict, and - where the constructor takes them - the inducing
locations / grid held by the live object) and loads the live state_dict into it."""
import torch

import gpytorch
from gpytorch.distributions import MultivariateNormal

from checks import gpmodels as G

D = torch.float64

FAMILIES = ("mlist", "hetero", "nnvs", "lmc", "imt", "deepgp", "gridi", "gridk", "rff", "sm")
EXACT_LIKE = ("mlist", "hetero", "gridi", "gridk", "rff", "sm")     # training data live inside the model
VAR_LIKE = ("nnvs", "lmc", "imt", "deepgp")


def _hyper(model, lik=None, ls=0.7, os_=1.3, noise=0.2):
    with torch.no_grad():
        if lik is not None and hasattr(lik, "noise"):
            lik.noise = noise
        for _, mod in model.named_modules():
            if isinstance(mod, (gpytorch.kernels.RBFKernel, gpytorch.kernels.RFFKernel)):
                mod.lengthscale = ls
            if isinstance(mod, gpytorch.kernels.ScaleKernel):
                mod.outputscale = os_


# ----------------------------------------------------------------------------------------------------------------
# exact-GP shaped families
# ----------------------------------------------------------------------------------------------------------------
class _Exact(gpytorch.models.ExactGP):
    def __init__(self, x, y, lik, covar):
        super().__init__(x, y, lik)
        self.mean_module = gpytorch.means.ConstantMean()
        self.covar_module = covar

    def forward(self, x):
        return MultivariateNormal(self.mean_module(x), self.covar_module(x))


def _noise_targets(seed, n):
    g = torch.Generator().manual_seed(seed + 5)
    return 0.3 + 0.1 * torch.rand(n, generator=g, dtype=D)


def grid_points(lo=-1.0, hi=1.0, n=7):
    return torch.linspace(lo, hi, n, dtype=D).unsqueeze(-1)


class Live:
    """a model under test + what is needed to construct its fresh twin"""

    def __init__(self, family, seed, x, y, xs, ctor=None):
        self.family, self.seed = family, seed
        self.xs = xs
        self.ctor = dict(ctor or {})
        self.model, self.lik = _construct(family, seed, x, y, self.ctor)
        self.x, self.y = x, y          # variational families: the training set (the model does not hold it)

    # -- the data the model currently holds -------------------------------------------------------------------
    def data(self):
        f = self.family
        if f == "mlist":
            return [(m.train_inputs[0], m.train_targets) for m in self.model.models]
        if f == "hetero":
            nm = self.lik.noise_covar.noise_model
            return [(self.model.train_inputs[0], self.model.train_targets), (nm.train_inputs[0], nm.train_targets)]
        if f in EXACT_LIKE:
            return [(self.model.train_inputs[0], self.model.train_targets)]
        return [(self.x, self.y)]

    def modules(self):
        return [self.model] if self.family == "mlist" else [self.model, self.lik]

    def train(self, mode=True):
        for m in self.modules():
            m.train(mode)

    def params(self):
        seen, out = set(), []
        for m in self.modules():
            for p in m.parameters():
                if id(p) not in seen:
                    seen.add(id(p))
                    out.append(p)
        return out

    def state(self):
        """state_dict of everything (for the exact-GP shaped families the likelihood is a sub-module of the model)"""
        sd = {"model." + k: v.detach().clone() for k, v in self.model.state_dict().items()}
        if self.family in VAR_LIKE:
            sd.update({"lik." + k: v.detach().clone() for k, v in self.lik.state_dict().items()})
        return sd

    def load(self, sd):
        self.model.load_state_dict({k[6:]: v.clone() for k, v in sd.items() if k.startswith("model.")})
        if self.family in VAR_LIKE:
            self.lik.load_state_dict({k[4:]: v.clone() for k, v in sd.items() if k.startswith("lik.")})


def _construct(family, seed, x, y, ctor):
    """one freshly constructed model of the family (float64, deterministic non-default hyper-parameters)"""
    if family == "mlist":
        members = []
        for k, (xk, yk) in enumerate(zip(x, y)):
            m, _ = G.build("exact", xk, yk)
            if k == 1:
                with torch.no_grad():
                    m.covar_module.base_kernel.lengthscale = 0.5
            members.append(m)
        ml = gpytorch.models.IndependentModelList(*members)
        return ml, ml.likelihood
    if family == "hetero":
        from gpytorch.likelihoods.gaussian_likelihood import _GaussianLikelihoodBase
        from gpytorch.likelihoods.noise_models import HeteroskedasticNoise
        (xo, xn), (yo, yn) = x, y
        nm, nl = G.build("exact", xn, yn)
        with torch.no_grad():
            nl.noise = 0.05
        lik = _GaussianLikelihoodBase(HeteroskedasticNoise(nm))
        model = _Exact(xo, yo, lik, gpytorch.kernels.ScaleKernel(gpytorch.kernels.RBFKernel())).to(D)
        with torch.no_grad():
            model.covar_module.base_kernel.lengthscale = 0.7
            model.covar_module.outputscale = 1.3
        return model, lik
    if family == "gridi":
        lik = gpytorch.likelihoods.GaussianLikelihood()
        gk = gpytorch.kernels.GridInterpolationKernel(gpytorch.kernels.RBFKernel(), grid_size=16, num_dims=1, grid_bounds=None)
        model = _Exact(x, y, lik, gpytorch.kernels.ScaleKernel(gk)).to(D)
        lik.to(D)
        _hyper(model, lik)
        if ctor.get("grid_bounds") is not None:
            # the live object's grid: bounds are a plain attribute (not in the state_dict), the grid itself is a buffer
            gk.grid_bounds = tuple(tuple(b) for b in ctor["grid_bounds"])
        return model, lik
    if family == "gridk":
        lik = gpytorch.likelihoods.GaussianLikelihood()
        grid = ctor.get("grid")
        if grid is None:
            grid = grid_points()
        gk = gpytorch.kernels.GridKernel(gpytorch.kernels.RBFKernel(), grid=grid.clone())
        model = _Exact(x, y, lik, gk).to(D)
        lik.to(D)
        _hyper(model, lik)
        return model, lik
    if family == "rff":
        lik = gpytorch.likelihoods.GaussianLikelihood()
        g = torch.Generator().manual_seed(seed + 11)
        k = gpytorch.kernels.RFFKernel(num_samples=3, num_dims=1)
        model = _Exact(x, y, lik, gpytorch.kernels.ScaleKernel(k)).to(D)
        lik.to(D)
        k.randn_weights.copy_(torch.randn(k.randn_weights.shape, generator=g, dtype=D))
        _hyper(model, lik)
        return model, lik
    if family == "sm":
        lik = gpytorch.likelihoods.GaussianLikelihood()
        k = gpytorch.kernels.SpectralMixtureKernel(num_mixtures=2, ard_num_dims=1)
        model = _Exact(x, y, lik, k).to(D)
        lik.to(D)
        with torch.no_grad():
            lik.noise = 0.2
            k.mixture_weights = torch.tensor([0.8, 0.5], dtype=D)
            k.mixture_means = torch.tensor([[[0.3]], [[0.9]]], dtype=D)
            k.mixture_scales = torch.tensor([[[0.6]], [[0.4]]], dtype=D)
        return model, lik
    # ---- variational -------------------------------------------------------------------------------------------
    if family == "nnvs":
        z = ctor["z"] if ctor.get("z") is not None else x
        model = NNModel(z.clone()).to(D)            # clone: the strategy registers the caller's tensor itself as its buffer
        lik = gpytorch.likelihoods.GaussianLikelihood().to(D)
        _hyper(model, lik)
        return model, lik
    if family in ("lmc", "imt"):
        model = MTVarModel(family).to(D)
        lik = gpytorch.likelihoods.MultitaskGaussianLikelihood(num_tasks=2).to(D)
        _hyper(model)
        with torch.no_grad():
            lik.noise = 0.2
            if family == "lmc":
                model.variational_strategy.lmc_coefficients.copy_(torch.tensor([[0.9, -0.4], [0.3, 0.8]], dtype=D))
        return model, lik
    if family == "deepgp":
        model = TwoLayerDGP().to(D)
        lik = gpytorch.likelihoods.GaussianLikelihood().to(D)
        _hyper(model, lik)
        return model, lik
    raise ValueError(family)


class NNModel(gpytorch.models.ApproximateGP):
    def __init__(self, z, k=3, bs=4):
        vd = gpytorch.variational.MeanFieldVariationalDistribution(z.size(-2))
        vs = gpytorch.variational.NNVariationalStrategy(self, z, vd, k=k, training_batch_size=bs)
        super().__init__(vs)
        self.mean_module = gpytorch.means.ConstantMean()
        self.covar_module = gpytorch.kernels.ScaleKernel(gpytorch.kernels.RBFKernel())

    def forward(self, x):
        return MultivariateNormal(self.mean_module(x), self.covar_module(x))


class MTVarModel(gpytorch.models.ApproximateGP):
    """2 latent GPs (batched VariationalStrategy) -> 2 tasks through LMC / independent multitask"""

    def __init__(self, family):
        z = torch.linspace(-0.9, 0.9, 4, dtype=D).unsqueeze(-1).repeat(2, 1, 1) + torch.tensor([0.0, 0.05], dtype=D).view(2, 1, 1)
        bs = torch.Size([2])
        vd = gpytorch.variational.CholeskyVariationalDistribution(4, batch_shape=bs)
        base = gpytorch.variational.VariationalStrategy(self, z, vd, learn_inducing_locations=True)
        if family == "lmc":
            vs = gpytorch.variational.LMCVariationalStrategy(base, num_tasks=2, num_latents=2, latent_dim=-1, jitter_val=1e-6)
        else:
            vs = gpytorch.variational.IndependentMultitaskVariationalStrategy(base, num_tasks=2, task_dim=-1)
        super().__init__(vs)
        self.mean_module = gpytorch.means.ConstantMean(batch_shape=bs)
        self.covar_module = gpytorch.kernels.ScaleKernel(gpytorch.kernels.RBFKernel(batch_shape=bs), batch_shape=bs)

    def forward(self, x):
        return MultivariateNormal(self.mean_module(x), self.covar_module(x))


class _Layer(gpytorch.models.deep_gps.DeepGPLayer):
    def __init__(self, input_dims, output_dims, m=4):
        if output_dims is None:
            z = torch.linspace(-0.9, 0.9, m, dtype=D).unsqueeze(-1).repeat(1, input_dims)
            bs = torch.Size([])
        else:
            z = torch.linspace(-0.9, 0.9, m, dtype=D).view(1, m, 1).repeat(output_dims, 1, input_dims)
            z = z + 0.05 * torch.arange(output_dims, dtype=D).view(-1, 1, 1)
            bs = torch.Size([output_dims])
        vd = gpytorch.variational.CholeskyVariationalDistribution(m, batch_shape=bs)
        vs = gpytorch.variational.VariationalStrategy(self, z, vd, learn_inducing_locations=True)
        super().__init__(vs, input_dims, output_dims)
        self.mean_module = gpytorch.means.ConstantMean(batch_shape=bs) if output_dims is None else gpytorch.means.LinearMean(input_dims, batch_shape=bs)
        self.covar_module = gpytorch.kernels.ScaleKernel(gpytorch.kernels.RBFKernel(batch_shape=bs, ard_num_dims=input_dims), batch_shape=bs)

    def forward(self, x):
        return MultivariateNormal(self.mean_module(x), self.covar_module(x))


class TwoLayerDGP(gpytorch.models.deep_gps.DeepGP):
    def __init__(self):
        super().__init__()
        self.hidden = _Layer(1, 2)
        self.last = _Layer(2, None)

    def forward(self, x):
        return self.last(self.hidden(x))


# ----------------------------------------------------------------------------------------------------------------
# data
# ----------------------------------------------------------------------------------------------------------------
def make(family, seed):
    """the live model of a history (fresh, default mode = training as constructed)"""
    if family == "mlist":
        x1, y1, xs = G.data(seed)
        x2, y2, _ = G.data(seed + 1)
        return Live(family, seed, [x1, x2], [y1, y2], xs)
    if family == "hetero":
        x, y, xs = G.data(seed)
        return Live(family, seed, [x, x.clone()], [y, _noise_targets(seed, x.shape[0])], xs)
    if family == "nnvs":
        x, y, xs = G.data(seed, n=10)
        return Live(family, seed, x, y, xs)
    if family in ("lmc", "imt"):
        x, y, xs = G.data(seed, tasks=2)
        return Live(family, seed, x, y, xs)
    if family == "gridk":
        x = grid_points()
        g = torch.Generator().manual_seed(seed)
        y = torch.sin(3 * x.sum(-1)) + 0.1 * torch.randn(x.shape[0], generator=g, dtype=D)
        xs = torch.rand(3, 1, generator=g, dtype=D) * 2 - 1
        return Live(family, seed, x, y, xs)
    x, y, xs = G.data(seed)
    return Live(family, seed, x, y, xs)


def new_data(live, k, which=0, wide=False):
    """replacement training data number k for data holder `which` (same sizes; `wide`: inputs beyond the old range)"""
    f = live.family
    if f == "gridk":
        lo, hi = (-1.0 - 0.25 * k, 1.0 + 0.25 * k)
        x = grid_points(lo, hi)
        g = torch.Generator().manual_seed(live.seed + 100 * k)
        y = torch.sin(3 * x.sum(-1)) + 0.1 * torch.randn(x.shape[0], generator=g, dtype=D)
        return x, y
    n = 10 if f == "nnvs" else 6
    x, y, _ = G.data(live.seed + 100 * k + 17 * which, n=n, tasks=2 if f in ("lmc", "imt") else 0)
    if wide:
        x = x * (1.6 + 0.3 * k)
        y = torch.sin(3 * x.sum(-1)) + 0.05 * y
    if f == "hetero" and which == 1:
        y = _noise_targets(live.seed + 100 * k, n)
    return x, y


# ----------------------------------------------------------------------------------------------------------------
# fresh twin
# ----------------------------------------------------------------------------------------------------------------
def fresh(live):
    """A freshly constructed model of the same architecture holding the same parameters and data (eval mode)."""
    f = live.family
    data = live.data()
    ctor = dict(live.ctor)
    if f == "nnvs":
        ctor["z"] = live.model.variational_strategy.inducing_points.detach().clone()
    if f == "gridi":
        ctor["grid_bounds"] = live.model.covar_module.base_kernel.grid_bounds
    if f == "gridk":
        ctor["grid"] = torch.stack([g.detach().clone() for g in live.model.covar_module.grid], -1)
    if f in ("mlist", "hetero"):
        x, y = [d[0].clone() for d in data], [d[1].clone() for d in data]
    else:
        x, y = data[0][0].clone(), data[0][1].clone()
    tw = Live.__new__(Live)
    tw.family, tw.seed, tw.xs, tw.ctor = f, live.seed, live.xs, ctor
    tw.model, tw.lik = _construct(f, live.seed, x, y, ctor)
    tw.x, tw.y = x, y
    tw.load(live.state())
    tw.train(False)
    return tw


def perturbed_state(live, seed, scale=0.3, new_z=False):
    """another valid parameter set of the same architecture; tensors shared between two state_dict keys stay equal"""
    g = torch.Generator().manual_seed(seed)
    sd = live.state()
    out, by_ptr = {}, {}
    src = {"model." + k: v for k, v in live.model.state_dict().items()}
    if live.family in VAR_LIKE:
        src.update({"lik." + k: v for k, v in live.lik.state_dict().items()})
    for k, v in sd.items():
        ptr = src[k].data_ptr() if src[k].numel() else None
        if ptr is not None and ptr in by_ptr:
            out[k] = out[by_ptr[ptr]].clone()
            continue
        frozen = ("grid" in k or "randn_weights" in k or "constraint" in k or not v.dtype.is_floating_point
                  or (k.endswith("inducing_points") and live.family == "nnvs" and not new_z))
        if "variational_params_initialized" in k:
            out[k] = torch.ones_like(v)            # the loaded state comes from an initialised model
        elif "updated_strategy" in k:
            out[k] = torch.ones_like(v)
        elif frozen:
            out[k] = v.clone()
        elif k.endswith("inducing_points") and live.family == "nnvs":
            out[k] = torch.rand(v.shape, generator=g, dtype=v.dtype) * 2 - 1
        elif k.endswith("_variational_stddev"):
            out[k] = v.clone() * (1.0 + 0.3 * torch.rand(v.shape, generator=g, dtype=v.dtype))
        else:
            out[k] = v.clone() + scale * (torch.rand(v.shape, generator=g, dtype=v.dtype) - 0.5)
        if ptr is not None:
            by_ptr[ptr] = k
    return out
