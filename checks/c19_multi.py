"""C19 helpers for the parts "gcalls" (KernelCalls.tla: the call-configuration lattice of the two-path kernels) and "gmachine"
(BackwardOps.tla: forward -> backward^k through one graph).  References are plain float64 torch (autograd of plain ops is trusted) /
mpmath; nothing here is code-shaped."""
import math

from harness import core

NU = {"matern05": 0.5, "matern15": 1.5, "matern25": 2.5}
NU2 = {1: 0.5, 3: 1.5, 5: 2.5}
CIQ_RTOL = 1e-4


# =====================================================================================================================================
# gcalls
# =====================================================================================================================================
def ref_cov(torch, fam, x1, x2, ls, osc, ldb, diag):
    """the documented covariance function in plain torch; r = 0 entries are constant in every parameter (safe root)"""
    a, b = x1 / ls, x2 / ls
    if ldb:
        a, b = a.transpose(-1, -2).unsqueeze(-1), b.transpose(-1, -2).unsqueeze(-1)
    r2 = ((a - b) ** 2).sum(-1) if diag else ((a.unsqueeze(-2) - b.unsqueeze(-3)) ** 2).sum(-1)
    if fam == "rbf":
        k = torch.exp(-0.5 * r2)
    else:
        pos = r2 > 0
        r = torch.where(pos, torch.where(pos, r2, torch.ones_like(r2)).sqrt(), torch.zeros_like(r2))
        nu = NU[fam]
        s = math.sqrt(2 * nu) * r
        k = (1 if nu == 0.5 else (1 + s) if nu == 1.5 else (1 + s + s * s / 3)) * torch.exp(-s)
    if osc is not None:
        k = k * osc.reshape(*osc.shape, *([1] * ((1 if diag else 2) + (1 if ldb else 0))))
    return k


def call_desc(s, geo=None):
    gm = s.get("geom", "unit")
    return "%s%s lengthscale=%s kernel batch=%s input batch=%s d=%d x2=%s%s%s%s" % (
        s["fam"], " in ScaleKernel" if s["wrap"] == "scale" else "", "ARD(%d)" % s["d"] if s["ls"] == "ard" else "shared", [s["kb"]] if s["kb"] else [], [s["xb"]] if s["xb"] else [], s["d"],
        {"same": "None", "clone": "x1.clone()", "eqn": "other points (n1 = n2)", "gt": "other points (n1 > n2)", "lt": "other points (n1 < n2)"}[s["mode"]],
        " diag=True" if s["diag"] else "", " last_dim_is_batch=True" if s["ldb"] else "",
        "" if gm == "unit" or geo is None else (" geometry: x2 shares rows with x1 (x1[i] = x2[j] for (i, j) in %s, first coordinate only for %s)" % (geo["pairs"], geo["partial"]) if gm == "coin"
                                                else " geometry: points = 1e%d + unit spread, %d x %d rows" % (geo["off"], geo["n1"], geo["n2"])))


def _separated(torch, g, bs, n, d):
    """n points per batch element in [-1, 1]^d whose coordinates are pairwise separated (a jittered grid, independently permuted per coordinate):
    |u[i, k] - u[j, k]| >= 1 / n for i != j"""
    out = torch.empty(*bs, n, d, dtype=torch.float64)
    flat = out.reshape(-1, n, d)
    for b in range(flat.shape[0]):
        for k in range(d):
            perm = torch.randperm(n, generator=g)
            jit = torch.rand(n, generator=g, dtype=torch.float64) * 0.5 - 0.25
            flat[b, :, k] = (2.0 * (perm.to(torch.float64) + 0.5 + jit) / n) - 1.0
    return flat.reshape(*bs, n, d)


def call_inputs(torch, s, geo, g):
    """the input tensors of a call cell: (x1, x2 or None, centre).  centre: the reference is evaluated on x - centre (exact in float64)"""
    from checks.c05_ref import U
    D = torch.float64
    xbs = [s["xb"]] if s["xb"] else []
    d, gm = s["d"], s.get("geom", "unit")
    n1, n2 = (geo["n1"], geo["n2"]) if geo is not None else {"same": (3, 3), "clone": (3, 3), "eqn": (3, 3), "gt": (4, 3), "lt": (2, 3)}[s["mode"]]
    if gm == "far":
        off = float(10 ** geo["off"])
        u = _separated(torch, g, xbs, n1 + n2, d)
        x1 = off + u[..., :n1, :]
        x2 = None if s["mode"] == "same" else x1.clone() if s["mode"] == "clone" else off + u[..., n1:, :]
        for t in (x1, x2):
            if t is not None and not torch.equal((t - off) + off, t):
                raise core.Machinery("C19 gcalls: x - 1e%d is not exact" % geo["off"])
        return x1.contiguous(), (None if x2 is None else x2.contiguous()), off
    x1 = U(g, -1, 1, *xbs, n1, d)
    x2 = None if s["mode"] == "same" else x1.clone() if s["mode"] == "clone" else U(g, -1, 1, *xbs, n2, d)
    if gm == "coin":
        if x2 is None or s["mode"] == "clone":
            raise core.Machinery("C19 gcalls: shared rows need two different tensors")
        for i, j in geo["partial"]:
            x2[..., j - 1, 0] = x1[..., i - 1, 0]
        for i, j in geo["pairs"]:
            x2[..., j - 1, :] = x1[..., i - 1, :]
        if torch.equal(x1, x2):
            raise core.Machinery("C19 gcalls: x1 and x2 are equal tensors")
    return x1, x2, 0.0


def run_call(torch, gpytorch, c):
    from checks import c05
    from checks.c05_ref import U, UD
    D = torch.float64
    s, exp = c["cell"], c["exp"]
    g = torch.Generator().manual_seed(c["seed"])
    K = gpytorch.kernels
    kbs = [s["kb"]] if s["kb"] else []
    xbs = [s["xb"]] if s["xb"] else []
    d = s["d"]
    geo = exp.get("geo")                          # cases recorded before the geometry dimension carry none: geometry "unit"
    gm = s.get("geom", "unit")
    if geo is not None:
        geo = dict(n1=int(geo["n1"]), n2=int(geo["n2"]), off=int(geo["off"]), pairs=sorted([int(p[0]), int(p[1])] for p in geo["pairs"]), partial=sorted([int(p[0]), int(p[1])] for p in geo["partial"]),
                   helper=geo["helper"], quad=geo["quad"] in (True, "True", "TRUE"))
    elif gm != "unit":
        return dict(machinery="C19 gcalls: a %s cell without its geometry" % gm)
    desc = call_desc(s, geo) + " seed=%d" % c["seed"]
    sig = "C19/call/%s/%s%s%s/%s%s" % (s["fam"], s["ls"] + ("-batched" if s["kb"] else ""), "-ldb" if s["ldb"] else "", "-diag" if s["diag"] else "", s["mode"], "" if gm == "unit" else "-" + gm)
    res = dict(key=["call", s], ok=True, nontrivial=True, case=c)

    kw = dict(batch_shape=torch.Size(kbs))
    if s["ls"] == "ard":
        kw["ard_num_dims"] = d
    base = K.RBFKernel(**kw) if s["fam"] == "rbf" else K.MaternKernel(nu=NU[s["fam"]], **kw)
    kern = (K.ScaleKernel(base, batch_shape=torch.Size(kbs)) if s["wrap"] == "scale" else base).to(D)
    L = d if s["ls"] == "ard" else 1
    with torch.no_grad():
        base.lengthscale = UD(g, 0.5, 1.6, *kbs, 1, L)               # pairwise distinct over batch and dimensions
        if s["wrap"] == "scale":
            kern.outputscale = UD(g, 0.6, 1.8, *kbs) if kbs else U(g, 0.6, 1.8)
    if list(base.lengthscale.shape) != exp["lsshape"]:
        res["drift"] = "KernelCalls.tla: lengthscale shape %s predicted, the kernel has %s (%s)" % (exp["lsshape"], list(base.lengthscale.shape), desc)
    x1, x2, centre = call_inputs(torch, s, geo, g)
    # the reference sees the centred points (the documented functions depend on x1 - x2 only; x - centre is exact)
    c1, c2 = x1 - centre, (None if x2 is None else x2 - centre)
    names = [n for n, _ in kern.named_parameters()]
    params = [p for _, p in kern.named_parameters()]
    if sorted(n.split(".")[-1] for n in names) != sorted(exp["params"]):
        return dict(machinery="C19 gcalls: parameters %s, KernelCalls.tla has %s" % (names, exp["params"]))
    want = ref_cov(torch, s["fam"], c1, c1 if c2 is None else c2, base.lengthscale, kern.outputscale if s["wrap"] == "scale" else None, s["ldb"], s["diag"])
    if list(want.shape) != exp["shape"]:
        return dict(machinery="C19 gcalls: reference shape %s, KernelCalls.tla has %s for %s" % (list(want.shape), exp["shape"], desc))
    G = torch.randn(want.shape, generator=g, dtype=D)

    # upstream of the INPUT gradients: exp(-r) (nu = 1/2) is not differentiable in the inputs at r = 0: those entries get no weight there
    with torch.no_grad():
        r2raw = ref_cov(torch, "rbf", c1, c1 if c2 is None else c2, torch.ones(1, 1, dtype=D), None, s["ldb"], s["diag"])      # exp(-r^2 / 2) = 1 exactly where the points coincide
    Gin = torch.randn(want.shape, generator=g, dtype=D)
    if s["fam"] == "matern05":
        Gin = Gin * (r2raw != 1.0).to(D).expand_as(Gin)

    def grads_of(val, passes=1, inputs=()):
        """gradients of <G, val> for every parameter; passes = 2: a first pass with another upstream (Gin) through the same graph - it also
        delivers the gradients of the input tensors that require grad (None = nothing was delivered) - then this one"""
        if not val.requires_grad:
            return [torch.zeros_like(p) for p in params], [None] * len(inputs)
        gin = [None] * len(inputs)
        if passes == 2:
            first = torch.autograd.grad((val * Gin).sum(), list(params) + list(inputs), allow_unused=True, retain_graph=True)
            gin = list(first[len(params):])
        gr = torch.autograd.grad((val * G).sum(), params, allow_unused=True)
        return [torch.zeros_like(p) if x is None else x for p, x in zip(params, gr)], gin
    gw = grads_of(want)[0]
    wv = want.detach()

    def want_input_grads(wants):
        """autograd of the documented formula with respect to the input tensors that require grad"""
        a = c1.clone().requires_grad_("x1" in wants)
        b = a if c2 is None else c2.clone().requires_grad_("x2" in wants)
        val = ref_cov(torch, s["fam"], a, b, base.lengthscale.detach(), kern.outputscale.detach() if s["wrap"] == "scale" else None, s["ldb"], s["diag"])
        leaves = [t for n, t in (("x1", a), ("x2", b)) if n in wants]
        return list(torch.autograd.grad((val * Gin).sum(), leaves))
    # nu = 1/2 with x1 == x2: the coincident entries of the generic branch are the root of a rounded squared distance (~1e-8 each, see run_path in c19.py)
    kink = s["fam"] == "matern05" and s["mode"] in ("same", "clone") and not s["diag"]
    vt = 1e-7 if kink else 1e-9
    kink_atol = 3e-7 * float(G.abs().sum() if gm == "unit" else (G.abs() * (r2raw == 1.0).to(D).expand_as(G)).sum()) if kink else 0.0
    # far geometry.  The reference is the closed form on the CENTRED points; the centred computation has unit spread, so its float64 rounding is that of the
    # "unit" cells (coordinates separated by >= 1 / (n1 + n2): no root of a rounded ~0) and values are compared at 1e-11.  What grows with the offset is the
    # rounding of the points HANDED IN: x / l carries u |x| / l (u = 2^-53) per coordinate before anything can be subtracted; a result that is exact for
    # inputs perturbed by that much is granted: first order |delta k| <= 2.1 u 10^e / l per entry, |delta dk/dl| <= 5 u 10^e / l^2 (d <= 3), granted x 2 and
    # summed with the weights of the upstream gradient; LINEAR in 10^e / l (an un-centred quadratic expansion loses u (10^e / l)^2: 10^e / l times more)
    far_v = far_g = far_gi = 0.0
    if gm == "far":
        with torch.no_grad():
            lmin = float(base.lengthscale.min())
        pert = 2.0 ** -53 * 10.0 ** geo["off"] / lmin
        vt = 3e-7 if kink else 1e-11          # 27 coincident entries per matrix instead of 3: the extreme of the rounded squared distance is larger
        kink_atol *= 3.0
        far_v = 4.0 * pert
        far_g = 8.0 * pert / lmin * float(G.abs().sum())
        far_gi = 8.0 * pert / lmin * float(Gin.abs().sum())

    def ev(force):
        for sp in c05._SPIES:
            sp.n = 0
        wants = exp["wants"][force]
        a = x1.clone().requires_grad_(True) if "x1" in wants else x1
        b = x2.clone().requires_grad_(True) if ("x2" in wants and x2 is not None) else x2
        with gpytorch.settings.trace_mode(force == "trace"):
            out = kern(a, b, diag=s["diag"], last_dim_is_batch=s["ldb"])
            Kd = out if torch.is_tensor(out) else out.to_dense()
        leaves = [t for n, t in (("x1", a), ("x2", b)) if n in wants]
        return Kd.detach(), (grads_of(Kd, 2, leaves) if list(Kd.shape) == exp["shape"] else None), any(sp.n > 0 for sp in c05._SPIES)
    runs = {}
    for force in sorted(exp["paths"], key=lambda f: (f != "none", f)):
        pred = exp["paths"][force]
        ok, got = core.guarded(ev, force)
        lab = "forcing=%s (%s branch)" % (force, pred)
        if not ok:
            res.update(ok=False, sig=sig + "/raises", detail="%s %s: %s" % (desc, lab, got))
            return res
        Kd, gr, fast = got
        gr, gin = gr if gr is not None else (None, None)
        if fast != (pred == "fast"):
            res["drift"] = "KernelCalls.tla predicts the %s branch for %s %s, the code %s the hand-written Function" % (pred, desc, lab, "called" if fast else "did not call")
        if list(Kd.shape) != exp["shape"]:
            res.update(ok=False, sig=sig + "/shape", detail="%s %s: result shape %s, documented %s" % (desc, lab, list(Kd.shape), exp["shape"]))
            return res
        ok, why = core.close(Kd, wv, vt, 1e-12 + far_v)
        if not ok:
            res.update(ok=False, sig=sig + "/value-vs-formula", detail="%s %s: value differs from the documented formula: %s" % (desc, lab, why))
            return res
        for n, a_, b_ in zip(names, gr, gw):
            ok, why = core.close(a_, b_, 1e-7, 1e-10 + kink_atol + far_g)
            if not ok:
                res.update(ok=False, sig=sig + "/grad-vs-formula/" + n.split(".")[-1], detail="%s %s: gradient of %s differs from autograd of the documented formula: %s; got %s, formula %s" % (
                    desc, lab, n, why, [float("%.6g" % v) for v in a_.reshape(-1)[:6]], [float("%.6g" % v) for v in b_.reshape(-1)[:6]]))
                return res
        # every input tensor that requires grad is DELIVERED the derivative of the documented function (KernelCalls.tla: KCWants)
        wants = [n for n in ("x1", "x2") if n in exp["wants"][force]]
        if wants:
            for n, a_, b_ in zip(wants, gin, want_input_grads(wants)):
                if a_ is None and float(b_.abs().max()) <= 1e-10:
                    continue                          # the documented function does not depend on this tensor here (diag of k(x, x)): nothing to deliver
                if a_ is None:
                    res.update(ok=False, sig=sig + "/input-grad-missing/" + n, detail="%s %s: %s requires grad (%s) and NO gradient is delivered for it (None); the documented function has d/d%s with max |.| = %.3g" % (
                        desc, lab, n, "only %s" % n if len(wants) == 1 else "x1 and x2", n, float(b_.abs().max())))
                    return res
                ok, why = core.close(a_, b_, 1e-7, 1e-10 + far_gi)
                if not ok:
                    res.update(ok=False, sig=sig + "/input-grad-vs-formula/" + n, detail="%s %s: gradient delivered for %s differs from autograd of the documented formula: %s" % (desc, lab, n, why))
                    return res
        runs[force] = (Kd, gr)
    if "none" in runs:
        for force, (Kd, gr) in runs.items():
            if force == "none":
                continue
            ok, why = core.close(runs["none"][0], Kd, vt, 1e-12 + far_v)
            if not ok:
                res.update(ok=False, sig=sig + "/fast-vs-generic/value", detail="%s: values under forcing none and %s differ: %s" % (desc, force, why))
                return res
            for n, a_, b_ in zip(names, runs["none"][1], gr):
                ok, why = core.close(a_, b_, 1e-7 if kink else 1e-9, 1e-12 + kink_atol + far_g)
                if not ok:
                    res.update(ok=False, sig=sig + "/fast-vs-generic/grad-" + n.split(".")[-1], detail="%s: gradient of %s differs between forcing none and %s: %s" % (desc, n, force, why))
                    return res
    res["n"] = len(runs)
    if c["seed"] % 97 == 0:
        res["sample"] = dict(call=desc, shape=exp["shape"], branches=exp["paths"])
    return res


# =====================================================================================================================================
# gmachine: subjects
# =====================================================================================================================================
def _pairsq(a, b):
    return ((a.unsqueeze(-2) - b.unsqueeze(-3)) ** 2).sum(-1)


def _find_node(torch, outs, name):
    seen, stack = set(), [o.grad_fn for o in outs if o.grad_fn is not None]
    while stack:
        f = stack.pop()
        if f is None or f in seen:
            continue
        seen.add(f)
        if f.name() == name:
            return f
        stack.extend(nf for nf, _ in f.next_functions)
    return None


def snapshot(torch, node):
    """bit copy of everything the forward stored on the context: saved tensors and tensor-valued plain attributes"""
    snap = {}
    for i, t in enumerate(node.saved_tensors):
        snap["saved[%d]" % i] = t.detach().clone()
    for k, v in vars(node).items():
        if torch.is_tensor(v):
            snap["ctx." + k] = v.detach().clone()
    return snap


def snapshot_diff(torch, a, b):
    """entries the FORWARD stored that are no longer bit-identical (entries a backward adds, e.g. a lazily cached factor, are not a write to what the forward stored)"""
    bad = []
    for k in a:
        if k not in b or a[k].shape != b[k].shape or not torch.equal(a[k], b[k]):
            bad.append(k)
    return bad


LN_Z = {"tail": [-30.0, -12.3, -8.0, -6.7, -5.5, -4.0, -3.1, -2.2, -1.7, -1.3, -1.05, -1.0000001],
        "mixed": [-9.0, -3.3, -1.5, -1.0, -0.7, -0.19, 0.0, 0.1, 0.2, 1.4, 3.0, 7.5],
        "notail": [-1.0, -0.9, -0.5, -0.2, -0.1, 0.0, 0.05, 0.3, 1.0, 2.2, 4.0, 8.0]}
LN_FIXED = {-1.0, -1.0000001, -0.2, 0.0, 0.2}


def ln_branch(z):
    return "near_zero" if z * z < 0.04 else "small" if z < -1 else "ordinary"


def ln_tol(z):
    """relative tolerance of d/dz log_normal_cdf against phi/Phi (see cdf_tols in c19.py: the tail branch differentiates the rational erfcx approximation)"""
    if not z < -1:
        return 1e-7
    return 2e-3 if z >= -2.5 else 1e-4 if z >= -5 else 1e-7


INPUTS = {"rbfcov": ["x1", "x2", "lengthscale"], "materncov": ["x1", "x2", "lengthscale"], "lncdf": ["z"], "nat2muvar": ["natural_vec", "natural_mat"],
          "trilnat2muvar": ["natural_vec", "natural_tril_mat"], "ngdinterp": ["interp_term", "natural_vec", "natural_mat"]}
HAS_GRAD = {fn: (["lengthscale"] if fn in ("rbfcov", "materncov") else v) for fn, v in INPUTS.items()}


def needs_of(c):
    """the inputs that require grad (BackwardOps.tla: rg), in the order of the Function's signature; cases of rounds 1-2 carry no rg: the base set"""
    fn = c["fn"]
    rg = c.get("rg")
    if rg is None:
        return list(HAS_GRAD[fn])
    if not rg or any(n not in INPUTS[fn] for n in rg):
        raise core.Machinery("C19 gmachine: rg=%r is not a non-empty subset of the inputs of %s" % (rg, fn))
    return [n for n in INPUTS[fn] if n in rg]


class Subject:
    """one hand-written Function with a fixed input.  names = the inputs that require grad (every other input is a constant / frozen);
    forward() runs the REAL code once on fresh leaves and returns (leaves, outs), leaves aligned with names;
    check(us, grads, slack) compares the delivered vector-Jacobian product for the upstream tensors us (one per output) with the derivative of the forward"""
    node_name = None
    lower_out = ()          # outputs that are lower triangular by construction: upstream gradients are masked accordingly
    names = ()

    def mask(self, us):
        """upstream entries that carry no information about the derivative are zeroed"""
        for i in self.lower_out:
            us[i] = self.torch.tril(us[i])
        return us

    def forward(self):
        raise NotImplementedError

    def check(self, us, grads, slack=None):
        raise NotImplementedError


class CovSubject(Subject):
    def __init__(self, torch, gpytorch, c, g):
        from checks.c05_ref import U, UD
        self.torch, self.gp, self.c = torch, gpytorch, c
        bs = [2] if c["batch"] == "b2" else []
        self.fam = "rbf" if c["fn"] == "rbfcov" else {1: "matern05", 3: "matern15", 5: "matern25"}[c["nu2"]]
        self.x1, self.x2 = U(g, -1, 1, *bs, 4, 2), U(g, -1, 1, *bs, 3, 2)
        self.x2[..., 0, :] = self.x1[..., 1, :]                       # r = 0 entries
        self.ls0 = UD(g, 0.5, 1.5, *bs, 1, 1)
        self.bs = bs
        self.names = needs_of(c)
        self.x_wanted = any(n in self.names for n in ("x1", "x2"))
        # through the kernel a call in which x1 or x2 requires grad is served by the generic branch: no node of the Function is expected
        self.node_name = None if (c["api"] == "public" and self.x_wanted) else ("RBFCovarianceBackward" if self.fam == "rbf" else "MaternCovarianceBackward")
        self.coincident = _pairsq(self.x1, self.x2) == 0
        if c["api"] == "public":
            K = gpytorch.kernels
            self.kernel = (K.RBFKernel(batch_shape=torch.Size(bs)) if self.fam == "rbf" else K.MaternKernel(nu=NU[self.fam], batch_shape=torch.Size(bs))).to(torch.float64)
            with torch.no_grad():
                self.kernel.lengthscale = self.ls0
            self.raw0 = self.kernel.raw_lengthscale.detach().clone()

    def forward(self):
        torch = self.torch
        from gpytorch.functions import MaternCovariance, RBFCovariance
        t = dict(x1=self.x1.clone().requires_grad_("x1" in self.names), x2=self.x2.clone().requires_grad_("x2" in self.names))
        if self.c["api"] == "function":
            t["lengthscale"] = self.ls0.clone().requires_grad_("lengthscale" in self.names)
            if self.fam == "rbf":
                out = RBFCovariance.apply(t["x1"], t["x2"], t["lengthscale"], _pairsq)
            else:
                out = MaternCovariance.apply(t["x1"], t["x2"], t["lengthscale"], NU[self.fam], lambda a, b: _pairsq(a, b).sqrt())
            return [t[n] for n in self.names], [out]
        self.kernel.raw_lengthscale.grad = None
        self.kernel.raw_lengthscale.requires_grad_("lengthscale" in self.names)
        t["lengthscale"] = self.kernel.raw_lengthscale
        return [t[n] for n in self.names], [self.kernel(t["x1"], t["x2"]).to_dense()]

    def mask(self, us):
        # exp(-r) (nu = 1/2) is not differentiable in the INPUTS at r = 0: no weight on those entries when an input requires grad
        if self.fam == "matern05" and self.x_wanted:
            us[0] = us[0] * (~self.coincident).to(us[0].dtype)
        return us

    def functional(self):
        from gpytorch.functions import MaternCovariance, RBFCovariance
        if self.c["api"] != "function" or self.names != ["lengthscale"]:
            return None
        if self.fam == "rbf":
            return (lambda ls: RBFCovariance.apply(self.x1, self.x2, ls, _pairsq)), [self.ls0.clone()]
        return (lambda ls: MaternCovariance.apply(self.x1, self.x2, ls, NU[self.fam], lambda a, b: _pairsq(a, b).sqrt())), [self.ls0.clone()]

    def _ref(self, us):
        torch = self.torch
        t = dict(x1=self.x1.clone().requires_grad_("x1" in self.names), x2=self.x2.clone().requires_grad_("x2" in self.names))
        if self.c["api"] == "function":
            t["lengthscale"] = self.ls0.clone().requires_grad_("lengthscale" in self.names)
            ls = t["lengthscale"]
        else:
            t["lengthscale"] = self.raw0.clone().requires_grad_("lengthscale" in self.names)
            ls = self.kernel.raw_lengthscale_constraint.transform(t["lengthscale"])
        r2 = _pairsq(t["x1"], t["x2"])
        if self.fam == "rbf":
            ref = torch.exp(-0.5 * r2 / ls ** 2)
        else:
            nu = NU[self.fam]
            # r is taken from the inputs: differentiable in the lengthscale also at r = 0; in the inputs the r = 0 entries are stationary (nu > 1/2) / carry no weight (nu = 1/2)
            pos = r2 > 0
            r = torch.where(pos, torch.where(pos, r2, torch.ones_like(r2)).sqrt(), torch.zeros_like(r2)) if self.x_wanted else r2.sqrt()
            s = math.sqrt(2 * nu) * r / ls
            ref = (1 if nu == 0.5 else (1 + s) if nu == 1.5 else (1 + s + s * s / 3)) * torch.exp(-s)
        return torch.autograd.grad((ref * us[0]).sum(), [t[n] for n in self.names])

    def check(self, us, grads, slack=None):
        for n, a, b in zip(self.names, grads, self._ref(us)):
            ok, why = core.close(a, b, 1e-7, 1e-10)
            if not ok:
                return False, n + "-grad", "d/d %s: %s" % (n if (self.c["api"] == "function" or n != "lengthscale") else "raw_lengthscale", why)
        return True, "", ""


class CdfSubject(Subject):
    node_name = "LogNormalCDFBackward"

    def __init__(self, torch, gpytorch, c, g):
        import mpmath
        self.torch, self.c = torch, c
        zs = []
        for z in LN_Z[c["zc"]]:
            zz = z if z in LN_FIXED else z + 0.004 * (2 * float(torch.rand(1, generator=g, dtype=torch.float64)) - 1)
            if ln_branch(zz) != ln_branch(z):
                raise core.Machinery("C19 gmachine: jitter moved z=%r across a branch boundary" % z)
            zs.append(zz)
        self.zs = zs
        shape = (2, len(zs) // 2) if c["batch"] == "b2" else (len(zs),)
        self.z0 = torch.tensor(zs, dtype=torch.float64).reshape(shape)
        mpmath.mp.dps = 40
        self.true = torch.tensor([float(mpmath.npdf(mpmath.mpf(z)) / mpmath.ncdf(mpmath.mpf(z))) for z in zs], dtype=torch.float64).reshape(shape)
        self.rt = torch.tensor([ln_tol(z) for z in zs], dtype=torch.float64).reshape(shape)
        self.names = needs_of(c)

    def forward(self):
        from gpytorch.functions import log_normal_cdf
        z = self.z0.clone().requires_grad_(True)
        return [z], [log_normal_cdf(z)]

    def functional(self):
        from gpytorch.functions import log_normal_cdf
        return (lambda z: log_normal_cdf(z)), [self.z0.clone()]

    def check(self, us, grads, slack=None):
        want = us[0] * self.true
        err = (grads[0] - want).abs()
        bad = err > self.rt * want.abs() + 1e-12 * us[0].abs() + 1e-300 + (slack[0] if slack and slack[0] is not None else 0.0)
        if bool(bad.any()):
            k = int(torch_argmax(self.torch, (err / (want.abs() + 1e-300)) * bad))
            return False, "vs-phi-over-Phi", "at z=%.9g (%s branch): delivered %.12g, upstream x phi/Phi = %.12g" % (
                self.zs[k], ln_branch(self.zs[k]), float(grads[0].reshape(-1)[k]), float(want.reshape(-1)[k]))
        return True, "", ""


def torch_argmax(torch, t):
    return torch.argmax(t.reshape(-1))


def _nat_loss(torch, e1, e2, us, chol):
    Sg = e2 - e1.unsqueeze(-1) @ e1.unsqueeze(-2)
    second = torch.linalg.cholesky(Sg) if chol else Sg
    return (us[0] * e1).sum() + (us[1] * second).sum()


class NatSubject(Subject):
    """natural / tril-natural parameterisations: the delivered gradient is the gradient w.r.t. the expectation parameters (see run_nat in c19.py)"""

    def __init__(self, torch, gpytorch, c, g):
        from checks.c05_ref import U
        self.torch, self.gp, self.c = torch, gpytorch, c
        D = torch.float64
        M, bs = c["M"], ([2] if c["batch"] == "b2" else [])
        self.M, self.bs = M, bs
        self.tril = c["fn"] == "trilnat2muvar"
        self.Cm = torch.tril(U(g, -0.6, 0.6, *bs, M, M), -1) + torch.diag_embed(U(g, 0.7, 1.6, *bs, M))
        self.t1 = U(g, -1.5, 1.5, *bs, M)
        self.node_name = "_TrilNaturalToMuVarSqrtBackward" if self.tril else "_NaturalToMuVarSqrtBackward"
        self.names = needs_of(c)
        self.second = INPUTS[c["fn"]][1]
        self.second0 = self.Cm if self.tril else -0.5 * self.Cm @ self.Cm.transpose(-1, -2)
        self.lower_out = (1,) if c["api"] == "function" else ()
        if c["api"] == "public":
            V = gpytorch.variational
            self.vd = (V.TrilNaturalVariationalDistribution if self.tril else V.NaturalVariationalDistribution)(M, batch_shape=torch.Size(bs)).to(D)
            self.vd.natural_vec.data.copy_(self.t1)
            (self.vd.natural_tril_mat if self.tril else self.vd.natural_mat).data.copy_(self.second0)
        prec = self.Cm.transpose(-1, -2) @ self.Cm if self.tril else self.Cm @ self.Cm.transpose(-1, -2)
        self.S = torch.linalg.inv(prec)
        self.mu = (self.S @ self.t1.unsqueeze(-1)).squeeze(-1)

    def forward(self):
        if self.c["api"] == "function":
            from gpytorch.variational.natural_variational_distribution import _NaturalToMuVarSqrt
            from gpytorch.variational.tril_natural_variational_distribution import _TrilNaturalToMuVarSqrt
            a, b = self.t1.clone().requires_grad_("natural_vec" in self.names), self.second0.clone().requires_grad_(self.second in self.names)
            mu, L = (_TrilNaturalToMuVarSqrt if self.tril else _NaturalToMuVarSqrt).apply(a, b)
            return [t for n, t in (("natural_vec", a), (self.second, b)) if n in self.names], [mu, L]
        vd = self.vd
        p2 = vd.natural_tril_mat if self.tril else vd.natural_mat
        vd.natural_vec.grad = None
        p2.grad = None
        vd.natural_vec.requires_grad_("natural_vec" in self.names)          # a parameter that does not train is frozen
        p2.requires_grad_(self.second in self.names)
        q = vd()
        return [t for n, t in (("natural_vec", vd.natural_vec), (self.second, p2)) if n in self.names], [q.mean, q.covariance_matrix]

    def functional(self):
        if self.c["api"] != "function":
            return None
        from gpytorch.variational.natural_variational_distribution import _NaturalToMuVarSqrt
        from gpytorch.variational.tril_natural_variational_distribution import _TrilNaturalToMuVarSqrt
        F = _TrilNaturalToMuVarSqrt if self.tril else _NaturalToMuVarSqrt
        if len(self.names) == 2:
            return (lambda a, b: F.apply(a, b)), [self.t1.clone(), self.second0.clone()]
        if self.names == ["natural_vec"]:
            return (lambda a: F.apply(a, self.second0.clone())), [self.t1.clone()]
        return (lambda b: F.apply(self.t1.clone(), b)), [self.second0.clone()]

    def check(self, us, grads, slack=None):
        torch = self.torch
        e1 = self.mu.clone().requires_grad_(True)
        e2 = (self.S + self.mu.unsqueeze(-1) @ self.mu.unsqueeze(-2)).clone().requires_grad_(True)
        r1, r2 = torch.autograd.grad(_nat_loss(torch, e1, e2, us, self.c["api"] == "function"), (e1, e2))
        r2 = 0.5 * (r2 + r2.transpose(-1, -2))
        got = dict(zip(self.names, grads))
        if "natural_vec" in got:
            ok, why = core.close(got["natural_vec"], r1, 1e-7, 1e-10)
            if not ok:
                return False, "natural_vec-grad", "gradient delivered to natural_vec%s is not d loss / d eta1: %s" % ("" if len(got) == 2 else " (%s does not require grad)" % self.second, why)
        if self.second not in got:
            return True, "", ""
        g2 = got[self.second]
        if not self.tril:
            ok, why = core.close(g2, r2, 1e-7, 1e-10)
            return ok, "natural_mat-grad", "gradient delivered to natural_mat is not d loss / d eta2: %s" % why
        lhs = g2.transpose(-1, -2) @ self.Cm + self.Cm.transpose(-1, -2) @ g2
        ok, why = core.close(lhs, -2 * r2, 1e-7, 1e-10)
        low = bool((torch.triu(g2, 1).abs() <= 1e-12).all())
        return ok and low, "natural_tril_mat-grad", "gradient delivered to natural_tril_mat is not the tangent of C along the natural gradient: %s%s" % (why, "" if low else " (not lower triangular)")


class CiqSubject(Subject):
    node_name = "_NgdInterpTermsBackward"

    def __init__(self, torch, gpytorch, c, g):
        from checks.c05_ref import U
        self.torch, self.gp, self.c = torch, gpytorch, c
        M, bs, n = c["M"], ([2] if c["batch"] == "b2" else []), 4
        self.M = M
        Cm = torch.tril(U(g, -0.5, 0.5, *bs, M, M), -1) + torch.diag_embed(U(g, 0.8, 1.5, *bs, M))
        self.prec = Cm @ Cm.transpose(-1, -2)
        self.t1 = U(g, -1, 1, *bs, M)
        self.it0 = U(g, -1, 1, *bs, M, n)
        self.names = needs_of(c)

    def _inputs(self):
        return dict(interp_term=self.it0.clone(), natural_vec=self.t1.clone(), natural_mat=(-0.5 * self.prec).clone())

    def forward(self):
        from gpytorch.variational.ciq_variational_strategy import _NgdInterpTerms
        gp = self.gp
        t = {n: v.requires_grad_(n in self.names) for n, v in self._inputs().items()}
        with gp.settings.cg_tolerance(1e-14), gp.settings.eval_cg_tolerance(1e-14), gp.settings.max_cg_iterations(200):
            mean, var, kl = _NgdInterpTerms.apply(t["interp_term"], t["natural_vec"], t["natural_mat"])
        return [t[n] for n in self.names], [mean, var, kl]

    def functional(self):
        from gpytorch.variational.ciq_variational_strategy import _NgdInterpTerms
        gp = self.gp
        const = self._inputs()

        def f(*args):
            t = dict(const, **dict(zip(self.names, args)))
            with gp.settings.cg_tolerance(1e-14), gp.settings.eval_cg_tolerance(1e-14), gp.settings.max_cg_iterations(200):
                return _NgdInterpTerms.apply(t["interp_term"], t["natural_vec"], t["natural_mat"])
        return f, [const[n].clone() for n in self.names]

    def check(self, us, grads, slack=None):
        torch = self.torch
        S = torch.linalg.inv(self.prec)
        mu = (S @ self.t1.unsqueeze(-1)).squeeze(-1)
        it = self.it0.clone().requires_grad_(True)
        e1 = mu.clone().requires_grad_(True)
        e2 = (S + mu.unsqueeze(-1) @ mu.unsqueeze(-2)).clone().requires_grad_(True)
        Sg = e2 - e1.unsqueeze(-1) @ e1.unsqueeze(-2)
        mean = (it.transpose(-1, -2) @ e1.unsqueeze(-1)).squeeze(-1)
        var = (it * (Sg @ it)).sum(-2)
        kl = 0.5 * (-torch.logdet(Sg) + Sg.diagonal(dim1=-1, dim2=-2).sum(-1) + (e1 * e1).sum(-1) - self.M)
        r = torch.autograd.grad((us[0] * mean).sum() + (us[1] * var).sum() + (us[2] * kl).sum(), (it, e1, e2))
        want = dict(interp_term=r[0], natural_vec=r[1], natural_mat=0.5 * (r[2] + r[2].transpose(-1, -2)))
        for lab, a in zip(self.names, grads):
            ok, why = core.close(a, want[lab], CIQ_RTOL, 1e-9)
            if not ok:
                return False, "grad-" + lab, "gradient w.r.t. %s: %s" % (lab, why)
        return True, "", ""


def make_subject(torch, gpytorch, c, g):
    fn = c["fn"]
    if fn in ("rbfcov", "materncov"):
        return CovSubject(torch, gpytorch, c, g)
    if fn == "lncdf":
        return CdfSubject(torch, gpytorch, c, g)
    if fn in ("nat2muvar", "trilnat2muvar"):
        return NatSubject(torch, gpytorch, c, g)
    if fn == "ngdinterp":
        return CiqSubject(torch, gpytorch, c, g)
    raise core.Machinery("C19 gmachine: unknown Function %r" % fn)


# =====================================================================================================================================
# gmachine: one history
# =====================================================================================================================================
def upstream(torch, kind, outs, g, step, mask=None):
    """the upstream gradient tensors (one per output) of one pass"""
    D = torch.float64
    us = []
    if kind == "ones":
        us = [torch.ones(o.shape, dtype=D) for o in outs]
    elif kind in ("randA", "randB"):
        us = [torch.randn(o.shape, generator=g, dtype=D) * (1.0 if kind == "randA" else 2.5) + (0.0 if kind == "randA" else 0.3) for o in outs]
    elif kind == "unit":
        us = [torch.zeros(o.shape, dtype=D) for o in outs]
        sizes = [o.numel() for o in outs]
        pos = (5 * step + 3) % sum(sizes)
        for u, n in zip(us, sizes):
            if pos < n:
                u.view(-1)[pos] = 1.0
                break
            pos -= n
    else:
        raise core.Machinery("C19 gmachine: unknown upstream %r" % kind)
    return mask(us) if mask is not None else us


def one_hots(torch, outs, mask=None):
    for oi, o in enumerate(outs):
        for k in range(o.numel()):
            us = [torch.zeros(t.shape, dtype=torch.float64) for t in outs]
            us[oi].view(-1)[k] = 1.0
            if mask is not None and float(mask([u.clone() for u in us])[oi].abs().sum()) == 0.0:
                continue                    # an entry above the diagonal of a lower-triangular output is constant (also: a kink of exp(-r) when an input requires grad)
            yield oi, k, us


def _missing(subj, got):
    """the inputs that require grad and were delivered nothing"""
    return [n for n, t in zip(subj.names, got) if t is None]


def hist_desc(hist):
    return " -> ".join("%s(%s)" % (h["how"], h["u"]) for h in hist)


def run_history(torch, gpytorch, subj_factory, hist, seed, sig, desc, case, key):
    """execute forward -> backward^k on the real code; every pass against (i) the derivative of the forward, (ii) the same pass on a fresh
    graph, (iii) the context snapshot taken right after the forward"""
    g = torch.Generator().manual_seed(seed)
    res = dict(key=key, ok=True, nontrivial=len(hist) >= 2, case=case)

    def fail(what, detail):
        res.update(ok=False, sig=sig + "/" + what, detail="%s history %s: %s" % (desc, hist_desc(hist), detail))
        return res
    ok, subj = core.guarded(subj_factory, g)
    if not ok:
        return fail("raises", "set-up: %s" % subj)
    if hist and hist[0]["how"] == "jacobian":
        return run_jacobian(torch, subj, res, fail)
    ok, fw = core.guarded(subj.forward)
    if not ok:
        return fail("raises", "forward: %s" % fw)
    leaves, outs = fw
    node = _find_node(torch, outs, subj.node_name) if subj.node_name else None
    if subj.node_name and node is None:
        res["drift"] = "%s: no %s node in the graph of the forward (the hand-written Function was not used)" % (desc, subj.node_name)
    snap0 = snapshot(torch, node) if node is not None else None
    impure = None
    if len(leaves) != len(subj.names) or not all(l.requires_grad for l in leaves):
        return dict(machinery="C19 gmachine: %s: leaves do not match the inputs that require grad %s" % (desc, subj.names))
    for j, h in enumerate(hist, 1):
        us = upstream(torch, h["u"], outs, g, j, subj.mask)

        slack = [None] * len(leaves)       # rounding of the subtraction that recovers one pass from an accumulated .grad

        def deliver(ls_, os_, how):
            if how == "accum":
                before = [torch.zeros_like(l) if l.grad is None else l.grad.detach().clone() for l in ls_]
                was = [l.grad is not None for l in ls_]
                torch.autograd.backward(os_, us, retain_graph=True)
                for i, (l, b) in enumerate(zip(ls_, before)):
                    if l.grad is not None:
                        slack[i] = 4.5e-16 * torch.maximum(l.grad.detach().abs(), b.abs())
                # a leaf whose .grad is still None after the very first accumulation was delivered nothing
                return [None if (l.grad is None and not w) else (l.grad.detach() - b) for l, b, w in zip(ls_, before, was)]
            return [None if t is None else t.detach() for t in torch.autograd.grad(os_, ls_, us, retain_graph=(how != "free"), allow_unused=True)]
        us0 = [u.clone() for u in us]
        ok, got = core.guarded(deliver, leaves, outs, h["how"])
        nth = "pass %d of %d (%s, upstream %s)" % (j, len(hist), h["how"], h["u"])
        if not ok:
            return fail("raises", "%s: %s" % (nth, got))
        if not all(torch.equal(a, b) for a, b in zip(us, us0)):
            return fail("upstream-modified", "%s wrote to the upstream gradient it was handed (other consumers of that gradient see the change)" % nth)
        miss = _missing(subj, got)
        got = [torch.zeros_like(l) if t is None else t for l, t in zip(leaves, got)]             # None = "does not depend on it": right exactly when the derivative is zero
        ok, what, why = subj.check(us, got, slack)
        if not ok and miss:
            return fail("needs/grad-missing/" + miss[0], "%s: inputs requiring grad = %s; NO gradient (None) is delivered for %s, whose derivative is not zero: %s" % (nth, subj.names, miss, why))
        if not ok:
            return fail(("first-pass/" if j == 1 else "later-pass/") + what, "%s does not deliver upstream . dF(x): %s%s" % (nth, why, " [an earlier pass: %s]" % impure if impure else ""))
        # (ii) the same upstream through a fresh graph of the same forward
        ok, fresh = core.guarded(lambda: (lambda fw2: [torch.zeros_like(l) if t is None else t.detach() for l, t in zip(fw2[0], torch.autograd.grad(fw2[1], fw2[0], us, allow_unused=True))])(subj.forward()))
        if not ok:
            return fail("raises", "fresh graph for %s: %s" % (nth, fresh))
        for a, b in zip(got, fresh):
            ok, why = core.close(a, b, 1e-12, 1e-14)
            if not ok:
                return fail("later-pass/vs-fresh-graph" if j > 1 else "first-pass/vs-fresh-graph", "%s differs from the same pass through a fresh graph: %s" % (nth, why))
        if snap0 is not None and impure is None:
            ok, snap = core.guarded(snapshot, torch, node)
            if ok:
                bad = snapshot_diff(torch, snap0, snap)
                if bad:
                    impure = "%s changed what the forward stored for the backward: %s" % (nth, ", ".join(bad))
            elif h["how"] != "free":
                return fail("raises", "reading the context after %s: %s" % (nth, snap))
    if impure is not None:
        # every pass of THIS history still delivered the derivative: the write is reported on its own (the next pass of a longer history reads it)
        return fail("context-modified", impure)
    return res


def run_jacobian(torch, subj, res, fail):
    """Jacobian rows: one backward pass per output element, all through ONE graph.  (a) torch.autograd.functional.jacobian of the real forward
    where the Function can be called on given tensors, (b) per-output one-hot passes with retain_graph (what (a) does internally; also the
    per-observation gradients of a vector of losses)"""
    res["nontrivial"] = True
    fun = subj.functional() if hasattr(subj, "functional") else None
    if fun is not None:
        f, inputs = fun
        ok, J = core.guarded(lambda: torch.autograd.functional.jacobian(f, tuple(inputs)))
        if not ok:
            return fail("raises", "torch.autograd.functional.jacobian: %s" % J)
        with torch.no_grad():
            outs = f(*inputs)
        outs = list(outs) if isinstance(outs, (tuple, list)) else [outs]
        if not isinstance(J[0], (tuple, list)):
            J = (J,)
        for oi, k, us in one_hots(torch, outs, subj.mask):
            got = [J[oi][i].reshape(outs[oi].numel(), *inputs[i].shape)[k] for i in range(len(inputs))]
            ok, what, why = subj.check(us, got)
            if not ok:
                return fail("jacobian-row/" + what, "functional.jacobian, row of output %d element %d: %s" % (oi, k, why))
    ok, fw = core.guarded(subj.forward)
    if not ok:
        return fail("raises", "forward: %s" % fw)
    leaves, outs = fw
    n = 0
    for oi, k, us in one_hots(torch, outs, subj.mask):
        n += 1
        ok, got = core.guarded(lambda: [None if t is None else t.detach() for t in torch.autograd.grad(outs, leaves, us, retain_graph=True, allow_unused=True)])
        if not ok:
            return fail("raises", "per-output gradient (output %d, element %d): %s" % (oi, k, got))
        miss = _missing(subj, got)
        got = [torch.zeros_like(l) if t is None else t for l, t in zip(leaves, got)]
        ok, what, why = subj.check(us, got)
        if not ok and miss:
            return fail("needs/grad-missing/" + miss[0], "per-output gradient of output %d element %d: inputs requiring grad = %s; NO gradient (None) is delivered for %s, whose derivative is not zero: %s" % (oi, k, subj.names, miss, why))
        if not ok:
            return fail("jacobian-row/" + what, "per-output gradient of output %d element %d (pass %d through the graph): %s" % (oi, k, n, why))
    return res


def run_refused(torch, gpytorch, c, sig, desc, key):
    """BackwardOps.tla: the bare covariance Function is asked for a gradient it has no derivative for (x1 / x2): the forward must refuse loudly.  A call
    that is accepted must deliver the complete derivative to EVERY input that requires grad - a silent None is the violation"""
    g = torch.Generator().manual_seed(c["seed"])
    res = dict(key=key, ok=True, nontrivial=True, case=c)
    ok, subj = core.guarded(make_subject, torch, gpytorch, c["cell"], g)
    if not ok:
        res.update(ok=False, sig=sig + "/raises", detail="%s: set-up: %s" % (desc, subj))
        return res
    ok, fw = core.guarded(subj.forward)
    if not ok:
        return res                                    # refused in the forward, as the spec says
    leaves, outs = fw
    us = upstream(torch, "randA", outs, g, 1, subj.mask)
    ok, got = core.guarded(lambda: list(torch.autograd.grad(outs, leaves, us, allow_unused=True)))
    if not ok:
        return res                                    # refused in the backward: still loud
    miss = _missing(subj, got)
    ok, what, why = subj.check(us, [torch.zeros_like(l) if t is None else t.detach() for l, t in zip(leaves, got)])
    if not ok and miss:
        res.update(ok=False, sig=sig + "/needs/grad-missing/" + miss[0], detail="%s: inputs requiring grad = %s: the call is accepted and NO gradient (None) is delivered for %s, whose derivative is not zero: %s" % (
            desc, subj.names, miss, why))
        return res
    if not ok:
        res.update(ok=False, sig=sig + "/needs/" + what, detail="%s: inputs requiring grad = %s: the call is accepted and does not deliver upstream . dF(x): %s" % (desc, subj.names, why))
        return res
    res["drift"] = "BackwardOps.tla: %s with inputs requiring grad = %s is refused by the forward; the code accepted the call (and delivered the right gradients)" % (desc, subj.names)
    return res


def run_mach(torch, gpytorch, c):
    case, hist = c["cell"], c["hist"]
    desc = "%s via %s batch=%s%s%s%s%s" % (case["fn"], "Function.apply" if case["api"] == "function" else "the public object", case["batch"],
                                          " nu=%s" % NU2[case["nu2"]] if case["nu2"] else "", " z class=%s" % case["zc"] if case["zc"] != "-" else "", " M=%d" % case["M"] if case["M"] else "",
                                          " requires_grad=%s" % needs_of(case) if case.get("rg") is not None and needs_of(case) != HAS_GRAD[case["fn"]] else "")
    sig = "C19/machine/%s/%s" % (case["fn"] + ("-nu%s" % NU2[case["nu2"]] if case["nu2"] else ""), case["api"])
    if c.get("refused"):
        return run_refused(torch, gpytorch, c, sig, desc, ["mach", case, "refused"])
    r = run_history(torch, gpytorch, lambda g: make_subject(torch, gpytorch, case, g), hist, c["seed"], sig, desc, c, ["mach", case, [[h["u"], h["how"]] for h in hist]])
    if r.get("ok") and c["seed"] % 211 == 0:
        r["sample"] = dict(function=desc, history=hist_desc(hist), verdict="every pass = upstream . dF(x); context unchanged")
    return r
