"""C07 - every covariance handed out is a valid covariance.
Spec: Validity.tla (data-growth machine over exact rationals: PSD prior / posterior / reduction, monotone variances)."""
import itertools
import os
import random

from harness import core, tlc
from checks.c04 import tla

LEVEL = "exploration"
PID = "C07"


def write_mc(workdir, name, pool, test, s2, maxn):
    os.makedirs(workdir, exist_ok=True)
    mod = "MC_Validity_" + name
    with open(os.path.join(workdir, mod + ".tla"), "w") as f:
        f.write("---- MODULE %s ----\nEXTENDS Validity\nPoolDef == %s\nTestDef == %s\n====\n" % (mod, tla(pool), tla(test)))
    cfg = os.path.join(workdir, mod + ".cfg")
    tlc.write_cfg(cfg, spec="Spec", constants={"Pool": "<- PoolDef", "Test": "<- TestDef", "S2": s2, "MaxN": maxn},
                  invariants=["PriorPSD", "PosteriorPSD", "ReductionPSD", "VarNonNegative"], properties=["VarianceMonotone"])
    return os.path.join(workdir, mod + ".tla"), cfg


# ---------------------------------------------------------------------------------------------
def kernels(torch, gpytorch, d):
    """kernels that are positive definite on their documented domain, with that domain"""
    K = gpytorch.kernels
    out = {
        "rbf": (lambda: K.RBFKernel(), "any"),
        "rbf_ard": (lambda: K.RBFKernel(ard_num_dims=d), "any"),
        "matern05": (lambda: K.MaternKernel(nu=0.5), "any"),
        "matern15": (lambda: K.MaternKernel(nu=1.5), "any"),
        "matern25": (lambda: K.MaternKernel(nu=2.5), "any"),
        "rq": (lambda: K.RQKernel(), "any"),
        "periodic": (lambda: K.PeriodicKernel(), "any"),
        "linear": (lambda: K.LinearKernel(), "any"),
        "poly2": (lambda: K.PolynomialKernel(power=2), "any"),
        "pwpoly": (lambda: K.PiecewisePolynomialKernel(q=2), "any"),
        "cosine": (lambda: K.CosineKernel(), "d1"),
        "scale_rbf": (lambda: K.ScaleKernel(K.RBFKernel()), "any"),
        "sum": (lambda: K.RBFKernel() + K.ScaleKernel(K.MaternKernel(nu=1.5)), "any"),
        "prod": (lambda: K.RBFKernel() * K.PeriodicKernel(), "any"),
        "sm": (lambda: K.SpectralMixtureKernel(num_mixtures=2, ard_num_dims=d), "any"),
        "cylindrical": (lambda: K.CylindricalKernel(num_angular_weights=3, radial_base_kernel=K.MaternKernel(nu=2.5)), "unitball"),
        "rff": (lambda: K.RFFKernel(num_samples=8, num_dims=d), "any"),
        "constant": (lambda: K.ConstantKernel(), "any"),
    }
    return out


# translation-invariant kernels: only these are exercised on inputs with a large common offset (for the others the prior itself
# grows with the offset and rounding is relative to that scale)
STATIONARY = {"rbf", "rbf_ard", "matern05", "matern15", "matern25", "rq", "periodic", "pwpoly", "cosine", "scale_rbf", "sum", "prod", "sm"}


def geometry(torch, name, n, d, g):
    D = torch.float64
    if name == "spread":
        return torch.rand(n, d, generator=g, dtype=D) * 2 - 1
    if name == "duplicates":
        x = torch.rand(n, d, generator=g, dtype=D) * 2 - 1
        x[1] = x[0]
        x[-1] = x[2]
        return x
    if name == "near-coincident":
        x = torch.rand(n, d, generator=g, dtype=D) * 2 - 1
        x[1] = x[0] + 1e-9
        x[3] = x[2] - 1e-9
        return x
    if name == "clustered":
        c = torch.rand(1, d, generator=g, dtype=D) * 2 - 1
        return c + 1e-3 * torch.randn(n, d, generator=g, dtype=D)
    if name == "far-offset":
        # un-normalised coordinates (raw timestamps ...): a large common offset, spread + clustered + one exact duplicate
        x = torch.rand(n, d, generator=g, dtype=D) * 2 - 1
        x[1] = x[0] + 1e-3 * torch.randn(d, generator=g, dtype=D)
        x[2] = x[0]
        return x + 1e5
    raise ValueError(name)


def psd_report(torch, M, what, tol=1e-8, ref=None):
    """symmetric and PSD up to rounding: lambda_min >= -tol * max(lambda_max, tiny)"""
    if M.numel() == 0:
        return None
    if not torch.isfinite(M).all():
        return "%s has non-finite entries" % what
    asym = float((M - M.transpose(-1, -2)).abs().max())
    scale = max(float(M.abs().max()), 1e-300)
    if asym > 1e-10 * scale:
        return "%s is not symmetric (max asymmetry %.3e, scale %.3e)" % (what, asym, scale)
    ev = torch.linalg.eigvalsh((M + M.transpose(-1, -2)) / 2)
    lo, hi = float(ev.min()), float(ev.max())
    if ref is not None:      # a difference of two matrices: rounding is relative to the operands, not to the (possibly tiny) difference
        hi = max(hi, float(ref))
    if lo < -tol * max(hi, 1e-12):
        return "%s has eigenvalue %.3e (largest %.3e): not positive semi-definite up to rounding" % (what, lo, hi)
    return None


def _worker(item):
    torch = core.setup_torch()
    import gpytorch
    out = []
    for c in item["cases"]:
        out.extend(run_case(torch, gpytorch, c))
    return out


def run_case(torch, gpytorch, c):
    from gpytorch import settings
    D = torch.float64
    g = torch.Generator().manual_seed(c["seed"])
    d = c["d"]
    kname, geom, ls = c["kernel"], c["geometry"], c["lengthscale"]
    ks = kernels(torch, gpytorch, d)
    mk, dom = ks[kname]
    desc = "%s geometry=%s lengthscale-scale=%g d=%d" % (kname, geom, ls, d)
    res = []

    def rec(what, bad):
        res.append(dict(key=[kname, geom, ls, d, what], ok=bad is None, nontrivial=True, sig="C07/%s/%s/%s" % (what, kname, geom),
                        detail="%s: %s" % (desc, bad), case=c, sample=dict(case=desc) if what == "gram" else None))
    torch.manual_seed(c["seed"])
    kern = mk().to(D)
    with torch.no_grad():
        for n_, mod in kern.named_modules():
            if hasattr(mod, "raw_lengthscale") and mod.has_lengthscale:
                mod.lengthscale = mod.lengthscale * 0 + ls
    n = 7
    x = geometry(torch, geom, n, d, g)
    xs = torch.rand(3, d, generator=g, dtype=D) * 2 - 1
    if geom == "far-offset":
        xs = xs + 1e5
    if dom == "unitball":
        x = x / (1.01 * max(1.0, float(x.norm(dim=-1).max())))
        xs = xs / (1.01 * max(1.0, float(xs.norm(dim=-1).max())))
    if c["what"] == "gram":
        with torch.no_grad():
            ok, Kd = core.guarded(lambda: kern(torch.cat([x, xs])).to_dense())
        if not ok:
            rec("gram-raises", Kd)
            return res
        rec("gram", psd_report(torch, Kd, "Gram matrix K(x,x)"))
        return res
    # growth history on an exact GP: pool index sequence from the spec
    lik = gpytorch.likelihoods.GaussianLikelihood().to(D)

    class M(gpytorch.models.ExactGP):
        def __init__(s_, xx, yy):
            super().__init__(xx, yy, lik)
            s_.mean_module = gpytorch.means.ZeroMean()
            s_.covar_module = kern

        def forward(s_, xx):
            return gpytorch.distributions.MultivariateNormal(s_.mean_module(xx), s_.covar_module(xx))
    with torch.no_grad():
        lik.noise = 0.05
    yall = torch.randn(n, generator=g, dtype=D)
    with torch.no_grad():
        prior = kern(xs).to_dense()
    rec("prior", psd_report(torch, prior, "prior covariance"))
    prev_var = torch.diagonal(prior).clone()
    seq = c["history"]
    for step in range(1, len(seq) + 1):
        idx = torch.tensor([p - 1 for p in seq[:step]])
        model = M(x[idx], yall[idx]).to(D)
        model.eval()
        lik.eval()
        with torch.no_grad():
            ok, r = core.guarded(lambda: (lambda o, q: (o.covariance_matrix.clone(), o.variance.clone(), o.stddev.clone(), q.covariance_matrix.clone()))(model(xs), lik(model(xs))))
        if not ok:
            rec("posterior-raises", "history %s step %d: %s" % (seq, step, r))
            return res
        cov, var, sd, mcov = r
        hist = "history %s step %d" % (seq[:step], step)
        bad = psd_report(torch, cov, "posterior covariance (%s)" % hist)
        rec("posterior", bad)
        if bad:
            return res
        rec("reduction", psd_report(torch, prior - cov, "prior - posterior covariance (%s)" % hist, 1e-7, ref=prior.abs().max()))
        rec("marginal", psd_report(torch, mcov, "marginal covariance (%s)" % hist))
        scale = max(float(prev_var.max()), 1e-12)
        inc = float((torch.diagonal(cov) - prev_var).max())
        rec("variance-monotone", None if inc <= 1e-9 * scale + 1e-12 else "%s: a posterior variance INCREASED by %.3e after adding an observation" % (hist, inc))
        mv = settings.min_variance.value(var.dtype)
        rec("variance-floor", None if (float(var.min()) >= mv and torch.isfinite(sd).all() and float((sd - var.sqrt()).abs().max()) <= 1e-12) else
            "%s: reported variance %.3e below min_variance %.1e or stddev not its square root" % (hist, float(var.min()), mv))
        prev_var = torch.diagonal(cov).clone()
    for r in res:
        if r.get("sample") is None:
            r.pop("sample", None)
    return res


def noise_floor_cases(torch, gpytorch):
    """the noise a likelihood adds is at least its constraint's lower bound, whatever the raw value"""
    D = torch.float64
    out = []
    L = gpytorch.likelihoods
    from gpytorch.constraints import GreaterThan, Interval
    for name, mk in (("gaussian", lambda: L.GaussianLikelihood()), ("gaussian-custom", lambda: L.GaussianLikelihood(noise_constraint=GreaterThan(0.03))),
                     ("gaussian-interval", lambda: L.GaussianLikelihood(noise_constraint=Interval(0.02, 0.5))),
                     ("multitask", lambda: L.MultitaskGaussianLikelihood(num_tasks=2, rank=0, noise_constraint=GreaterThan(0.01)))):
        lik = mk().to(D)
        for raw in (-1e6, -50.0, 0.0, 50.0):
            with torch.no_grad():
                for n_, p in lik.named_parameters():
                    if "noise" in n_:
                        p.fill_(raw)
            t = 2 if name == "multitask" else 0
            mean = torch.zeros(3, 2, dtype=D) if t else torch.zeros(3, dtype=D)
            dist = (gpytorch.distributions.MultitaskMultivariateNormal(mean, torch.eye(6, dtype=D)) if t else gpytorch.distributions.MultivariateNormal(mean, torch.eye(3, dtype=D)))
            lik.eval()
            added = torch.diagonal(lik(dist).covariance_matrix - dist.covariance_matrix)
            lbs = [float(c.lower_bound.min()) for n_, c in lik.named_constraints() if "noise" in n_]
            lb = min(lbs) if name != "multitask" else sum(sorted(lbs)[:2]) if len(lbs) > 1 else lbs[0]
            bad = None if (torch.isfinite(added).all() and float(added.min()) >= min(lbs) - 1e-15) else "noise added %s is below the constraint's lower bound %s (raw=%g)" % (added.tolist(), lbs, raw)
            out.append(dict(key=["noise-floor", name, raw], ok=bad is None, nontrivial=True, sig="C07/noise-floor/%s" % name, detail=str(bad), case=dict(what="noise", name=name, raw=raw)))
    return out


def variance_floor_cases(torch, gpytorch):
    """reported variances / stddevs are real and at least the configured minimum variance, for dense and lazy
    covariances whose diagonal is tiny or slightly negative through rounding, under default and custom min_variance"""
    from gpytorch import settings
    from linear_operator import to_linear_operator
    from gpytorch.distributions import MultivariateNormal, MultitaskMultivariateNormal
    D = torch.float64
    out = []
    for rep in ("dense", "lazy"):
        # a dense covariance must be positive definite to construct the distribution at all; a lazy one may carry a
        # diagonal that is zero or slightly negative through rounding
        diag = torch.tensor([1e-30, 1e-20, 3e-11, 1e-7, 1.0] if rep == "dense" else [-1e-12, 0.0, 1e-20, 3e-11, 1.0], dtype=D)
        C = torch.diag(diag)
        mk = (lambda: C.clone()) if rep == "dense" else (lambda: to_linear_operator(C.clone()))
        for mv in (None, 1e-3):
            for cls in ("mvn", "mtmvn"):
                from contextlib import nullcontext
                with (settings.min_variance(double_value=mv) if mv else nullcontext()):
                    floor = settings.min_variance.value(D)
                    if cls == "mvn":
                        dist = MultivariateNormal(torch.zeros(5, dtype=D), mk())
                    else:
                        Cb = torch.block_diag(C, C)
                        dist = MultitaskMultivariateNormal(torch.zeros(5, 2, dtype=D), Cb if rep == "dense" else to_linear_operator(Cb))
                    ok, r = core.guarded(lambda: (dist.variance.clone(), dist.stddev.clone(), [t.clone() for t in dist.confidence_region()]))
                if not ok:
                    bad = "raised %s" % r
                else:
                    var, sd, (lo, hi) = r
                    bad = None
                    if not (torch.isfinite(var).all() and torch.isfinite(sd).all()) or float(var.min()) < floor:
                        bad = "variance %s below the minimum variance %.1e (or not finite)" % (var.reshape(-1)[:5].tolist(), floor)
                    elif float((sd - var.sqrt()).abs().max()) > 1e-15 or float((hi - lo - 4 * sd).abs().max()) > 1e-12:
                        bad = "stddev / confidence_region inconsistent with the variance"
                out.append(dict(key=["floor", rep, mv, cls], ok=bad is None, nontrivial=True, sig="C07/variance-floor/%s/%s" % (cls, rep), detail=str(bad),
                                case=dict(what="floor")))
    return out


def variational_cases(torch, gpytorch, seed, thorough):
    """prior / variational / marginal covariances of SVGP models are PSD"""
    from checks import gpmodels as G
    out = []
    for fam in G.VAR_FAMILIES:
        for s in range(3 if thorough else 1):
            x, y, xs = G.data(seed + s)
            model, lik = G.build(fam, x, y)
            g = torch.Generator().manual_seed(seed + s)
            model.eval()
            lik.eval()
            with torch.no_grad():
                model(xs)
                for p in model.variational_strategy._variational_distribution.parameters():
                    p.add_(0.3 * torch.randn(p.shape, generator=g, dtype=p.dtype))
                model.train()
                model.eval()
                o = model(xs)
                for what, Mx in (("variational", o.covariance_matrix), ("variational-marginal", lik(o).covariance_matrix), ("q(u)", model.variational_strategy.variational_distribution.covariance_matrix),
                                 ("p(u)", model.variational_strategy.prior_distribution.covariance_matrix)):
                    bad = psd_report(torch, Mx, "%s covariance of %s" % (what, fam))
                    out.append(dict(key=["var", fam, what, s], ok=bad is None, nontrivial=True, sig="C07/%s/%s" % (what, fam), detail=str(bad), case=dict(what="var", fam=fam, seed=seed + s)))
    return out


def run(ck):
    thorough = ck.tier == "thorough"
    torch = core.setup_torch()
    import gpytorch
    rnd = random.Random(ck.seed)
    ck.rule = ("Gram matrices: every PD kernel x geometry class (spread, exact duplicates, rows 1e-9 apart, clustered at 1e-3) x lengthscale scale (1e-3..1e3) "
               "on its documented domain; growth histories: every sequence of pool indices (duplicates allowed) up to the bound from Validity.tla walked on a real "
               "exact GP per kernel: posterior / prior - posterior / marginal PSD, variances non-increasing and >= min_variance; non-trivial = all")
    ck.assumptions = ["PSD up to rounding: symmetric to 1e-10 relative, lambda_min >= -1e-8 * lambda_max in float64",
                      "CosineKernel only for d=1, CylindricalKernel inside the unit ball; noise 0.05; 7 pool points",
                      "numeric sampling in the inputs; exhaustive in kernel x geometry-class x growth-history"]
    wd = os.path.join(tlc.BUILD, PID)
    pools = [([[1, 0], [0, 1], [1, 0], [1, 1], [2, -1]], [[1, 1], [0, 2]], 1), ([[1, 2], [1, 2], [-1, 0], [0, 0], [2, 2]], [[1, 2], [3, 0]], 2)]
    L = 4 if thorough else 3
    jobs = []
    for j, (pool, test, s2) in enumerate(pools):
        mod, cfg = write_mc(wd, "p%d" % j, pool, test, s2, L)
        jobs.append(((mod, cfg), dict(name=PID + "/growth%d" % j, dump=True, check=False, workers=6, timeout=1500)))
    rs = tlc.run_many(jobs, parallel=2)
    hists = set()
    for j, r in enumerate(rs):
        ck.add_tlc(r, "Validity growth machine pool %d" % j)
        if r.violation:
            ck.model_drift("Validity.tla violates %s (the formulas themselves!)" % r.violation["name"])
        elif r.rc != 0:
            raise tlc.TLCError("TLC failed on Validity:\n" + r.stdout[-1500:])
        for st in r.states():
            if len(st["train"]) == L:
                hists.add(tuple(st["train"]))
    hists = sorted(hists)
    if not hists:
        ck.vacuous("no growth histories generated")
    ks = kernels(torch, gpytorch, 1)
    cases = []
    geoms = ["spread", "duplicates", "near-coincident", "clustered", "far-offset"]
    for kname, (_, dom) in ks.items():
        for geom in geoms:
            if geom == "far-offset" and kname not in STATIONARY:
                continue
            for ls in ((1e-3, 1e-1, 1.0, 1e1, 1e3) if thorough else (1e-2, 1.0, 1e2)):
                for d in ((1,) if dom == "d1" else (1, 3)):
                    cases.append(dict(what="gram", kernel=kname, geometry=geom, lengthscale=ls, d=d, seed=ck.seed * 100 + len(cases)))
    gk = [k for k in ks if k not in ("constant",)]
    for kname in gk:
        dom = ks[kname][1]
        sel = hists if thorough else [h for i, h in enumerate(hists) if i % 9 == (len(kname) % 9)]
        for h in sel:
            for geom in (geoms if thorough else ["duplicates", "near-coincident", "far-offset"]):
                if geom == "far-offset" and kname not in STATIONARY:
                    continue
                cases.append(dict(what="growth", kernel=kname, geometry=geom, lengthscale=0.7, d=1 if dom == "d1" else 2, history=list(h), seed=ck.seed * 100 + 7))
    rnd.shuffle(cases)
    items = [dict(cases=cases[i:i + 12]) for i in range(0, len(cases), 12)]
    results = core.pmap(_worker, items, chunksize=1)
    results += noise_floor_cases(torch, gpytorch)
    results += variational_cases(torch, gpytorch, ck.seed, thorough)
    results += variance_floor_cases(torch, gpytorch)
    ck.absorb(results)
    ck.section("replay", gram_cases=sum(1 for c in cases if c["what"] == "gram"), growth_cases=sum(1 for c in cases if c["what"] == "growth"), histories=len(hists), comparisons=len(results))


def replay(rep):
    torch = core.setup_torch()
    import gpytorch
    c = rep["case"]
    if c.get("what") in ("gram", "growth"):
        bad = [r for r in run_case(torch, gpytorch, c) if not r["ok"]]
    elif c.get("what") == "floor":
        bad = [r for r in variance_floor_cases(torch, gpytorch) if not r["ok"]]
    elif c.get("what") == "noise":
        bad = [r for r in noise_floor_cases(torch, gpytorch) if not r["ok"]]
    else:
        bad = [r for r in variational_cases(torch, gpytorch, c.get("seed", 0), False) if not r["ok"]]
    for r in bad:
        print("VIOLATION property=C07 replay=- :: %s :: %s" % (r["sig"], r["detail"]))
    if not bad:
        print("replay passed")
    return 1 if bad else 0
