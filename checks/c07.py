"""C07 - every covariance handed out is a valid covariance.
Spec: Validity.tla
  part "growth"  - data-growth machine over exact rationals: WHAT is observed (pool point + own noise level) x HOW it is added
                   (fresh model, set_train_data, get_fantasy_model incl. fantasies of fantasies, IndependentModelList) x the
                   likelihood's NOISE STRUCTURE (homoskedastic, fixed, fixed + learned, input dependent), with the noise
                   bookkeeping in code shape; invariants after every step: noise of an observation is its own, PSD prior /
                   posterior / prior - posterior / cov(before) - cov(after), monotone variances;
  part "lattice" - kernel family x discrete constructor argument x input dimension 1..5 x ARD x lengthscale scale x geometry
                   class (incl. dense clouds and grids that make indefiniteness visible), the Wendland exponent rule of the
                   compact-support kernels with the documented function evaluated exactly at rational radii."""
import itertools
import math
import os
import random

from harness import core, tlc
from checks.c04 import tla

LEVEL = "exploration"
PID = "C07"
PROCS = min(6, core.NPROC)          # shared machine: at most 6 worker processes
ALL_LIKS = ["homo", "fixed", "fixed+learned", "hetero"]
ALL_HOWS = ["fresh", "set", "fantasy", "listfantasy"]
EXACT_HOWS = ["fresh", "fantasy"]   # one representative per bookkeeping class (replace / append), see Validity.tla
LEVELS = [[1, 1], [3, 1]]           # the spec's fixed-noise levels (rationals n/d)
GROWTH_INV = ["NoiseIsOwn", "NoiseFloor", "PriorPSD", "PosteriorPSD", "ReductionPSD", "VarNonNegative"]
# real counterparts of the spec's noise parameters: fixed levels, the learned (second) noise, the homoskedastic noise
LV = {1: 0.02, 2: 0.4}
S2_REAL = 0.25
HOMO = 0.05
DIFF_TOL = 1e-6      # relative to the prior scale, for differences of covariances / variances along a history
# likelihood classes that realise each noise structure of the spec
VARIANTS = {"homo": ["gaussian", "missingobs", "mtask"], "fixed": ["fixed"], "fixed+learned": ["fixed+learned"], "hetero": ["hetero"]}


def write_mc(workdir, name, part, pool=(), test=(), s2=1, maxn=3, liks=("homo",), hows=("fresh",), maxchunk=1, arith=True,
             scales=(0,), maxdim=5, modes="{PathExact}", invariants=(), properties=()):
    os.makedirs(workdir, exist_ok=True)
    mod = "MC_Validity_" + name
    sset = lambda xs: "{" + ", ".join(tla(x) for x in xs) + "}"
    with open(os.path.join(workdir, mod + ".tla"), "w") as f:
        f.write("---- MODULE %s ----\nEXTENDS Validity\nPoolDef == %s\nTestDef == %s\nLevelsDef == %s\nLiksDef == %s\nHowsDef == %s\nScalesDef == %s\nModesDef == %s\n====\n" % (
            mod, tla(pool), tla(test), tla(LEVELS), sset(liks), sset(hows), sset(scales), modes))
    cfg = os.path.join(workdir, mod + ".cfg")
    tlc.write_cfg(cfg, spec="Spec", constants={"Part": part, "Pool": "<- PoolDef", "Test": "<- TestDef", "S2": s2, "Levels": "<- LevelsDef",
                                               "Liks": "<- LiksDef", "Hows": "<- HowsDef", "Modes": "<- ModesDef", "MaxChunk": maxchunk, "Arith": bool(arith), "MaxN": maxn,
                                               "MaxDim": maxdim, "Scales": "<- ScalesDef"},
                  invariants=list(invariants), properties=list(properties))
    return os.path.join(workdir, mod + ".tla"), cfg


# ---------------------------------------------------------------------------------------------
def families(torch, gpytorch):
    """builders of the kernel families of Validity.tla (Families): name -> f(arg, d, ard); the spec holds the argument values,
    ARD capability, documented domain and translation invariance"""
    K = gpytorch.kernels
    D = torch.float64

    def A(d, ard):
        return dict(ard_num_dims=d) if ard else {}
    return {
        "rbf": lambda a, d, ard: K.RBFKernel(**A(d, ard)),
        "matern": lambda a, d, ard: K.MaternKernel(nu=a / 2.0, **A(d, ard)),
        "rq": lambda a, d, ard: K.RQKernel(**A(d, ard)),
        "periodic": lambda a, d, ard: K.PeriodicKernel(**A(d, ard)),
        "cosine": lambda a, d, ard: K.CosineKernel(),
        "linear": lambda a, d, ard: K.LinearKernel(**A(d, ard)),
        "poly": lambda a, d, ard: K.PolynomialKernel(power=a),
        "pwpoly": lambda a, d, ard: K.PiecewisePolynomialKernel(q=a, **A(d, ard)),
        "sm": lambda a, d, ard: K.SpectralMixtureKernel(num_mixtures=a, ard_num_dims=d),
        "sdelta": lambda a, d, ard: K.SpectralDeltaKernel(num_dims=d, num_deltas=a),
        "cylindrical": lambda a, d, ard: K.CylindricalKernel(num_angular_weights=a, radial_base_kernel=K.MaternKernel(nu=2.5)),
        "rff": lambda a, d, ard: K.RFFKernel(num_samples=a, num_dims=d),
        "constant": lambda a, d, ard: K.ConstantKernel(),
        "arc": lambda a, d, ard: K.ArcKernel(K.MaternKernel(nu=2.5), **A(d, ard)),
        "hamming": lambda a, d, ard: K.HammingIMQKernel(vocab_size=a),
        "scale": lambda a, d, ard: K.ScaleKernel(K.RBFKernel(**A(d, ard))),
        "sum": lambda a, d, ard: K.RBFKernel(**A(d, ard)) + K.ScaleKernel(K.MaternKernel(nu=1.5)),
        "prod": lambda a, d, ard: K.RBFKernel(**A(d, ard)) * K.PeriodicKernel(),
        "addstruct": lambda a, d, ard: K.AdditiveStructureKernel(K.RBFKernel(), num_dims=d),
        "prodstruct": lambda a, d, ard: K.ProductStructureKernel(K.MaternKernel(nu=1.5), num_dims=d),
        "newton": lambda a, d, ard: K.NewtonGirardAdditiveKernel(K.RBFKernel(), num_dims=d, max_degree=min(a, d)),
        "rbfgrad": lambda a, d, ard: K.RBFKernelGrad(**A(d, ard)),
        "rbfgradgrad": lambda a, d, ard: K.RBFKernelGradGrad(**A(d, ard)),
        "matern52grad": lambda a, d, ard: K.Matern52KernelGrad(**A(d, ard)),
        "polygrad": lambda a, d, ard: K.PolynomialKernelGrad(power=a),
        "multitask": lambda a, d, ard: K.MultitaskKernel(K.RBFKernel(), num_tasks=2, rank=a),
        "lcm": lambda a, d, ard: K.LCMKernel([K.RBFKernel(), K.MaternKernel(nu=1.5)], num_tasks=2, rank=a),
        "gridinterp": lambda a, d, ard: K.GridInterpolationKernel(K.RBFKernel(), grid_size=8, num_dims=d, grid_bounds=[(-1.2, 1.2)] * d),
        "inducing": lambda a, d, ard: K.InducingPointKernel(K.RBFKernel(**A(d, ard)), inducing_points=torch.linspace(-1, 1, 4, dtype=D).unsqueeze(-1).repeat(1, d),
                                                           likelihood=gpytorch.likelihoods.GaussianLikelihood()),
    }


def outputs_per_point(fam, d):
    return {"rbfgrad": d + 1, "matern52grad": d + 1, "polygrad": d + 1, "rbfgradgrad": 2 * d + 1, "multitask": 2, "lcm": 2}.get(fam, 1)


# kernels walked along the growth histories: (family, argument, ARD); single-output kernels only
GROWTH_KERNELS = [("rbf", 0, False), ("rbf", 0, True), ("matern", 1, False), ("matern", 3, False), ("matern", 5, True), ("rq", 0, False),
                  ("periodic", 0, False), ("linear", 0, False), ("poly", 2, False), ("pwpoly", 0, False), ("pwpoly", 2, True), ("cosine", 0, False),
                  ("scale", 0, False), ("sum", 0, False), ("prod", 0, False), ("sm", 2, False), ("cylindrical", 3, False), ("rff", 8, False),
                  ("arc", 0, False)]
STATIONARY = {"rbf", "matern", "rq", "periodic", "pwpoly", "cosine", "scale", "sum", "prod", "sm", "sdelta"}
NO_FANTASY = {"rff"}     # "Fantasy observation updates not yet supported for models using RFFs" (documented NotImplementedError)
DOMAIN = {"cosine": "d1", "cylindrical": "unitball", "hamming": "onehot", "gridinterp": "box3"}


def geometry(torch, name, n, d, g):
    D = torch.float64
    x = torch.rand(n, d, generator=g, dtype=D) * 2 - 1
    if name == "spread":
        return x
    if name == "duplicates":
        x[1] = x[0]
        x[-1] = x[2]
        return x
    if name == "near-coincident":
        x[1] = x[0] + 1e-9
        x[3] = x[2] - 1e-9
        return x
    if name == "clustered":
        return x[:1] + 1e-3 * torch.randn(n, d, generator=g, dtype=D)
    if name == "far-offset":
        # un-normalised coordinates (raw timestamps ...): a large common offset, spread + clustered + one exact duplicate
        x[1] = x[0] + 1e-3 * torch.randn(d, generator=g, dtype=D)
        x[2] = x[0]
        return x + 1e5
    if name == "dense":
        # many points per unit volume (box of width 1.6) with exact duplicates and rows 1e-9 apart
        x = x * 0.8
        k = max(1, min(5, n // 4))
        x[-k:] = x[:k].clone()
        x[-2 * k:-k] = x[k:2 * k].clone() + 1e-9
        return x
    if name == "grid":
        m = max(2, int(round(n ** (1.0 / d))))
        ax = torch.linspace(-0.8, 0.8, m, dtype=D)
        return torch.cartesian_prod(*([ax] * d)).reshape(-1, d)
    raise ValueError(name)


def set_lengthscales(torch, kern, ls):
    """every lengthscale gets the scale `ls`; the entries of an ARD lengthscale are pairwise distinct"""
    with torch.no_grad():
        for _, mod in kern.named_modules():
            if getattr(mod, "has_lengthscale", False):
                k = mod.lengthscale.shape[-1]
                mod.lengthscale = (mod.lengthscale * 0 + ls) * (1 + 0.3 * torch.arange(k, dtype=mod.lengthscale.dtype))


def psd_report(torch, M, what, tol=1e-8, ref=None, stol=1e-10):
    """symmetric and PSD up to rounding: lambda_min >= -tol * max(lambda_max, tiny)"""
    if M.numel() == 0:
        return None
    if not torch.isfinite(M).all():
        return "%s has non-finite entries" % what
    asym = float((M - M.transpose(-1, -2)).abs().max())
    scale = max(float(M.abs().max()), float(ref or 0.0), 1e-300)
    if asym > stol * scale:
        return "%s is not symmetric (max asymmetry %.3e, scale %.3e)" % (what, asym, scale)
    ev = torch.linalg.eigvalsh((M + M.transpose(-1, -2)) / 2)
    lo, hi = float(ev.min()), float(ev.max())
    if ref is not None:      # a difference of two matrices: rounding is relative to the operands, not to the (possibly tiny) difference
        hi = max(hi, float(ref))
    if lo < -tol * max(hi, 1e-12):
        return "%s has eigenvalue %.3e (largest %.3e): not positive semi-definite up to rounding" % (what, lo, hi)
    return None


def _worker(item):
    torch = core.setup_torch()
    import gpytorch
    out, cache = [], {}
    for c in item["cases"]:
        out.extend(run_case(torch, gpytorch, c, cache))
    return out


def run_case(torch, gpytorch, c, cache=None):
    if c["what"] == "gram":
        return run_gram(torch, gpytorch, c, cache)
    if c["what"] == "noisecell":
        return run_noise_cell(torch, gpytorch, c)
    return run_chain(torch, gpytorch, c)


def pkey(md):
    """hashable form of a path record of the spec"""
    return tuple(sorted((k, bool(v)) for k, v in md.items()))


P_EXACT = pkey(dict(fast=False, lazy=False, cg=False, detach=True, steps=True))
P_FAST = pkey(dict(fast=True, lazy=False, cg=False, detach=True, steps=True))


def norm_path(md):
    """a computational path of Validity.tla (Paths): fast_pred_var x lazy test/test block x CG x detach_test_caches"""
    if isinstance(md, dict):
        return dict(fast=bool(md["fast"]), lazy=bool(md["lazy"]), cg=bool(md["cg"]), detach=bool(md["detach"]), steps=bool(md.get("steps", not md["cg"])))
    return dict(fast=md == "fast", lazy=False, cg=False, detach=True, steps=True)


def path_name(p):
    return "%s/%s/%s/%s" % ("fast" if p["fast"] else "solve", "lazy" if p["lazy"] else "eager", "cg" if p["cg"] else "chol", "detach" if p["detach"] else "graph")


class path_settings(object):
    """the settings that select the path: small problems take the branches of large ones by lowering the size thresholds"""

    def __init__(self, torch, path):
        from contextlib import ExitStack
        from gpytorch import settings
        self.stack = ExitStack()
        self.ctx = [settings.fast_pred_var(path["fast"]), settings.detach_test_caches(path["detach"]),
                    torch.no_grad() if path["detach"] else torch.enable_grad()]
        if path["lazy"]:
            self.ctx.append(settings.max_eager_kernel_size(0))        # joint size > threshold: the test/test block stays lazy
        if path["cg"]:
            # size > max_cholesky_size: CG solves / Lanczos roots; run to convergence (the systems have at most 6 rows)
            self.ctx += [settings.max_cholesky_size(0), settings.eval_cg_tolerance(1e-13), settings.cg_tolerance(1e-13), settings.max_cg_iterations(200),
                         settings.max_root_decomposition_size(100)]

    def __enter__(self):
        for c in self.ctx:
            self.stack.enter_context(c)
        return self

    def __exit__(self, *a):
        return self.stack.__exit__(*a)


def in_domain(torch, dom, x):
    if dom == "unitball":
        return x / (1.01 * max(1.0, float(x.norm(dim=-1).max())))
    if dom == "box3":
        return x / max(1.0, float(x.abs().max()))
    return x


def kname(fam, arg, ard):
    return "%s%s%s" % (fam, "[%d]" % arg if (arg or fam == "pwpoly") else "", "-ard" if ard else "")


# ---------------------------------------------------------------------------------------------
def run_gram(torch, gpytorch, c, cache=None):
    """one cell of the kernel lattice of Validity.tla: the Gram matrix on its geometry is symmetric PSD; compact-support
    cells: the kernel is the documented function with the exponent the spec requires (exact values from TLC)"""
    D = torch.float64
    fam, arg, d, ard, geom, dom = c["fam"], c["arg"], c["d"], c["ard"], c["geom"], c["dom"]
    ls = 10.0 ** c["ls"]
    name = kname(fam, arg, ard)
    desc = "%s geometry=%s lengthscale-scale=%g d=%d" % (name, geom, ls, d)
    g = torch.Generator().manual_seed(c["seed"])
    res = []

    def rec(what, bad, sample=False, sig=None):
        r = dict(key=[name, geom, c["ls"], d, what], ok=bad is None, nontrivial=True, sig=sig or "C07/%s/%s/%s" % (what, name, geom),
                 detail="%s: %s" % (desc, bad), case=c)
        if sample:
            r["sample"] = dict(case=desc)
        res.append(r)
    key = (fam, arg, d, ard, c["kseed"])
    if cache is not None and key in cache:       # the cells of one kernel configuration share the kernel object (same seed)
        kern = cache[key]
    else:
        torch.manual_seed(c["kseed"])
        ok, kern = core.guarded(lambda: families(torch, gpytorch)[fam](arg, d, ard).to(D))
        if not ok:
            rec("gram-raises", "constructor: %s" % kern)
            return res
        if cache is not None:
            cache.clear()
            cache[key] = kern
    set_lengthscales(torch, kern, ls)
    outs = outputs_per_point(fam, d)
    n = max(4, c["n"] // outs) if geom in ("dense", "grid") else max(4, 10 // (1 if outs <= 2 else outs))
    if dom == "onehot":
        # fixed-length sequences (length d) over a vocabulary of size arg, one-hot encoded and flattened
        cat = torch.randint(0, arg, (n, d), generator=g)
        if geom != "spread":
            cat[1] = cat[0]
            cat[-1] = cat[2]
        x = torch.nn.functional.one_hot(cat, arg).reshape(n, -1).to(D)
    else:
        x = geometry(torch, geom, n, d, g)
        if geom in ("dense", "grid"):
            x = x * ls           # the point density is relative to the lengthscale (support radius); the spec gives these cells scale 0
        x = in_domain(torch, dom, x)
    with torch.no_grad():
        ok, Kd = core.guarded(lambda: kern(x).to_dense())
    if not ok:
        rec("gram-raises", Kd)
        return res
    rec("gram", psd_report(torch, Kd, "Gram matrix K(x,x) of %d points" % x.shape[0]), sample=True)
    # the joint over [x1; x2] assembled from separately requested blocks (what a prediction above max_eager_kernel_size does): symmetric PSD too
    u = max(1, x.shape[0] // 6)
    # K(x1,x2) and K(x2,x1) are separate floating-point computations: the library's distances go through the quadratic expansion
    # |a|^2 + |b|^2 - 2ab of the SCALED points, so a distance near 0 comes out as sqrt(eps) * |x / lengthscale| (1e-8 at unit scale, 1e-5 for
    # lengthscale 1e-3) and a kernel with a kink at 0 (Matern-1/2, Wendland q = 0) passes that on to the entry
    allow = max(1e-7, 8 * 1.5e-8 * float(x.abs().max()) / min(ls, 1.0))
    was_training = kern.training
    kern.eval()                  # cross-covariance blocks are requested by predictions (InducingPointKernel refuses x1 != x2 in training mode)
    for (a, b) in c.get("splits", []):
        x1, x2 = x[:a * u], x[a * u:(a + b) * u]
        with torch.no_grad():
            ok, J = core.guarded(lambda: torch.cat([torch.cat([kern(x1).to_dense(), kern(x1, x2).to_dense()], -1),
                                                    torch.cat([kern(x2, x1).to_dense(), kern(x2).to_dense()], -1)], -2))
        what = "assembled-%s" % ("equal-blocks" if a == b else "unequal-blocks")
        if not ok:
            rec(what + "-raises", J, sig="C07/%s/%s/%s/raises" % (what, name, geom))
            continue
        rec(what, psd_report(torch, J, "joint covariance of %d + %d points assembled from the blocks K(x1,x1), K(x1,x2), K(x2,x1), K(x2,x2)" % (x1.shape[0], x2.shape[0]),
                             stol=allow, tol=allow))
    kern.train(was_training)     # (a mode change drops the evaluation-mode caches)
    if fam == "pwpoly" and geom == "dense" and c.get("phi"):
        # PD certificate: with j = floor(d/2) + q + 1 the documented function is positive definite in R^d; the kernel must BE
        # that function (a smaller exponent is indefinite in R^d although sampled Gram matrices look fine for q >= 2)
        lsv = kern.lengthscale.detach().reshape(-1)
        lsv = lsv.expand(d) if lsv.numel() == 1 else lsv
        worst = None
        for (a, b), (pn, pd) in zip(c["radii"], c["phi"]):
            x1 = torch.zeros(1, d, dtype=D)
            x2 = (lsv * (a / b) / math.sqrt(d)).reshape(1, d)
            with torch.no_grad():
                ok, v = core.guarded(lambda: float(kern(x1, x2).to_dense()))
            if not ok:
                worst = "raised %s" % v
                break
            if abs(v - pn / pd) > 1e-12:
                worst = "k(r = %d/%d) = %.15g but the documented function with j = floor(%d/2) + %d + 1 = %d is %d/%d = %.15g" % (a, b, v, d, arg, c["j"], pn, pd, pn / pd)
                break
        rec("support", worst, sig="C07/support/%s/d%d" % (name, d))
    return res


# ---------------------------------------------------------------------------------------------
def hetero_noise_model(torch, gpytorch, x):
    """noise as a function of the input: a small GP through the level of every pool row (HLevel of the spec)"""
    D = torch.float64
    lik = gpytorch.likelihoods.GaussianLikelihood().to(D)

    class NM(gpytorch.models.ExactGP):
        def __init__(s_):
            lv = torch.tensor([LV[(r % len(LV)) + 1] for r in range(x.shape[0])], dtype=D)
            super().__init__(x, torch.log(torch.expm1(lv)), lik)
            s_.mean_module = gpytorch.means.ConstantMean()
            s_.covar_module = gpytorch.kernels.RBFKernel()

        def forward(s_, xx):
            return gpytorch.distributions.MultivariateNormal(s_.mean_module(xx), s_.covar_module(xx))
    nm = NM().to(D)
    with torch.no_grad():
        lik.noise = 0.05
        nm.covar_module.lengthscale = 0.5
        nm.mean_module.constant = math.log(math.expm1(0.1))
    nm.eval()
    return nm


def make_lik(torch, gpytorch, variant, noise, nm):
    L = gpytorch.likelihoods
    D = torch.float64
    if variant == "gaussian":
        lik = L.GaussianLikelihood()
    elif variant == "missingobs":
        lik = L.GaussianLikelihoodWithMissingObs()
    elif variant == "mtask":
        lik = L.MultitaskGaussianLikelihood(num_tasks=2)
    elif variant == "fixed":
        lik = L.FixedNoiseGaussianLikelihood(noise=noise.clone())
    elif variant == "fixed+learned":
        lik = L.FixedNoiseGaussianLikelihood(noise=noise.clone(), learn_additional_noise=True)
    elif variant == "hetero":
        from gpytorch.likelihoods.gaussian_likelihood import _GaussianLikelihoodBase
        from gpytorch.likelihoods.noise_models import HeteroskedasticNoise
        lik = _GaussianLikelihoodBase(noise_covar=HeteroskedasticNoise(nm))
    else:
        raise core.Machinery("unknown likelihood variant %r" % variant)
    lik = lik.to(D)
    with torch.no_grad():
        if variant in ("gaussian", "missingobs", "mtask"):
            lik.noise = HOMO
        if variant == "mtask":
            lik.task_noises = torch.tensor([0.04, 1.5], dtype=D)      # pairwise distinct, below and above the signal variance
        if variant == "fixed+learned":
            lik.second_noise = S2_REAL
    return lik


def run_chain(torch, gpytorch, c):
    """one growth history of Validity.tla walked on a real exact GP: after EVERY step the posterior covariance is PSD,
    prior - posterior and cov(before) - cov(after) are PSD, no variance increased, the marginal is PSD, variances >= floor"""
    from gpytorch import settings
    D = torch.float64
    fam, arg, ard = c["kernel"]
    geom, d, lik_kind, variant = c["geometry"], c["d"], c["lik"], c["variant"]
    path = norm_path(c.get("mode"))
    obs, hist, fast = c["obs"], c["hist"], path["fast"]
    plain = not (path["lazy"] or path["cg"] or not path["detach"])
    name = kname(fam, arg, ard)
    dom = DOMAIN.get(fam, "any")
    fixedkind = lik_kind in ("fixed", "fixed+learned")
    mt = variant == "mtask"
    hows = "+".join("%s%d" % (h, m) for h, m in hist)
    desc = "%s geometry=%s d=%d likelihood=%s%s obs=%s history=%s" % (name, geom, d, variant, (" fast_pred_var" if fast else "") if plain else " path=" + path_name(path), obs, hows)
    res = []

    def rec(what, bad, step=0):
        res.append(dict(key=[name, geom, variant, fast if plain else path_name(path), repr(obs), hows, step, what], ok=bad is None, nontrivial=True,
                        sig=("C07/%s/%s/%s" % (what, variant, "+".join(sorted(set(h for h, _ in hist[:max(step, 1)])))) if plain else
                             "C07/%s/%s/%s/%s" % (what, variant, "fantasy" if any("fantasy" in h for h, _ in hist[:max(step, 1)]) else "plain", path_name(path))),
                        detail="%s: %s" % (desc, bad), case=c))
    # iterative (CG / Lanczos) paths: run to convergence, compared at the tolerance of the iterative paths (2e-5)
    # (CG solves the columns of K(X, x*) independently: the asymmetry of the result is its residual, observed up to 3e-6 relative)
    ptol, stol, dtol = (2e-5, 1e-4, 2e-5) if path["cg"] else (1e-8, 1e-10, DIFF_TOL)
    g = torch.Generator().manual_seed(c["seed"])
    torch.manual_seed(c["seed"])
    kern = families(torch, gpytorch)[fam](arg, d, ard).to(D)
    set_lengthscales(torch, kern, 0.7)
    covar = gpytorch.kernels.MultitaskKernel(kern, num_tasks=2, rank=1).to(D) if mt else kern
    n = 7
    x = geometry(torch, geom, n, d, g)
    xs = torch.cat([torch.rand(3, d, generator=g, dtype=D) * 2 - 1 + (1e5 if geom == "far-offset" else 0.0), x[:1], x[1:2] + 0.05])
    x, xs = in_domain(torch, dom, x), in_domain(torch, dom, xs)
    N = len(obs)
    rows = torch.tensor([p - 1 for p, _ in obs])
    X = x[rows]
    Y = torch.randn(N, 2, generator=g, dtype=D)
    NZ = torch.tensor([LV[l] for _, l in obs], dtype=D)
    test_noise = torch.full((xs.shape[0],), LV[1], dtype=D)
    nm = hetero_noise_model(torch, gpytorch, x) if variant == "hetero" else None

    class M(gpytorch.models.ExactGP):
        def __init__(s_, xx, yy, lk, cv, multi):
            super().__init__(xx, yy, lk)
            s_.multi = multi
            s_.mean_module = gpytorch.means.MultitaskMean(gpytorch.means.ZeroMean(), num_tasks=2) if multi else gpytorch.means.ZeroMean()
            s_.covar_module = cv

        def forward(s_, xx):
            if s_.multi:
                return gpytorch.distributions.MultitaskMultivariateNormal(s_.mean_module(xx), s_.covar_module(xx))
            return gpytorch.distributions.MultivariateNormal(s_.mean_module(xx), s_.covar_module(xx))

    def targets(a, b, multi):
        return Y[a:b] if multi else Y[a:b, 0]

    def predict(model):
        model.eval()
        model.likelihood.eval()
        o = model(xs)
        o.covariance_matrix
        lk = model.likelihood
        mo = lk(o, noise=test_noise) if fixedkind else lk(o, xs) if variant == "hetero" else lk(o)
        return tuple(t.detach().clone() for t in (o.covariance_matrix, o.variance, o.stddev, mo.covariance_matrix))

    with torch.no_grad():
        ok, prior = core.guarded(lambda: covar(xs).to_dense())
    if not ok:
        rec("chain-raises", "prior: %s" % prior)
        return res
    rec("prior", psd_report(torch, prior, "prior covariance"))
    pscale = float(prior.abs().max())
    prev_cov = prior
    model, cur = None, 0
    for step, (how, m) in enumerate(hist, 1):
        a, b, cur = cur, cur + m, cur + m

        def apply():
            if how == "fresh":
                return M(X[:b], targets(0, b, mt), make_lik(torch, gpytorch, variant, NZ[:b], nm), covar, mt).to(D)
            if how == "set":
                if fixedkind:
                    model.likelihood.noise = NZ[:b].clone()
                model.set_train_data(X[:b], targets(0, b, mt), strict=False)
                return model
            if how == "fantasy":
                return model.get_fantasy_model(X[a:b], targets(a, b, mt), **(dict(noise=NZ[a:b].clone()) if fixedkind else {}))
            if how == "listfantasy":
                # the model at hand as the first member of an IndependentModelList with a companion of another noise structure
                cvar = "gaussian" if fixedkind else "fixed+learned"
                comp = M(X[:a], Y[:a, 1], make_lik(torch, gpytorch, cvar, NZ[:a], None), gpytorch.kernels.RBFKernel().to(D), False).to(D)
                comp.eval()
                comp.likelihood.eval()
                with settings.fast_pred_var(fast):
                    comp(xs)
                ml = gpytorch.models.IndependentModelList(model, comp)
                nz = [NZ[a:b].clone() if fixedkind else None, None if fixedkind else NZ[a:b].clone()]
                return ml.get_fantasy_model([X[a:b], X[a:b]], [targets(a, b, mt), Y[a:b, 1]], noise=nz).models[0]
            raise core.Machinery("unknown step %r" % how)
        with path_settings(torch, path):       # the settings are in force for the update and the prediction (as a user sets them globally)
            ok, model2 = core.guarded(apply)
            if ok:
                model = model2
                ok, r = core.guarded(lambda: predict(model))
            else:
                r = model2
        where = "step %d (%s %d observation(s), %d in total)" % (step, how, m, b)
        if ok and path["fast"] and path["cg"]:
            # LOVE (Lanczos root of (K + noise)^-1 from one random probe) is exact only if the Krylov space is the whole space:
            # K + noise with pairwise distinct eigenvalues.  Degenerate spectra (e.g. K + s2 I = c I for a compact-support kernel
            # on separated points, thrice the same row) are outside what this path promises: the history stops there.
            def spectrum():
                with torch.no_grad():
                    tr = model.train_inputs
                    d0 = model.forward(*tr)
                    A = model.likelihood(d0, *tr) if variant == "hetero" else model.likelihood(d0)
                    return torch.linalg.eigvalsh(A.covariance_matrix)
            ok2, ev = core.guarded(spectrum)
            if not ok2:
                rec("chain-raises", "%s: train covariance: %s" % (where, ev), step)
                return res
            if ev.numel() > 1 and float((ev[1:] - ev[:-1]).min()) < 1e-4 * float(ev.max()):
                return res
        if not ok:
            rec("chain-raises", "%s: %s" % (where, r), step)
            return res
        cov, var, sd, mcov = r
        bad = psd_report(torch, cov, "posterior covariance after %s" % where, ptol, stol=stol)
        rec("posterior", bad, step)
        if bad:
            return res
        # differences of covariances: distances of nearly coincident rows carry sqrt(eps) ~ 1e-8 of rounding (r = sqrt(squared
        # distance)), which kernels with a cusp at r = 0 pass on to the entries: 1e-6 relative to the prior is "up to rounding" here
        rec("reduction", psd_report(torch, prior - cov, "prior - posterior covariance after %s" % where, dtol, ref=pscale, stol=stol), step)
        rec("marginal", psd_report(torch, mcov, "marginal covariance after %s" % where, ptol, stol=stol), step)
        # conditioning never adds uncertainty: no posterior variance exceeds the prior variance at the same point (every path)
        inc0 = float((torch.diagonal(cov) - torch.diagonal(prior)).max())
        rec("variance-below-prior", None if inc0 <= dtol * max(pscale, 1e-12) else "%s: a posterior variance EXCEEDS the prior variance by %.3e" % (where, inc0), step)
        if path["steps"]:                      # clauses that compare two posteriors: on the paths that compute the denotation (Validity.tla Path.steps)
            rec("step-reduction", psd_report(torch, prev_cov - cov, "cov(before) - cov(after) for %s" % where, DIFF_TOL, ref=pscale), step)
            inc = float((torch.diagonal(cov) - torch.diagonal(prev_cov)).max())
            rec("variance-monotone", None if inc <= DIFF_TOL * max(pscale, 1e-12) else "%s: a posterior variance INCREASED by %.3e by adding observations" % (where, inc), step)
        mv = settings.min_variance.value(var.dtype)
        rec("variance-floor", None if (float(var.min()) >= mv and torch.isfinite(sd).all() and float((sd - var.sqrt()).abs().max()) <= 1e-12) else
            "%s: reported variance %.3e below min_variance %.1e or stddev not its square root" % (where, float(var.min()), mv), step)
        prev_cov = cov
    return res


# ---------------------------------------------------------------------------------------------
NOISE_T, NOISE_N = 3, 4
BOUND_VALUE = {"default": 1e-4, "custom": 1e-2, "interval": 2e-2}
RAW_VALUES = {"edge": (-1e6, -30.0), "mid": (0.0,), "large": (30.0,)}


def run_noise_cell(torch, gpytorch, c):
    """one cell of part "noise" of Validity.tla: the noise the likelihood ADDS (marginal - latent covariance; variance of
    p(y | f)) minus (number of constrained components switched on) * (the lower bound the constraint reports) is PSD"""
    import warnings
    from gpytorch.constraints import GreaterThan, Interval
    from gpytorch.distributions import MultivariateNormal, MultitaskMultivariateNormal
    L = gpytorch.likelihoods
    D = torch.float64
    sh, rawc, bc = c["shape"], c["raw"], c["bound"]
    fam, T, n = sh["lik"], NOISE_T, NOISE_N
    mt = fam == "multitask"
    sw = "glob%d-task%d-rank%d" % (sh["glob"], sh["task"], sh["rank"]) if mt else "-"
    tag = fam if not mt else "multitask/" + sw
    res = []

    def rec(what, bad, raw=None, extra=""):
        res.append(dict(key=["noisecell", tag, bc, rawc, raw, what, extra], ok=bad is None, nontrivial=True, sig="C07/%s/%s" % (what, tag),
                        detail="%s constraint=%s raw=%s %s: %s" % (tag, bc, raw, extra, bad), case=c))
    floor = c["floor"][0] / c["floor"][1]
    if c["valid"] and abs(floor - c["ncon"] * BOUND_VALUE[bc]) > 1e-15:
        raise core.Machinery("bound classes of Validity.tla and of the replay differ: %r" % c)

    def constraint():
        return None if bc == "default" else GreaterThan(BOUND_VALUE[bc]) if bc == "custom" else Interval(BOUND_VALUE[bc], 0.5)

    g = torch.Generator().manual_seed(c["seed"])
    x = torch.rand(n, 2, generator=g, dtype=D)
    fixedvec = torch.tensor([1e-12, 0.02, 0.3, 1.0] if rawc == "edge" else [0.05, 0.02, 0.3, 1.0], dtype=D)

    def build(raw, idx=None):
        torch.manual_seed(c["seed"])
        kw = {} if bc == "default" else dict(noise_constraint=constraint())
        if fam == "gaussian":
            return L.GaussianLikelihood(**kw)
        if fam == "missingobs":
            return L.GaussianLikelihoodWithMissingObs(**kw)
        if fam in ("fixed", "fixed+learned"):
            return L.FixedNoiseGaussianLikelihood(noise=fixedvec.clone(), learn_additional_noise=fam == "fixed+learned", **kw)
        if fam in ("dirichlet", "dirichlet+learned"):
            return L.DirichletClassificationLikelihood(torch.tensor([0, 1, 2, 1]), alpha_epsilon=0.01, learn_additional_noise=fam == "dirichlet+learned", dtype=D, **kw)
        if fam == "hetero":
            from gpytorch.likelihoods.gaussian_likelihood import _GaussianLikelihoodBase
            from gpytorch.likelihoods.noise_models import HeteroskedasticNoise
            nl = (L.GaussianLikelihood() if idx is None else L.MultitaskGaussianLikelihood(num_tasks=2)).to(D)
            rawcol = raw * (1 + 0.1 * torch.arange(n, dtype=D)) if raw < 0 else raw + 0.1 * torch.arange(n, dtype=D)
            bs = torch.Size([]) if idx is None else torch.Size([2])

            class NM(gpytorch.models.ExactGP):       # a noise model whose prediction is the raw value (times 1, 1.1, ...)
                def __init__(s_):
                    # (noise_indices=idx: a two-output noise model; output idx is the raw noise level, the other one an auxiliary positive quantity)
                    super().__init__(x, rawcol if idx is None else torch.stack([rawcol if k == idx else torch.full_like(rawcol, 5.0) for k in range(2)], -1), nl)
                    s_.mean_module = gpytorch.means.ZeroMean(batch_shape=bs)
                    s_.covar_module = gpytorch.kernels.RBFKernel(batch_shape=bs)

                def forward(s_, xx):
                    d_ = MultivariateNormal(s_.mean_module(xx), s_.covar_module(xx))
                    return d_ if idx is None else MultitaskMultivariateNormal.from_batch_mvn(d_)
            nm = NM().to(D)
            nm.covar_module.lengthscale = 1e-3       # interpolates its targets at the training inputs
            if idx is not None:
                kw = dict(kw, noise_indices=idx)
            return _GaussianLikelihoodBase(noise_covar=HeteroskedasticNoise(nm, **kw))
        if mt:
            return L.MultitaskGaussianLikelihood(num_tasks=T, rank=sh["rank"], has_global_noise=sh["glob"], has_task_noise=sh["task"], **kw)
        raise core.Machinery("unknown likelihood family %r" % fam)

    if not c["valid"]:
        with warnings.catch_warnings():
            warnings.simplefilter("ignore")
            ok, r = core.guarded(lambda: build(0.0))
        rec("noise-switches", None if (not ok and r.startswith("ValueError")) else "a likelihood without any noise term was not refused: %s" % (r,))
        return res
    A = torch.randn(n * (T if mt else 1), n * (T if mt else 1) + 2, generator=g, dtype=D)
    Kf = A @ A.T / A.shape[1] + 0.5 * torch.eye(A.shape[0], dtype=D)
    for raw in RAW_VALUES[rawc]:
        # (hetero: the optional noise_indices argument is a dimension of the replay - None = single-output noise model, k = output k of a
        #  two-output noise model is the noise level)
        for il in ((True, False) if mt else (None, "idx0", "idx1") if fam == "hetero" else (None,)):
            for training in (False, True):
                idx = int(il[3:]) if isinstance(il, str) else None
                extra = "%s%s" % ("train" if training else "eval", "" if il is None else " noise_indices=%d" % idx if idx is not None else " interleaved=%s" % il)

                def evaluate():
                    lik = build(raw, idx).to(D)
                    with torch.no_grad():
                        for pn, p_ in lik.named_parameters():
                            if pn.split(".")[-1] in ("raw_noise", "raw_task_noises") and "noise_model" not in pn:
                                k = torch.arange(p_.numel(), dtype=D).reshape(p_.shape)
                                p_.copy_(raw * (1 + 0.1 * k) if raw < 0 else raw + 0.1 * k)
                    lik.train(training)
                    # the lower bounds the constraints of the components that are switched on report
                    lbs = []
                    for mn, mod in lik.named_modules():
                        if "noise_model" in mn:
                            continue
                        for pn in ("raw_noise", "raw_task_noises"):      # (one constraint object may serve two parameters: ask per parameter)
                            if pn in mod._parameters and mod.constraint_for_parameter_name(pn) is not None:
                                lbs.append(float(torch.as_tensor(mod.constraint_for_parameter_name(pn).lower_bound).min()))
                    if fam == "hetero":
                        lbs.append(float(lik.noise_covar._noise_constraint.lower_bound))
                    stored = lik.noise_covar.noise.detach().clone() if sh["fixed"] else None
                    with torch.no_grad():
                        if mt:
                            f = MultitaskMultivariateNormal(torch.zeros(n, T, dtype=D), Kf, interleaved=il)
                            smp = torch.zeros(n, T, dtype=D)
                        elif fam.startswith("dirichlet"):
                            f = MultivariateNormal(torch.zeros(3, n, dtype=D), Kf.expand(3, n, n))
                            smp = torch.zeros(3, n, dtype=D)
                        else:
                            f = MultivariateNormal(torch.zeros(n, dtype=D), Kf)
                            smp = torch.zeros(n, dtype=D)
                        args = (x,) if fam == "hetero" else ()
                        marg, cond = lik(f, *args), lik(smp, *args)
                        return lbs, stored, (marg.covariance_matrix - f.covariance_matrix).clone(), cond.variance.clone()
                with warnings.catch_warnings():
                    warnings.simplefilter("ignore")
                    ok, r = core.guarded(evaluate)
                if not ok:
                    rec("noise-raises", r, raw, extra)
                    continue
                lbs, stored, added, cvar = r
                # (the constraint keeps its bounds in float32 buffers: the bound it REPORTS is the float32 rounding of the argument)
                if len(lbs) != c["ncon"] or any(abs(b - BOUND_VALUE[bc]) > 1e-6 * BOUND_VALUE[bc] for b in lbs):
                    rec("noise-bound-reported", "the constraints of the noise terms switched on report lower bounds %s, expected %d x %g" % (lbs, c["ncon"], BOUND_VALUE[bc]), raw, extra)
                    continue
                floor = float(sum(lbs))
                rem = added - floor * torch.eye(added.shape[-1], dtype=D)
                if stored is not None:
                    min_fixed = gpytorch.settings.min_fixed_noise.value(D)
                    if float(stored.min()) < min_fixed:
                        rec("noise-floor", "stored fixed noise %.3e below min_fixed_noise %.1e" % (float(stored.min()), min_fixed), raw, extra)
                        continue
                    rem = rem - torch.diag_embed(stored)
                bad = None
                if not torch.isfinite(added).all():
                    bad = "noise added is not finite"
                else:
                    asym = float((added - added.transpose(-1, -2)).abs().max())
                    ev = float(torch.linalg.eigvalsh((rem + rem.transpose(-1, -2)) / 2).min())
                    dmin = float(torch.diagonal(added, dim1=-1, dim2=-2).min())
                    if asym > 1e-12 or ev < -1e-12 * max(1.0, float(added.abs().max())):
                        bad = ("noise added to the marginal (smallest diagonal entry %.3e) is below the lower bound the constraints report: %d x %g%s; "
                               "lambda_min(added - bound) = %.3e" % (dmin, c["ncon"], BOUND_VALUE[bc], " + the stored fixed noise" if stored is not None else "", ev))
                    elif c["tight"] and raw <= -1e3 and float((added - floor * torch.eye(added.shape[-1], dtype=D)).abs().max()) > 1e-12:
                        bad = "at the edge of the raw range the noise added is not the bound itself: %s vs %g" % (torch.diagonal(added, dim1=-1, dim2=-2).reshape(-1)[:4].tolist(), floor)
                rec("noise-floor", bad, raw, extra + " marginal")
                # variance of p(y | f)
                vfl = floor + (stored if stored is not None else 0.0)
                low = float((cvar.reshape(-1) - (vfl.reshape(-1) if stored is not None else vfl)).min()) if stored is not None and stored.numel() == cvar.numel() else float(cvar.min()) - floor
                bad2 = None if (torch.isfinite(cvar).all() and low >= -1e-12 * max(1.0, float(cvar.abs().max()))) else \
                    "variance of p(y|f) (min %.3e) is below the lower bound the constraints report (%d x %g%s)" % (float(cvar.min()), c["ncon"], BOUND_VALUE[bc], " + the stored fixed noise" if stored is not None else "")
                rec("noise-floor", bad2, raw, extra + " p(y|f)")
    return res


def noise_floor_cases(torch, gpytorch):
    """the noise a likelihood adds is at least its constraint's lower bound, whatever the raw value"""
    D = torch.float64
    out = []
    L = gpytorch.likelihoods
    from gpytorch.constraints import GreaterThan, Interval
    for name, mk in (("gaussian", lambda: L.GaussianLikelihood()), ("gaussian-custom", lambda: L.GaussianLikelihood(noise_constraint=GreaterThan(0.03))),
                     ("gaussian-interval", lambda: L.GaussianLikelihood(noise_constraint=Interval(0.02, 0.5))),
                     ("multitask", lambda: L.MultitaskGaussianLikelihood(num_tasks=2, rank=0, noise_constraint=GreaterThan(0.01)))):
        lik = mk().to(D)
        for raw in (-1e6, -50.0, 0.0, 50.0):
            with torch.no_grad():
                for n_, p in lik.named_parameters():
                    if "noise" in n_:
                        p.fill_(raw)
            t = 2 if name == "multitask" else 0
            mean = torch.zeros(3, 2, dtype=D) if t else torch.zeros(3, dtype=D)
            dist = (gpytorch.distributions.MultitaskMultivariateNormal(mean, torch.eye(6, dtype=D)) if t else gpytorch.distributions.MultivariateNormal(mean, torch.eye(3, dtype=D)))
            lik.eval()
            added = torch.diagonal(lik(dist).covariance_matrix - dist.covariance_matrix)
            lbs = [float(c.lower_bound.min()) for n_, c in lik.named_constraints() if "noise" in n_]
            lb = min(lbs) if name != "multitask" else sum(sorted(lbs)[:2]) if len(lbs) > 1 else lbs[0]
            bad = None if (torch.isfinite(added).all() and float(added.min()) >= min(lbs) - 1e-15) else "noise added %s is below the constraint's lower bound %s (raw=%g)" % (added.tolist(), lbs, raw)
            out.append(dict(key=["noise-floor", name, raw], ok=bad is None, nontrivial=True, sig="C07/noise-floor/%s" % name, detail=str(bad), case=dict(what="noise", name=name, raw=raw)))
    return out


def variance_floor_cases(torch, gpytorch):
    """reported variances / stddevs are real and at least the configured minimum variance, for dense and lazy
    covariances whose diagonal is tiny or slightly negative through rounding, under default and custom min_variance"""
    from gpytorch import settings
    from linear_operator import to_linear_operator
    from gpytorch.distributions import MultivariateNormal, MultitaskMultivariateNormal
    D = torch.float64
    out = []
    for rep in ("dense", "lazy"):
        # a dense covariance must be positive definite to construct the distribution at all; a lazy one may carry a
        # diagonal that is zero or slightly negative through rounding
        diag = torch.tensor([1e-30, 1e-20, 3e-11, 1e-7, 1.0] if rep == "dense" else [-1e-12, 0.0, 1e-20, 3e-11, 1.0], dtype=D)
        C = torch.diag(diag)
        mk = (lambda: C.clone()) if rep == "dense" else (lambda: to_linear_operator(C.clone()))
        for mv in (None, 1e-3):
            for cls in ("mvn", "mtmvn"):
                from contextlib import nullcontext
                with (settings.min_variance(double_value=mv) if mv else nullcontext()):
                    floor = settings.min_variance.value(D)
                    if cls == "mvn":
                        dist = MultivariateNormal(torch.zeros(5, dtype=D), mk())
                    else:
                        Cb = torch.block_diag(C, C)
                        dist = MultitaskMultivariateNormal(torch.zeros(5, 2, dtype=D), Cb if rep == "dense" else to_linear_operator(Cb))
                    ok, r = core.guarded(lambda: (dist.variance.clone(), dist.stddev.clone(), [t.clone() for t in dist.confidence_region()]))
                if not ok:
                    bad = "raised %s" % r
                else:
                    var, sd, (lo, hi) = r
                    bad = None
                    if not (torch.isfinite(var).all() and torch.isfinite(sd).all()) or float(var.min()) < floor:
                        bad = "variance %s below the minimum variance %.1e (or not finite)" % (var.reshape(-1)[:5].tolist(), floor)
                    elif float((sd - var.sqrt()).abs().max()) > 1e-15 or float((hi - lo - 4 * sd).abs().max()) > 1e-12:
                        bad = "stddev / confidence_region inconsistent with the variance"
                out.append(dict(key=["floor", rep, mv, cls], ok=bad is None, nontrivial=True, sig="C07/variance-floor/%s/%s" % (cls, rep), detail=str(bad),
                                case=dict(what="floor")))
    return out


def variational_cases(torch, gpytorch, seed, thorough):
    """prior / variational / marginal covariances of SVGP models are PSD"""
    from checks import gpmodels as G
    out = []
    for fam in G.VAR_FAMILIES:
        for s in range(3 if thorough else 1):
            x, y, xs = G.data(seed + s)
            model, lik = G.build(fam, x, y)
            g = torch.Generator().manual_seed(seed + s)
            model.eval()
            lik.eval()
            with torch.no_grad():
                model(xs)
                for p in model.variational_strategy._variational_distribution.parameters():
                    p.add_(0.3 * torch.randn(p.shape, generator=g, dtype=p.dtype))
                model.train()
                model.eval()
                o = model(xs)
                for what, Mx in (("variational", o.covariance_matrix), ("variational-marginal", lik(o).covariance_matrix), ("q(u)", model.variational_strategy.variational_distribution.covariance_matrix),
                                 ("p(u)", model.variational_strategy.prior_distribution.covariance_matrix)):
                    bad = psd_report(torch, Mx, "%s covariance of %s" % (what, fam))
                    out.append(dict(key=["var", fam, what, s], ok=bad is None, nontrivial=True, sig="C07/%s/%s" % (what, fam), detail=str(bad), case=dict(what="var", fam=fam, seed=seed + s)))
    return out


def run(ck):
    thorough = ck.tier == "thorough"
    torch = core.setup_torch()
    import gpytorch
    rnd = random.Random(ck.seed)
    ck.rule = ("kernel lattice (Validity.tla part lattice): every kernel family x every value of its discrete constructor argument x d in 1..5 x ARD / shared "
               "lengthscale x lengthscale scale x geometry class (spread, exact duplicates, rows 1e-9 apart, clustered at 1e-3, offset 1e5, dense cloud and regular "
               "grid of ~100 points per support volume) on its documented domain: Gram matrix symmetric PSD; compact-support cells also equal the documented "
               "function at exact rational radii.  Growth histories (part growth): every sequence of (pool point, own noise level) x every way of adding it in "
               "chunks of 1..2 (fresh model, set_train_data, get_fantasy_model, IndependentModelList.get_fantasy_model) x noise structure (homoskedastic, fixed, "
               "fixed + learned, input dependent) up to the bound, walked on real exact GPs: after every step posterior / prior - posterior / "
               "cov(before) - cov(after) / marginal PSD, variances non-increasing, never above the prior variance and >= min_variance.  Computational paths: every "
               "(noise structure, history shape of <= 2 observations) on each of the 16 paths fast_pred_var x lazy / eager test-test block (max_eager_kernel_size "
               "lowered) x Cholesky / CG + Lanczos (max_cholesky_size lowered) x detach_test_caches, homoskedastic ones also on the multitask (Kronecker) model.  "
               "Noise lattice (part noise): Gaussian-family likelihood x has_global_noise x has_task_noise x rank 0 / 1 / full, fixed / fixed + learned / Dirichlet "
               "(+ learned) / input dependent x constraint class x raw value class (strongly negative, 0, large): noise ADDED to the marginal and variance of "
               "p(y|f) minus (constrained components switched on) x (the lower bound the constraint reports) is PSD, equality at the edge; non-trivial = all")
    ck.assumptions = ["PSD up to rounding: symmetric to 1e-10 relative, lambda_min >= -1e-8 * lambda_max in float64; differences of covariances / variances along a history: 1e-6 relative to the prior "
                      "(test points coincide with training rows; the distance of nearly coincident rows is only accurate to sqrt(eps))",
                      "CosineKernel only for d=1, CylindricalKernel inside the unit ball, HammingIMQKernel on one-hot sequences, GridInterpolationKernel inside its grid (d <= 3)",
                      "growth: 7 pool rows, fixed noise levels 0.02 / 0.4, learned second noise 0.25, homoskedastic noise 0.05, lengthscale 0.7; predictions with fast_pred_var off and on",
                      "iterative paths (CG / Lanczos, thresholds lowered so that <= 6-row systems take them; CG run to 1e-13 / 200 iterations): compared at 2e-5 relative (symmetry 1e-4); the clauses that "
                      "compare two posteriors (step reduction, monotone variances) are decided on the Cholesky paths only (Validity.tla Path.steps); fast_pred_var + Lanczos (LOVE) "
                      "is exact only when K + noise has pairwise distinct eigenvalues: a history stops where the relative eigenvalue gap falls below 1e-4",
                      "noise lattice: 3 tasks, 4 points, constraints GreaterThan(1e-4) (default) / GreaterThan(1e-2) / Interval(2e-2, 0.5); the bound compared with is the one the "
                      "constraint object reports (float32 rounding of the argument); rank > 0 task noise F F' and stored fixed noise are unconstrained remainders (PSD / as stored)",
                      "DirichletClassificationLikelihood is not walked: ExactGP.get_fantasy_model never passes the `targets` keyword its get_fantasy_likelihood requires",
                      "numeric sampling in the inputs; exhaustive in family x argument x d x ARD x scale x geometry class and (thorough) in the growth histories; "
                      "quick: every (noise structure, history shape) with 4 of the 19 kernels, observation sequence / geometry / likelihood class rotating"]
    wd = os.path.join(tlc.BUILD, PID)
    L = 4 if thorough else 3
    pools = [([[1, 0], [0, 1], [1, 0], [1, 1], [2, -1]], [[1, 1], [0, 2]], 1), ([[1, 2], [1, 2], [-1, 0], [0, 0], [2, 2]], [[1, 2], [3, 0]], 2)]
    chain_pool = ([[1, 0], [1, 1], [0, 1]] if thorough else [[1, 0], [1, 1]], [[1, 1], [0, 2]], 1)
    scales = (-3, -1, 0, 1, 3) if thorough else (-2, 0, 2)
    jobs, labels = [], []

    def job(name, label, **kw):
        mod, cfg = write_mc(wd, name, **kw)
        jobs.append(((mod, cfg), dict(name=PID + "/" + name, dump=True, check=False, workers=2, timeout=3000, coverage=False)))
        labels.append(label)
    # (1) single observations from a 5-row pool, homoskedastic, fresh models (exact)
    for j, (pool, test, s2) in enumerate(pools if thorough else pools[:1]):
        job("growth%d" % j, "Validity growth machine pool %d (single points, homoskedastic)" % j, part="growth", pool=pool, test=test, s2=s2, maxn=L,
            invariants=GROWTH_INV, properties=["VarianceMonotone"])
    # (2) chunks x noise structures x one step kind per bookkeeping class, exact rationals incl. cov(before) - cov(after)
    job("chain_exact", "Validity growth machine: noise structures x replace/append steps, exact", part="growth", pool=chain_pool[0], test=chain_pool[1], s2=chain_pool[2],
        maxn=3, liks=ALL_LIKS if thorough else [k for k in ALL_LIKS if k != "fixed"], hows=EXACT_HOWS, maxchunk=2, invariants=GROWTH_INV + ["StepReductionPSD"], properties=["VarianceMonotone"])
    # (3) the same machine over every way of adding observations: bookkeeping invariants, generates the histories to replay
    job("chain_hows", "Validity growth machine: noise structures x all step kinds (histories)", part="growth", pool=chain_pool[0], test=chain_pool[1], s2=chain_pool[2],
        maxn=3, liks=ALL_LIKS, hows=ALL_HOWS, maxchunk=2, arith=False, modes="{PathExact, PathFast}", invariants=["NoiseIsOwn", "NoiseFloor", "PathKnown"])
    # (3b) the same machine over EVERY computational path (fast_pred_var x lazy test/test block x CG x detach_test_caches), short histories
    job("chain_paths", "Validity growth machine: noise structures x all step kinds x all computational paths", part="growth", pool=chain_pool[0][:2], test=chain_pool[1], s2=chain_pool[2],
        maxn=2, liks=ALL_LIKS, hows=ALL_HOWS, maxchunk=2, arith=False, modes="Paths", invariants=["NoiseIsOwn", "NoiseFloor", "PathKnown"])
    # (3c) the noise a likelihood adds: Gaussian family x switches x constraint class x raw class
    job("noise", "Validity noise lattice (likelihood family x switches x constraint x raw value class)", part="noise", invariants=["NoiseAtLeastBound", "NoiseSwitches"])
    # (4) the kernel lattice
    job("lattice", "Validity kernel lattice", part="lattice", scales=scales, invariants=["DomainOK", "SupportOK", "AssemblyOK"])
    # the exact chain run does not generate cases: it runs (single-threaded) next to the other runs and the replay
    from concurrent.futures import ThreadPoolExecutor
    bg = ThreadPoolExecutor(max_workers=1)
    np_ = len(jobs) - 5
    i_exact, i_hows, i_paths, i_noise, i_lat = np_, np_ + 1, np_ + 2, np_ + 3, np_ + 4
    (a_exact, k_exact) = jobs[i_exact]
    fut_exact = bg.submit(tlc.run, *a_exact, **dict(k_exact, workers=1))
    front = [i for i in range(len(jobs)) if i != i_exact]
    rs_front = tlc.run_many([jobs[i] for i in front], parallel=2)
    rs = [None] * len(jobs)
    for i, r in zip(front, rs_front):
        rs[i] = r

    def account(i):
        r, label = rs[i], labels[i]
        ck.add_tlc(r, label)
        if r.violation:
            ck.model_drift("Validity.tla violates %s (%s: the formulas themselves!)" % (r.violation["name"], label))
        elif r.rc != 0:
            raise tlc.TLCError("TLC failed on Validity (%s):\n%s" % (label, r.stdout[-1500:]))
    for i in front:
        account(i)
    import time
    t_front = time.time() - ck.t0
    # ---- histories ----
    hists = []        # (lik, obs [[p, l]..], hist [[how, m]..])
    for r in rs[:np_]:
        for st in r.states():
            if len(st["obs"]) == L:
                hists.append(("homo", pkey(st["mode"]), [[o["p"], o["l"]] for o in st["obs"]], [[h["how"], h["m"]] for h in st["hist"]]))
    single = sorted(set((a, md, tuple(map(tuple, b)), tuple(map(tuple, c))) for a, md, b, c in hists))
    chains = sorted(set((st["lik"], pkey(st["mode"]), tuple((o["p"], o["l"]) for o in st["obs"]), tuple((h["how"], h["m"]) for h in st["hist"]))
                        for st in rs[i_hows].states() if len(st["obs"]) == 3))
    pchains = sorted(set((st["lik"], pkey(st["mode"]), tuple((o["p"], o["l"]) for o in st["obs"]), tuple((h["how"], h["m"]) for h in st["hist"]))
                         for st in rs[i_paths].states() if len(st["obs"]) == 2))
    if len(set(md for _, md, _, _ in pchains)) != 16 or set(h for _, _, _, hs in pchains for h, _ in hs) != set(ALL_HOWS) or set(lk for lk, _, _, _ in pchains) != set(ALL_LIKS):
        ck.vacuous("the path run did not reach every computational path x step kind x noise structure")
    ncells = [dict(what="noisecell", shape={k: (bool(v) if isinstance(v, bool) else v) for k, v in st["c"]["shape"].items()}, raw=st["c"]["raw"], bound=st["c"]["bound"],
                   valid=bool(st["out"]["valid"]), ncon=st["out"]["ncon"], tight=bool(st["out"]["tight"]), floor=list(st["out"]["floor"]), seed=ck.seed * 10 + 3)
              for st in rs[i_noise].states()]
    ncells.sort(key=lambda c: (c["shape"]["lik"], c["shape"]["glob"], c["shape"]["task"], c["shape"]["rank"], c["bound"], c["raw"]))
    if len(ncells) < 60 or not any(not c["valid"] for c in ncells) or not any(c["tight"] for c in ncells):
        ck.vacuous("noise lattice: cells missing (%d)" % len(ncells))
    if not single or not chains:
        ck.vacuous("no growth histories generated")
    seen_hows = set(h for _, _, _, hs in chains for h, _ in hs)
    seen_liks = set(lk for lk, _, _, _ in chains)
    if seen_hows != set(ALL_HOWS) or seen_liks != set(ALL_LIKS) or not any(m == 2 for _, _, _, hs in chains for _, m in hs) or len(set(md for _, md, _, _ in chains)) != 2:
        ck.vacuous("growth machine did not take every step kind / noise structure / chunk size: %s %s" % (sorted(seen_hows), sorted(seen_liks)))
    # ---- lattice cells ----
    cells = []
    for st in rs[i_lat].states():
        c, o = st["c"], st["out"]
        if not o["psd"]:
            raise core.Machinery("the lattice only holds cells that are PSD on their documented domain")
        cells.append(dict(what="gram", fam=c["fam"], arg=c["arg"], d=c["d"], ard=bool(c["ard"]), geom=c["geom"], ls=c["ls"], dom=c["dom"], n=100,
                          j=o["j"], phi=[list(v) for v in o["phi"]], radii=[[0, 1], [1, 4], [1, 2], [3, 4], [1, 1], [5, 4]],
                          splits=sorted([int(a), int(b)] for a, b in o["splits"])))
    fams = families(torch, gpytorch)
    if not cells or set(c["fam"] for c in cells) != set(fams):
        ck.vacuous("kernel lattice of the spec and the builders of the check differ: %s" % sorted(set(c["fam"] for c in cells) ^ set(fams)))
    cells.sort(key=lambda c: (c["fam"], c["arg"], c["d"], c["ard"], c["geom"], c["ls"]))
    configs = {}
    for i, c in enumerate(cells):
        c["seed"] = ck.seed * 100000 + i
        c["kseed"] = ck.seed * 1000 + (c["arg"] * 31 + c["d"] * 7 + int(c["ard"])) % 97
        configs.setdefault((c["fam"], c["arg"], c["d"], c["ard"]), []).append(c)
    cases = []
    # ---- growth cases ----
    geoms = ["duplicates", "near-coincident", "far-offset", "spread", "clustered"]

    def growth_case(k, lk, md, obs, hs, i, variant=None, geom=None):
        fam, arg, ard = GROWTH_KERNELS[k]
        if fam in NO_FANTASY and any(h in ("fantasy", "listfantasy") for h, _ in hs):
            fam, arg, ard = GROWTH_KERNELS[(k + 1) % len(GROWTH_KERNELS)]
        gl = [g for g in geoms if g != "far-offset" or fam in STATIONARY]
        vs = VARIANTS[lk]
        return dict(what="chain", kernel=[fam, arg, ard], geometry=geom or gl[i % len(gl)], d=1 if DOMAIN.get(fam) == "d1" else 2, lik=lk, variant=variant or vs[(i // 3) % len(vs)], mode=dict(md),
                    obs=[list(o) for o in obs], hist=[list(h) for h in hs], seed=ck.seed * 100 + 7 + (i % 5))
    nk = len(GROWTH_KERNELS)
    # single-point histories: thorough = every history with 6 of the kernels, quick = every 9th history per kernel
    for k in range(nk):
        for i, (lk, md, obs, hs) in enumerate(single):
            if (thorough and (i + k) % 3 == 0) or (not thorough and i % 9 == k % 9):
                cases.append(growth_case(k, lk, md, obs, hs, i + k))
    # chain histories: group by (noise structure, history shape); quick: every group with 4 kernels, the observation sequence
    # rotating; thorough: every history (observation sequence x prediction mode) once, the kernel rotating (every group meets every kernel)
    groups = {}
    for lk, md, obs, hs in chains:
        groups.setdefault((lk, hs), []).append((md, obs))
    for gi, ((lk, hs), plans) in enumerate(sorted(groups.items())):
        if thorough:
            # every observation sequence once, the prediction mode alternating with it
            for pi, obs in enumerate(sorted(set(o for _, o in plans))):
                cases.append(growth_case((gi + pi) % nk, lk, P_EXACT, obs, hs, gi + pi))
                cases.append(growth_case((gi + pi + 7) % nk, lk, P_FAST, obs, hs, gi + pi + 1))
        else:
            for t in range(4):
                k = (gi + 5 * t) % nk
                md, obs = plans[(gi * 7 + k * 3) % len(plans)]
                cases.append(growth_case(k, lk, md, obs, hs, gi + k))
    # path histories: every (noise structure, computational path, history shape) once (thorough: twice), the observation sequence, the kernel and
    # the likelihood class rotating
    pgroups = {}
    for lk, md, obs, hs in pchains:
        pgroups.setdefault((lk, md, hs), []).append(obs)
    for gi, ((lk, md, hs), plans) in enumerate(sorted(pgroups.items())):
        for t in range(2 if thorough else 1):
            k = (gi * 5 + 11 * t) % nk
            cases.append(growth_case(k, lk, md, plans[(gi + 3 * t) % len(plans)], hs, gi + 2 * t))
        if lk == "homo":
            # the structured (Kronecker) train covariance of the multitask model takes its own branches of the solver / root code:
            # every path x history shape also on the multitask likelihood, on two distinct rows
            distinct = [o for o in plans if len(set(p_ for p_, _ in o)) == len(o)] or plans
            cases.append(growth_case((gi * 3 + 1) % nk, lk, md, distinct[gi % len(distinct)], hs, gi + 1, variant="mtask", geom="spread" if gi % 2 else None))
    cases += ncells
    rnd.shuffle(cases)
    items = [dict(cases=cases[i:i + 8]) for i in range(0, len(cases), 8)] + [dict(cases=v) for v in configs.values()]
    rnd.shuffle(items)
    results = core.pmap(_worker, items, procs=max(1, PROCS - 1), chunksize=1)
    t_replay = time.time() - ck.t0
    rs[i_exact] = fut_exact.result()
    bg.shutdown()
    account(i_exact)
    exact_leaves = sum(1 for st in rs[i_exact].states() if len(st["obs"]) == 3)
    if not exact_leaves:
        ck.vacuous("the exact chain run reached no complete history")
    results += noise_floor_cases(torch, gpytorch)
    results += variational_cases(torch, gpytorch, ck.seed, thorough)
    results += variance_floor_cases(torch, gpytorch)
    ck.absorb(results)
    nchain = sum(1 for c in cases if c["what"] == "chain")
    ck.section("paths", path_histories=len(pchains), path_groups=len(pgroups), paths=len(set(md for _, md, _, _ in pchains)), noise_cells=len(ncells),
               growth_cases_off_default_path=sum(1 for c in cases if c["what"] == "chain" and (c["mode"]["lazy"] or c["mode"]["cg"] or not c["mode"]["detach"])))
    ck.section("timing", tlc_front_s=round(t_front, 1), replay_done_s=round(t_replay, 1), exact_run_s=round(rs[i_exact].wall_s, 1))
    ck.section("replay", gram_cases=len(cells), growth_cases=nchain, growth_cases_fast_pred_var=sum(1 for c in cases if c["what"] == "chain" and c["mode"]["fast"]), single_point_histories=len(single), chain_histories=len(chains),
               history_shapes=len(groups), exact_chain_leaves=exact_leaves, comparisons=len(results))


def replay(rep):
    torch = core.setup_torch()
    import gpytorch
    c = rep["case"]
    if c.get("what") in ("gram", "chain", "noisecell"):
        bad = [r for r in run_case(torch, gpytorch, c) if not r["ok"]]
    elif c.get("what") == "floor":
        bad = [r for r in variance_floor_cases(torch, gpytorch) if not r["ok"]]
    elif c.get("what") == "noise":
        bad = [r for r in noise_floor_cases(torch, gpytorch) if not r["ok"]]
    else:
        bad = [r for r in variational_cases(torch, gpytorch, c.get("seed", 0), False) if not r["ok"]]
    for r in bad:
        print("VIOLATION property=C07 replay=- :: %s :: %s" % (r["sig"], r["detail"]))
    if not bad:
        print("replay passed")
    return 1 if bad else 0
