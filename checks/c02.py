"""C02 - exact marginal log likelihood and LOO objective equal their dense definitions.
Spec: ExactObjective.tla.  TLC (a) enumerates the assembly lattice (module DAG x prior sites x batchedness x added loss
terms x batch shape x N x objective) carrying the DECLARATIVE sum of terms and the transcribed code's result, and proves
code = definition on the conventional sub-lattice (HEAD) and on the whole lattice (repaired model); (b) the same for
SumMarginalLogLikelihood; (c) evaluates determinant, quadratic form and the leave-one-out conditionals exactly over
rationals and proves the bordered LOO formulas and the elimination path equal them; (d) enumerates the float64 cells.
The replay decodes distinguishable stub terms from the real ExactMarginalLogLikelihood / LeaveOneOutPseudoLikelihood /
SumMarginalLogLikelihood, pushes the rational instances through real ExactGP + LinearKernel, and compares value and the
gradient w.r.t. every raw hyperparameter with a dense torch.linalg reference on seeded float64 instances.
(e) part "history": a state machine over how each prior was registered (constructor argument / closure + setting closure /
parameter name) and over the operations on the model objects before the objective is evaluated (set hyperparameters,
copy.deepcopy, fresh model + load_state_dict, pickle round trip); TLC proves that every prior term reads the current value of
THIS object's parameter under the semantics Python gives bound methods and functions, and every reachable history is
replayed into the real classes: value (stub digits) and gradient of both objectives for every live object.
(f) the batch shape of the TARGET is a dimension of the assembly lattice and of the dense lattice (ExactObjective.tla
TargetShapes / Pattern): equal to the batch shape of the distribution, extra leading dimensions, batch dimensions missing,
unit dimensions, widened unit dimensions of the distribution, both at once - and (dense) inputs that carry the batch shape or
are shared by a batch of hyperparameter settings.  The definition gives one value per element of the broadcast of the two
shapes, each divided by the number of observations of ONE batch element; TLC proves the divisor of the transcribed code right
on every pair (DivisorOK) and must find a counterexample when the divisor is read off the target's shape (slip run).
(g) part "zoo": the noise structure of the likelihood (homoskedastic / fixed / fixed + learned) x what is forwarded through
objective(output, target, *params, **kwargs) (noise= as long as the training data given / not given, train inputs as *params), S of
the dense reference summed by hand from the components the specification lists; and every library class constructed with *_prior
arguments (ZooClasses x ScaleKernel x ConstantMean x the likelihoods), every parameter of the model at a value of its own, the
prior terms of the reference computed in closed form at the PUBLIC parameter properties named by the specification (never
through the registered closures).  TLC proves the transcribed branch order of the noise models gives the defined components and
must find counterexamples for the slips "stored_first", "second_sees_noise" and "getter_reads_sibling"."""
import copy
import io
import math
import os
import pickle
import random
from fractions import Fraction

from harness import core, tlc
from checks import c02_dense as dense

LEVEL = "model_checking"
PID = "C02"
H = dense.H

ALL_REPAIRS = ("prior_memo", "prior_batch_shape", "loo_broadcast")
# Repairs of ExactObjective.tla that are present in the tree under test; () models the pinned code.  After committing a
# fix to /repo add its name here, otherwise the check still passes but reports MODEL-DRIFT.
REPAIRS_IN_TREE = ("prior_memo", "loo_broadcast")  # fix: commits in /repo (named_priors memo; LOO broadcasts marginal and target batch shapes)
# "loo_broadcast" = findings/C02/fix_loo_target_batch.diff (LeaveOneOutPseudoLikelihood broadcasts mean and target); until it is in the
# tree the leave-one-out cells whose target batch shape is not aligned with the distribution's fail with C02/loo-mean-reshaped-to-target/*
if os.environ.get("VERIF_C02_REPAIRS") is not None:      # development override, e.g. VERIF_C02_REPAIRS=prior_memo
    REPAIRS_IN_TREE = tuple(x for x in os.environ["VERIF_C02_REPAIRS"].split(",") if x in ALL_REPAIRS)

# ExactObjective.tla Pattern(B, tb): batch shape of the target against the batch shape of the distribution
PATTERNS = ("equal", "extra", "lacks", "unit", "widen", "mixed")
SITES = {"plain": ("noise", "mean", "outputscale", "lengthscale"), "shared": ("noise", "mean", "outputscale", "lengthscale"),
         "mtask": ("noise", "mean", "task_noises", "lengthscale")}
TAILS = {"plain": ((1,), (), (), (1, 2)), "shared": ((1,), (), (), (1, 2)), "mtask": ((1,), (), (2,), (1, 2))}


# ---------------------------------------------------------------------------------------------
# TLC side
def tla(v):
    if isinstance(v, bool):
        return "TRUE" if v else "FALSE"
    if isinstance(v, int):
        return str(v)
    if isinstance(v, str):
        return '"%s"' % v
    if isinstance(v, (list, tuple)):
        return "<<" + ", ".join(tla(x) for x in v) + ">>"
    if isinstance(v, dict):
        return "[" + ", ".join("%s |-> %s" % (k, tla(x)) for k, x in v.items()) + "]"
    raise TypeError(v)


def write_mc(workdir, name, part, repairs=(), archs=("plain",), batches=((),), ns=(3,), maxmodels=1, instances=(), invariants=(),
             regmenu=(), histlen=0, maxobjs=1, maxgen=0, sethows=("setter",), slips=(), extras=(), divslips=(), patternbatches=(),
             zookernels=("rbf",), noisekernels=("rbf",), rots=(0,), zooslips=()):
    os.makedirs(workdir, exist_ok=True)
    mod = "MC_ExactObjective_" + name
    with open(os.path.join(workdir, mod + ".tla"), "w") as f:
        f.write("---- MODULE %s ----\nEXTENDS ExactObjective\nBatchesDef == {%s}\nInstDef == {%s}\nRegMenuDef == {%s}\nPatternBatchesDef == {%s}\n====\n" % (
            mod, ", ".join(tla(list(b)) for b in batches), ",\n  ".join(tla(i) for i in instances), ", ".join(tla(list(r)) for r in regmenu),
            ", ".join(tla(list(b)) for b in patternbatches)))
    cfg = os.path.join(workdir, mod + ".cfg")
    tlc.write_cfg(cfg, spec="Spec",
                  constants={"Part": part, "Repairs": set(repairs), "Archs": set(archs), "Batches": "<- BatchesDef",
                             "Ns": tlc.Raw("{" + ", ".join(map(str, ns)) + "}"), "MaxModels": maxmodels, "Instances": "<- InstDef",
                             "RegMenu": "<- RegMenuDef", "HistLen": histlen, "MaxObjs": maxobjs, "MaxGen": maxgen,
                             "SetHows": set(sethows), "Slips": set(slips),
                             "PatternBatches": "<- PatternBatchesDef", "Extras": tlc.Raw("{" + ", ".join(map(str, extras)) + "}"), "DivSlips": set(divslips),
                             "ZooKernels": set(zookernels), "NoiseKernels": set(noisekernels),
                             "Rots": tlc.Raw("{" + ", ".join(map(str, rots)) + "}"), "ZooSlips": set(zooslips)},
                  invariants=list(invariants))
    return os.path.join(workdir, mod + ".tla"), cfg


def gen_instances(rnd, count):
    """small integer GP regression problems: K = X X^T, |X| <= 2, n <= 3, integer noise / mean constant / targets"""
    out, seen = [], set()
    while len(out) < count:
        n = rnd.choice([1, 2, 2, 3, 3, 3])
        d = rnd.choice([1, 2])
        kind = rnd.choice(["homo", "fixed"])
        s0 = rnd.choice([1, 2, 3])
        inst = dict(X=[[rnd.randint(-2, 2) for _ in range(d)] for _ in range(n)],
                    s=[s0 if kind == "homo" else rnd.choice([1, 2, 3]) for _ in range(n)], kind=kind,
                    mc=rnd.choice([0, 0, 1, -1, 2, -2]), zero=rnd.random() < 0.5,
                    y=[rnd.randint(-3, 3) for _ in range(n)])
        k = repr(inst)
        if k not in seen:
            seen.add(k)
            out.append(inst)
    return out


def frac(q):
    return Fraction(int(q[0]), int(q[1]))


def plain(v):
    """parsed TLA+ value -> json-able python"""
    if isinstance(v, dict):
        return {str(k): plain(x) for k, x in v.items()}
    if isinstance(v, (tuple, list)):
        return [plain(x) for x in v]
    if isinstance(v, bool):
        return v
    if isinstance(v, int):
        return int(v)
    return str(v)


# ---------------------------------------------------------------------------------------------
# stubs on the real classes
_STUBS = {}


def stubs(torch, gpytorch):
    if _STUBS:
        return _STUBS["prior"], _STUBS["loss"]

    class StubPrior(gpytorch.priors.Prior):
        """log_prob(x) = weight * x elementwise: decodes which parameter, which element and WHICH VALUE (constrained) was used"""
        arg_constraints = {}
        support = torch.distributions.constraints.real
        _validate_args = False

        def __init__(self, weight):
            torch.nn.Module.__init__(self)
            torch.distributions.Distribution.__init__(self, validate_args=False)
            self.weight = float(weight)
            self._transform = None

        def log_prob(self, x):
            return self.weight * x

    class StubLoss(gpytorch.mlls.AddedLossTerm):
        def __init__(self, value):
            self.value = value

        def loss(self, *params):
            return self.value

    # importable by name: models of part "history" go through pickle
    StubPrior.__module__ = StubLoss.__module__ = __name__
    StubPrior.__qualname__, StubLoss.__qualname__ = "StubPrior", "StubLoss"
    globals().update(StubPrior=StubPrior, StubLoss=StubLoss)
    _STUBS.update(prior=StubPrior, loss=StubLoss)
    return StubPrior, StubLoss


def values(torch, own, tail):
    """element value 1 + own batch position + position inside the parameter's own dimensions (ExactObjective.tla PriorTerm)"""
    nb = int(math.prod(own))
    t = int(math.prod(tail))
    v = torch.arange(nb, dtype=torch.float64).unsqueeze(-1) + torch.arange(t, dtype=torch.float64).unsqueeze(0) + 1.0
    return v.reshape(tuple(own) + tuple(tail))


def build_asm(torch, gpytorch, cf, seed):
    """the real model of one assembly configuration with stub priors / stub added loss terms"""
    StubPrior, StubLoss = stubs(torch, gpytorch)
    D = torch.float64
    arch, B, n = cf["arch"], tuple(cf["B"]), cf["n"]
    TB = tuple(cf.get("tb", B))              # batch shape of the target (ExactObjective.tla TargetShapes)
    T = 2 if arch == "mtask" else 1
    tails = TAILS[arch]
    own = [B if cf["pri"][k] == "batch" else () for k in range(4)]
    if arch == "mtask":        # one likelihood, one batch shape for both of its parameters
        lb = B if "batch" in (cf["pri"][0], cf["pri"][2]) else ()
        own[0] = own[2] = lb
    elif own[3]:               # a ScaleKernel takes over the batch shape of its base kernel
        own[2] = own[3]
    g = torch.Generator().manual_seed(seed)
    x = torch.rand(*B, n, 2, generator=g, dtype=D)
    y = torch.randn(*TB, n, T, generator=g, dtype=D) if T > 1 else torch.randn(*TB, n, generator=g, dtype=D)
    K, L = gpytorch.kernels, gpytorch.likelihoods
    base = K.RBFKernel(ard_num_dims=2, batch_shape=torch.Size(own[3]))
    mean = gpytorch.means.ConstantMean(batch_shape=torch.Size(own[1]))
    if arch == "mtask":
        lik = L.MultitaskGaussianLikelihood(num_tasks=2, batch_shape=torch.Size(own[0]))
    else:
        lik = L.GaussianLikelihood(batch_shape=torch.Size(own[0]))
    if arch == "plain":
        os_mod = covar = K.ScaleKernel(base, batch_shape=torch.Size(own[2]))
    elif arch == "shared":
        os_mod = K.ScaleKernel(base, batch_shape=torch.Size(own[2]))
        covar = os_mod + K.ScaleKernel(base)                   # the SAME base kernel object on two paths
    else:
        covar = K.MultitaskKernel(base, num_tasks=2, rank=1)
        os_mod = None

    class Model(gpytorch.models.ExactGP):
        def __init__(s):
            super().__init__(x, y, lik)
            s.mean_module = gpytorch.means.MultitaskMean(mean, num_tasks=2) if T > 1 else mean
            s.covar_module = covar

        def forward(s, inp):
            m_, k_ = s.mean_module(inp), s.covar_module(inp)
            if T > 1:
                return gpytorch.distributions.MultitaskMultivariateNormal(m_, k_)
            return gpytorch.distributions.MultivariateNormal(m_, k_)

    model = Model().to(D)
    mean0 = model.mean_module.base_means[0] if T > 1 else mean
    # constrained values through the public setters, read back
    want = [values(torch, own[k], tails[k]) for k in range(4)]
    with torch.no_grad():
        lik.noise = want[0]
        mean0.constant = want[1]
        if arch == "mtask":
            lik.task_noises = want[2]
            covar.task_covar_module.covar_factor.copy_(torch.tensor([[0.8], [0.5]], dtype=D))
        else:
            os_mod.outputscale = want[2]
        base.lengthscale = want[3]
    got = [lik.noise, mean0.constant, lik.task_noises if arch == "mtask" else os_mod.outputscale, base.lengthscale]
    for k in range(4):
        if tuple(got[k].shape) != tuple(want[k].shape) or float((got[k].detach() - want[k]).abs().max()) > 1e-10:
            raise core.Machinery("could not set %s of %s to %s (reads back %s)" % (SITES[arch][k], cf, want[k].tolist(), got[k].tolist()))
    # stub priors, registered the way the library's constructors register real ones
    reg = [(lik if arch == "mtask" else lik.noise_covar, (lambda m: m.noise) if arch == "mtask" else "noise"),
           (mean0, "constant"),
           (lik, lambda m: m.task_noises) if arch == "mtask" else (os_mod, "outputscale"),
           (base, "lengthscale")]
    for k in range(4):
        if cf["pri"][k] != "none":
            reg[k][0].register_prior("stub_prior_%d" % k, StubPrior(10 ** k), reg[k][1])
    nb = int(math.prod(B))
    for j, holder in enumerate((covar, base)):
        st = cf["loss"][j]
        if st == "unreg":
            continue
        holder.register_added_loss_term("stub_loss_%d" % j)
        if st == "scalar":
            holder.update_added_loss_term("stub_loss_%d" % j, StubLoss(torch.tensor(7.0 * 10 ** (4 + j), dtype=D)))
        elif st == "batch":
            holder.update_added_loss_term("stub_loss_%d" % j, StubLoss((10 ** (4 + j)) * (3.0 + torch.arange(nb, dtype=D)).reshape(B)))
    model.train()
    lik.train()
    return model, lik, x, y, T


def main_terms(torch, model, lik, x, y, obj, T, grad=False):
    """main term of the objective per batch element from the model's own dense marginal: log N(y; m, K+S) for the MLL,
    sum_i [log p(y_i | y_-i) + log(2 pi)/2] for LOO (explicit deletion)"""
    with torch.enable_grad() if grad else torch.no_grad():
        marg = lik(model(x))
        A = marg.covariance_matrix
        TB = tuple(y.shape[:-2]) if T > 1 else tuple(y.shape[:-1])
        m = marg.mean.reshape(*marg.mean.shape[:-2], -1) if T > 1 else marg.mean
        yy = y.reshape(*TB, -1)              # dense_logN / dense_loo_terms broadcast the batch shapes of y, m and A
        if obj == "mll":
            return dense.dense_logN(torch, yy, m, A)
        return (dense.dense_loo_terms(torch, yy, m, A) + H).sum(-1)


def decode(total, arch):
    """digits of a stub total: slot k weighs 10^k, loss j weighs 10^(4+j)"""
    names = list(SITES[arch]) + ["loss@covar_module", "loss@inner_kernel"]
    t = int(round(total))
    if abs(total - t) > 1e-6 or t < 0:
        return "%.6f (not a sum of the registered terms evaluated at the constrained values)" % total
    ds = []
    for k in range(6):
        dgt = (t // 10 ** k) % 10 if k < 5 else t // 10 ** 5
        if dgt:
            ds.append("%s=%d" % (names[k], dgt))
    return "{" + ", ".join(ds) + "}"


def asm_causes(cf, why, pattern):
    """why the code of the tree is predicted to miss the definition in this configuration (why: the clauses of Conventional
    that ExactObjective.tla finds false for it)"""
    arch = cf["arch"]
    causes = []
    lead = [SITES[arch][k] for k in range(4) if why["shape"][k]]
    if lead and "prior_batch_shape" not in REPAIRS_IN_TREE:
        # same statement of the code (prior_term.shape[:res.ndim]) and same repair: a BATCHED parameter under a target with extra
        # leading dimensions has its batch dimensions paired with the wrong dimensions of the objective
        sub = "target-%s-dims/" % pattern if any(cf["pri"][k] == "batch" for k in range(4) if why["shape"][k]) else ""
        causes.append("unbatched-prior-taken-for-batched/" + sub + "+".join(lead))
    if why["twice"] and "prior_memo" not in REPAIRS_IN_TREE:
        causes.append("shared-module/prior-counted-per-path")
    return causes


def run_asm(torch, gpytorch, case):
    cf, exp, code, agree = case["cf"], case["exp"], case["code"], case["agree"]
    B = tuple(cf["B"])               # batch shape of the marginal distribution
    OB = tuple(exp["shape"])         # batch shape of the objective: distribution and target broadcast
    pri = {SITES[cf["arch"]][k]: cf["pri"][k] for k in range(4) if cf["pri"][k] != "none"}
    desc = "%s arch=%s batch=%s target batch=%s (%s) N=%d priors=%s added_loss(covar_module, inner kernel)=%s" % (
        cf["obj"], cf["arch"], list(B), list(cf["tb"]), exp["pattern"], cf["n"], pri, list(cf["loss"]))
    causes = asm_causes(cf, case["why"], exp["pattern"])
    loo_shape = case["why"]["loo"] and "loo_broadcast" not in REPAIRS_IN_TREE
    nontrivial = bool(pri) or any(s in ("scalar", "batch") for s in cf["loss"])
    res = dict(key=["asm", cf], ok=True, nontrivial=nontrivial, predicted=not agree, sample=dict(configuration=desc, expected_other_terms=exp["other"], divisor=exp["div"]))

    def fail(sym, detail, as_predicted):
        if loo_shape and sym in ("raises", "terms") and not (as_predicted and causes):
            # LeaveOneOutPseudoLikelihood reshapes the mean to the target's shape: raises, or pairs the wrong batch elements
            sig = "C02/loo-mean-reshaped-to-target/assembly/%s/%s" % (exp["pattern"], sym)
        elif as_predicted and causes:
            sig = "C02/assembly/" + (causes[0] if len(causes) == 1 else causes[0] + "+shared-module")
        else:
            sig = "C02/assembly/%s/%s/B%d%s/%s" % (cf["arch"], cf["obj"], len(B), "" if exp["pattern"] == "equal" else "/target-" + exp["pattern"], sym)
        res.update(ok=False, sig=sig, detail=desc + ": " + detail, case=case)
        return res

    model, lik, x, y, T = build_asm(torch, gpytorch, cf, case["seed"])
    ref = main_terms(torch, model, lik, x, y, cf["obj"], T).reshape(-1)
    cls = gpytorch.mlls.ExactMarginalLogLikelihood if cf["obj"] == "mll" else gpytorch.mlls.LeaveOneOutPseudoLikelihood
    obj = cls(lik, model)
    ok, val = core.guarded(lambda: obj(model(x), y))
    if not ok:
        if code["err"] and not agree:
            return fail("raises", "objective raised %s; definition: other terms %s / %d" % (val, exp["other"], exp["div"]), True)
        return fail("raises", "objective raised %s" % val, False)
    if tuple(val.shape) != OB:
        return fail("shape", "objective has shape %s, the batch shapes of the distribution and of the target broadcast to %s" % (list(val.shape), list(OB)),
                    code["err"] and not agree)
    if tuple(ref.shape) != (int(math.prod(OB)),):
        raise core.Machinery("dense main term has %s elements, the objective %s: %s" % (list(ref.shape), list(OB), desc))
    got = ((val.detach().reshape(-1) - exp["hc"] * H) * exp["div"] - ref).tolist()
    want = [float(v) for v in exp["other"]]
    good = all(abs(a - b) <= 1e-6 for a, b in zip(got, want))
    # (a leave-one-out cell whose mean is reshaped across batch elements is an error of the transcribed code whether it raises or not)
    res["code_matches_model"] = ((not code["err"]) and all(abs(a - float(b)) <= 1e-6 for a, b in zip(got, code["other"]))) or (loo_shape and not good)
    if not good:
        detail = "N_obs * objective - main term = %s per batch element with N_obs = %d, definition %s" % ([decode(v, cf["arch"]) for v in got], exp["div"], [decode(v, cf["arch"]) for v in want])
        return fail("terms", detail, res["code_matches_model"] and not agree)
    return res


def run_sum(torch, gpytorch, case):
    sc, exp = case["sc"], case["exp"]
    desc = "SumMarginalLogLikelihood(mll_cls=%s) over %d models %s" % (sc["cls"], len(sc["comps"]), [(c["n"], [p for p in c["pri"] if p != "none"], c["loss"][0]) for c in sc["comps"]])
    res = dict(key=["sum", sc], ok=True, nontrivial=len(sc["comps"]) > 1, sample=dict(configuration=desc))

    def fail(sym, detail):
        res.update(ok=False, sig="C02/sum/%s/M%d/%s" % (sc["cls"], len(sc["comps"]), sym), detail=desc + ": " + detail, case=case)
        return res

    models, want = [], 0.0
    for i, comp in enumerate(sc["comps"]):
        cf = dict(arch="plain", obj=sc["cls"], B=[], n=comp["n"], pri=comp["pri"], loss=comp["loss"])
        model, lik, x, y, T = build_asm(torch, gpytorch, cf, case["seed"] + i)
        models.append(model)
        ref = float(main_terms(torch, model, lik, x, y, sc["cls"], T))
        want += (ref + exp["comps"][i]["other"]) / exp["comps"][i]["div"]
    want = want / exp["m"] + exp["hc"] * H
    ml = gpytorch.models.IndependentModelList(*models)
    ll = gpytorch.likelihoods.LikelihoodList(*[m.likelihood for m in models])
    cls = gpytorch.mlls.ExactMarginalLogLikelihood if sc["cls"] == "mll" else gpytorch.mlls.LeaveOneOutPseudoLikelihood
    smll = gpytorch.mlls.SumMarginalLogLikelihood(ll, ml, mll_cls=cls)
    ml.train()
    ok, val = core.guarded(lambda: smll(ml(*ml.train_inputs), ml.train_targets))
    if not ok:
        return fail("raises", "raised %s" % val)
    if tuple(val.shape) != ():
        return fail("shape", "value has shape %s" % list(val.shape))
    g, why = core.close(val.detach(), want, 1e-10, 1e-6)
    if not g:
        return fail("value", "value %.9f, mean of the members' objectives by definition %.9f (%s)" % (float(val), want, why))
    return res


def run_rat(torch, gpytorch, case):
    inst, out = case["inst"], case["out"]
    D = torch.float64
    n = len(inst["y"])
    desc = "X=%s noise=%s(%s) mean=%s y=%s" % (inst["X"], inst["s"], inst["kind"], "zero" if (inst["zero"] and inst["mc"] == 0) else inst["mc"], inst["y"])
    X = torch.tensor(inst["X"], dtype=D)
    y = torch.tensor(inst["y"], dtype=D)
    offdiag = any(sum(a * b for a, b in zip(inst["X"][i], inst["X"][j])) != 0 for i in range(n) for j in range(i))
    res = dict(key=["rat", inst], ok=True, nontrivial=n >= 2 and offdiag, n=0,
               sample=dict(instance=desc, det="%s/%s" % tuple(out["det"]), quad="%s/%s" % tuple(out["quad"]),
                           loo_mean=["%s/%s" % tuple(q) for q in out["mu"]], loo_var=["%s/%s" % tuple(q) for q in out["s2"]]))

    def fail(sym, detail):
        res.update(ok=False, sig="C02/rational/%s/%s" % (inst["kind"], sym), detail=desc + ": " + detail, case=case)
        return res

    if inst["kind"] == "homo":
        lik = gpytorch.likelihoods.GaussianLikelihood().to(D)
        lik.noise = float(inst["s"][0])
        back = lik.noise.detach().reshape(-1)
        if abs(float(back[0]) - inst["s"][0]) > 1e-12:
            raise core.Machinery("noise setter: wrote %s, reads back %r" % (inst["s"][0], float(back[0])))
    else:
        lik = gpytorch.likelihoods.FixedNoiseGaussianLikelihood(noise=torch.tensor(inst["s"], dtype=D), learn_additional_noise=False)
        if lik.noise.detach().tolist() != [float(v) for v in inst["s"]]:
            raise core.Machinery("fixed noise reads back %s" % lik.noise.tolist())

    class Model(gpytorch.models.ExactGP):
        def __init__(s):
            super().__init__(X, y, lik)
            s.mean_module = gpytorch.means.ZeroMean() if (inst["zero"] and inst["mc"] == 0) else gpytorch.means.ConstantMean()
            s.covar_module = gpytorch.kernels.LinearKernel()

        def forward(s, inp):
            return gpytorch.distributions.MultivariateNormal(s.mean_module(inp), s.covar_module(inp))

    model = Model().to(D)
    model.covar_module.variance = 1.0
    if abs(float(model.covar_module.variance) - 1.0) > 1e-12:
        raise core.Machinery("LinearKernel.variance reads back %r" % float(model.covar_module.variance))
    if isinstance(model.mean_module, gpytorch.means.ConstantMean):
        model.mean_module.constant = float(inst["mc"])
        if float(model.mean_module.constant) != float(inst["mc"]):
            raise core.Machinery("ConstantMean.constant reads back %r" % float(model.mean_module.constant))
    model.train()
    lik.train()
    det, quad = frac(out["det"]), frac(out["quad"])
    want_mll = -0.5 * (float(quad) + math.log(float(det)) + n * math.log(2 * math.pi)) / n
    mus, s2s = [float(frac(q)) for q in out["mu"]], [float(frac(q)) for q in out["s2"]]
    want_loo = sum(-0.5 * math.log(2 * math.pi * v) - 0.5 * (yi - mu) ** 2 / v for yi, mu, v in zip(inst["y"], mus, s2s)) / n
    mll = gpytorch.mlls.ExactMarginalLogLikelihood(lik, model)
    loo = gpytorch.mlls.LeaveOneOutPseudoLikelihood(lik, model)
    for path in ("default", "chol_setting"):
        def code():
            if path == "chol_setting":
                with gpytorch.settings.fast_computations(log_prob=False):
                    return mll(model(X), y), loo(model(X), y)
            return mll(model(X), y), loo(model(X), y)
        ok, r = core.guarded(code)
        if not ok:
            return fail("raises", "%s: raised %s" % (path, r))
        for name, got, want in (("mll", r[0], want_mll), ("loo", r[1], want_loo)):
            res["n"] += 1
            if tuple(got.shape) != ():
                return fail(name + "-shape", "%s: shape %s" % (path, list(got.shape)))
            g, why = core.close(got.detach(), want, 1e-9, 1e-11)
            if not g:
                what = ("-(quad + log det + N log 2pi) / (2N) with quad=%s, det=%s" % (quad, det)) if name == "mll" else \
                    ("mean_i log N(y_i; mu_i, s2_i) with mu=%s s2=%s" % ([str(frac(q)) for q in out["mu"]], [str(frac(q)) for q in out["s2"]]))
                return fail(name, "%s: %s = %.12f, exact definition %s = %.12f (%s)" % (path, name, float(got), what, want, why))
    return res


# ---------------------------------------------------------------------------------------------
# part "history": registration forms x object histories
# the closure form of register_prior: plain functions of the module (importable, so that the model can be pickled)
def _get_noise(m):
    return m.noise


def _set_noise(m, v):
    m._set_noise(v)


def _get_constant(m):
    return m.constant


def _set_constant(m, v):
    m.constant = v


def _get_outputscale(m):
    return m.outputscale


def _set_outputscale(m, v):
    m._set_outputscale(v)


def _get_lengthscale(m):
    return m.lengthscale


def _set_lengthscale(m, v):
    m._set_lengthscale(v)


HIST_REG = (("noise_prior", "noise", _get_noise, _set_noise), ("mean_prior", "constant", _get_constant, _set_constant),
            ("outputscale_prior", "outputscale", _get_outputscale, _set_outputscale),
            ("lengthscale_prior", "lengthscale", _get_lengthscale, _set_lengthscale))


def hist_model_class(gpytorch):
    if "HistModel" not in _STUBS:
        class HistModel(gpytorch.models.ExactGP):
            def __init__(s, x, y, lik, mean, covar):
                super().__init__(x, y, lik)
                s.mean_module = mean
                s.covar_module = covar

            def forward(s, inp):
                return gpytorch.distributions.MultivariateNormal(s.mean_module(inp), s.covar_module(inp))

        HistModel.__module__, HistModel.__qualname__ = __name__, "HistModel"
        globals()["HistModel"] = HistModel
        _STUBS["HistModel"] = HistModel
    return _STUBS["HistModel"]


def hist_own(h):
    """batch shape of the parameter of every slot (registered priors sit on parameters with the batch shape of the objective)"""
    B = tuple(h["B"])
    own = [B if h["reg"][k] != "none" else () for k in range(4)]
    if own[3]:
        own[2] = own[3]            # a ScaleKernel takes over the batch shape of its base kernel
    return own


def hist_parts(model, arch):
    """(module that owns the parameter, attribute) of the four slots of THIS model object"""
    os_mod = model.covar_module if arch == "plain" else model.covar_module.kernels[0]
    return [(model.likelihood.noise_covar, "noise"), (model.mean_module, "constant"), (os_mod, "outputscale"), (os_mod.base_kernel, "lengthscale")]


def hist_set(torch, model, h, g, how, gpytorch=None, seed=0):
    """hyperparameters of generation g: through the public setters, in place on the raw parameters, or by loading (in place)
    the state_dict of a scratch model that has them"""
    own, tails = hist_own(h), TAILS[h["arch"]]
    if how == "state_dict":
        scratch = build_hist(torch, gpytorch, h, seed)[0]
        hist_set(torch, scratch, h, g, "setter")
        model.load_state_dict(scratch.state_dict())
    parts = hist_parts(model, h["arch"])
    for k, (mod, attr) in enumerate(parts):
        want = values(torch, own[k], tails[k]) + float(g)
        if how == "state_dict":
            pass
        elif how == "raw":
            raw = getattr(mod, "raw_" + attr)
            con = getattr(mod, "raw_" + attr + "_constraint", None)
            with torch.no_grad():
                raw.copy_((con.inverse_transform(want) if con is not None else want).reshape(raw.shape))
        else:
            setattr(mod, attr, want)
        got = getattr(mod, attr)
        if tuple(got.shape) != tuple(want.shape) or float((got.detach() - want).abs().max()) > 1e-9:
            raise core.Machinery("could not set %s of %s to %s by %s (reads back %s)" % (attr, h, want.tolist(), how, got.tolist()))


def objectives(gpytorch, model):
    return dict(mll=gpytorch.mlls.ExactMarginalLogLikelihood(model.likelihood, model), loo=gpytorch.mlls.LeaveOneOutPseudoLikelihood(model.likelihood, model))


def build_hist(torch, gpytorch, h, seed):
    """a model of configuration h at generation 0, every prior registered in the form the configuration names; returns the
    model and the objective objects made right after its construction (before the register_prior calls, before set)"""
    StubPrior, _ = stubs(torch, gpytorch)
    Model = hist_model_class(gpytorch)
    D = torch.float64
    B, n, reg = tuple(h["B"]), h["n"], h["reg"]
    own = [torch.Size(o) for o in hist_own(h)]
    g = torch.Generator().manual_seed(seed)
    x = torch.rand(*B, n, 2, generator=g, dtype=D)
    y = torch.randn(*B, n, generator=g, dtype=D)
    P = [StubPrior(10 ** k) if reg[k] != "none" else None for k in range(4)]
    ctor = [P[k] if reg[k] == "ctor" else None for k in range(4)]
    K = gpytorch.kernels
    lik = gpytorch.likelihoods.GaussianLikelihood(noise_prior=ctor[0], batch_shape=own[0])
    mean = gpytorch.means.ConstantMean(constant_prior=ctor[1], batch_shape=own[1])
    base = K.RBFKernel(ard_num_dims=2, lengthscale_prior=ctor[3], batch_shape=own[3])
    os_mod = K.ScaleKernel(base, outputscale_prior=ctor[2], batch_shape=own[2])
    covar = os_mod if h["arch"] == "plain" else os_mod + K.ScaleKernel(base)      # shared: the SAME base kernel object on two paths
    model = Model(x, y, lik, mean, covar).to(D)
    early = objectives(gpytorch, model)
    for k, (mod, _) in enumerate(hist_parts(model, h["arch"])):
        pname, attr, getter, setter = HIST_REG[k]
        if reg[k] == "closure":
            mod.register_prior(pname, P[k], getter, setter)
        elif reg[k] == "name":
            mod.register_prior(pname, P[k], attr)
    hist_set(torch, model, h, 0, "setter")
    model.train()
    return model, early


def hist_apply(torch, gpytorch, h, objs, op, seed, gen_of):
    """objs: list of (model object, objective objects made when it came into existence)"""
    src = objs[op["on"] - 1][0]
    if op["op"] == "set":
        hist_set(torch, src, h, gen_of, op["how"], gpytorch, seed)
    elif op["op"] == "copy":
        new = copy.deepcopy(src)
        objs.append((new, objectives(gpytorch, new)))
    elif op["op"] == "pickle":
        new = pickle.loads(pickle.dumps(src))
        objs.append((new, objectives(gpytorch, new)))
    elif op["op"] == "load":
        new, early = build_hist(torch, gpytorch, h, seed)
        new.load_state_dict(src.state_dict())
        objs.append((new, early))
    else:
        raise core.Machinery("unknown operation %r" % (op,))


def hist_desc(h, ops):
    regs = {SITES[h["arch"]][k]: h["reg"][k] for k in range(4) if h["reg"][k] != "none"}
    steps = ["%s(%d%s)" % (o["op"], o["on"], "," + o["how"] if o["op"] == "set" else "") for o in ops] or ["fresh"]
    return "arch=%s batch=%s N=%d priors registered by %s history=%s" % (h["arch"], list(h["B"]), h["n"], regs, " ; ".join(steps))


def run_hist(torch, gpytorch, case):
    h, ops, exp = case["h"], case["hist"], case["exp"]
    B = tuple(h["B"])
    desc = hist_desc(h, ops)
    opsig = "-".join(o["op"] for o in ops) or "fresh"
    nontrivial = any(f != "none" for f in h["reg"]) and len(ops) > 0
    res = dict(key=["hist", h, ops], ok=True, nontrivial=nontrivial, n=0,
               sample=dict(configuration=desc, expected_other_terms_per_object=[o["exp"] for o in exp["objs"]]))

    def fail(objective, sym, detail):
        res.update(ok=False, sig="C02/history/%s/%s/%s/%s" % (h["arch"], opsig, objective, sym), detail=desc + ": " + detail, case=case)
        return res

    # the operations are part of the scenario: an exception inside them is a failure of the library on this history
    objs = []
    ok, err = core.guarded(lambda: objs.append(build_hist(torch, gpytorch, h, case["seed"])))     # (model, early objectives)
    if not ok:
        if "Machinery" in str(err):
            raise core.Machinery(str(err))
        return fail("build", "raises", "building the model raised %s" % err)
    gen = 0
    for i, op in enumerate(ops):
        if op["op"] == "set":
            gen += 1
        ok, err = core.guarded(lambda: hist_apply(torch, gpytorch, h, objs, op, case["seed"], gen))
        if not ok:
            if "Machinery" in str(err):
                raise core.Machinery(str(err))
            return fail(op["op"], "raises", "operation %d (%s) raised %s" % (i + 1, op["op"], err))
    if len(objs) != len(exp["objs"]):
        raise core.Machinery("replay made %d objects, the specification %d: %s" % (len(objs), len(exp["objs"]), desc))
    own, tails = hist_own(h), TAILS[h["arch"]]
    for oi, ((model, early), eo) in enumerate(zip(objs, exp["objs"])):
        who = "object %d (hyperparameters of generation %d)" % (oi + 1, eo["gen"])
        lik = model.likelihood
        x, y = model.train_inputs[0], model.train_targets
        named = list(model.named_parameters())
        params = [p_ for _, p_ in named]
        parts = hist_parts(model, h["arch"])
        # the current constrained values of THIS object are those of its generation (spec: HPrior)
        for k, (mod, attr) in enumerate(parts):
            want = values(torch, own[k], tails[k]) + float(eo["gen"])
            got = getattr(mod, attr).detach()
            if tuple(got.shape) != tuple(want.shape) or float((got - want).abs().max()) > 1e-9:      # persistence of state is C18's subject
                raise core.Machinery("%s: %s: %s reads %s, the history leaves it at %s" % (desc, who, SITES[h["arch"]][k], got.tolist(), want.tolist()))
        model.train()
        late = objectives(gpytorch, model)
        for objective, hc in (("mll", 0), ("loo", -1)):
            main = main_terms(torch, model, lik, x, y, objective, 1, grad=True)
            want = [float(v) for v in eo["exp"]]
            # gradient: autograd of the dense definition written over the parameters of THIS object
            total = main
            for k, (mod, attr) in enumerate(parts):
                if h["reg"][k] != "none":
                    total = total + dense.per_batch_sum((10.0 ** k) * getattr(mod, attr), B)
            ref = total / exp["div"] + hc * H
            gref = torch.autograd.grad(ref.sum(), params, allow_unused=True)
            for made in exp["made"]:
                fn = (early if made == "built" else late)[objective]
                tag = objective if made == "evaluated" else objective + "-made-at-build"
                whom = "%s, objective object made when %s" % (who, "the model object was made" if made == "built" else "it is evaluated")

                def code():
                    v = fn(model(x), y)
                    return v, torch.autograd.grad(v.sum(), params, allow_unused=True)
                ok, r = core.guarded(code)
                if not ok:
                    return fail(tag, "raises", "%s: objective raised %s" % (whom, r))
                val, gcode = r
                if tuple(val.shape) != B:
                    return fail(tag, "shape", "%s: objective has shape %s, batch shape is %s" % (whom, list(val.shape), list(B)))
                got = ((val.detach().reshape(-1) - hc * H) * exp["div"] - main.detach().reshape(-1)).tolist()
                res["n"] += 1
                if not all(abs(a - b) <= 1e-6 for a, b in zip(got, want)):
                    return fail(tag, "terms", "%s: N_obs * objective - main term = %s per batch element, definition (every prior at the current value of "
                                "this object's parameter) %s" % (whom, [decode(v, h["arch"]) for v in got], [decode(v, h["arch"]) for v in want]))
                for (name, p_), gc, gr in zip(named, gcode, gref):
                    gc = torch.zeros_like(p_) if gc is None else gc
                    gr = torch.zeros_like(p_) if gr is None else gr
                    g_, why = core.close(gc, gr, 1e-7, 1e-9)
                    res["n"] += 1
                    if not g_:
                        return fail(tag, "grad", "%s: gradient w.r.t. %s is %s, autograd of the dense definition %s (%s)" % (whom, name, gc.reshape(-1).tolist(), gr.reshape(-1).tolist(), why))
    return res


RUNNERS = {"asm": run_asm, "sum": run_sum, "rat": run_rat, "hist": run_hist}


def _worker(item):
    torch = core.setup_torch()
    import gpytorch
    try:        # the hooks of other properties record into memory when tracing is on; nothing here reads them
        from gpytorch import _verif
        _verif.events.clear()
    except Exception:
        pass
    import time
    out = []
    for case in item:
        t0 = time.process_time()
        if case["kind"] == "dense":
            out.append(dense.run_cell(torch, gpytorch, case))
        elif case["kind"] == "zoo":
            out.append(dense.run_zoo(torch, gpytorch, case))
        else:
            out.append(RUNNERS[case["kind"]](torch, gpytorch, case))
        out[-1]["cpu"] = (case["kind"], time.process_time() - t0)
    return out


# how the priors of the four slots (noise, mean constant, outputscale, lengthscale) are registered
REG_MENU = (("ctor",) * 4, ("closure",) * 4, ("name",) * 4, ("ctor", "closure", "name", "none"))
REG_MENU_THOROUGH = REG_MENU + (("name", "none", "ctor", "closure"), ("none", "none", "name", "closure"))


def check_slip_counterexample(ck, r):
    """the run with Slips = {name_captures_self} must end in a counterexample to HistoryOK that registers by name, deep-copies
    and changes hyperparameters: otherwise the invariant (or the machine) does not see the class of defect it is there for"""
    v = r.violation
    if not v or v.get("name") != "HistoryOK":
        ck.vacuous("ExactObjective history machine with the slip name_captures_self: TLC found no counterexample to HistoryOK")
        return
    last = plain(v["trace"][-1][1] if isinstance(v["trace"][-1], (tuple, list)) else v["trace"][-1])
    ops = [o["op"] for o in last["c"]["hist"]]
    if "name" not in last["c"]["h"]["reg"] or "copy" not in ops or "set" not in ops:
        ck.vacuous("counterexample of the slip run is not register-by-name / deepcopy / set: %s %s" % (last["c"]["h"]["reg"], ops))
    ck.extra["slip_counterexample"] = dict(slip="name_captures_self", registered=last["c"]["h"]["reg"], history=last["c"]["hist"],
                                           objects=[dict(definition=o["exp"], code_with_slip=o["code"], closure_reads_object=o["reads"]) for o in last["out"]["objs"]])


def check_div_slip_counterexample(ck, r):
    """the assembly run with DivSlips = {num_data_from_target} must end in a counterexample to DivisorOK whose target batch shape
    differs from the distribution's: otherwise the lattice does not contain the pairs of batch shapes that tell the number of
    observations of a batch element from the element count of the target"""
    v = r.violation
    if not v or v.get("name") != "DivisorOK":
        ck.vacuous("ExactObjective assembly lattice with the slip num_data_from_target: TLC found no counterexample to DivisorOK")
        return
    last = plain(v["trace"][-1][1] if isinstance(v["trace"][-1], (tuple, list)) else v["trace"][-1])
    if last["c"]["tb"] == last["c"]["B"]:
        ck.vacuous("counterexample of the divisor slip run has equal batch shapes: %s" % (last["c"],))
    ck.extra["divisor_slip_counterexample"] = dict(slip="num_data_from_target", distribution_batch=last["c"]["B"], target_batch=last["c"]["tb"],
                                                   arch=last["c"]["arch"], objective=last["c"]["obj"], observations=last["out"]["exp"]["div"])


ZOO_CLASSES = ("rbf", "matern", "rq", "pp", "periodic", "cosine", "linear", "poly", "constk", "cyl", "arc")
ZOO_NOISE_KERNELS = ("rbf", "periodic")


def check_zoo_slip_counterexample(ck, r, slip):
    """stored_first / second_sees_noise: TLC must find a fixed (+ learned) noise likelihood that is given noise= (ZooNoiseOK fails); getter_reads_sibling: a class
    with two or more prior arguments whose ranks differ (ZooPriorsOK fails) - otherwise the zoo lacks the cells these defects need"""
    inv = "ZooPriorsOK" if slip == "getter_reads_sibling" else "ZooNoiseOK"
    v = r.violation
    if not v or v.get("name") != inv:
        ck.vacuous("ExactObjective zoo with the slip %s: TLC found no counterexample to %s" % (slip, inv))
        return
    last = plain(v["trace"][-1][1] if isinstance(v["trace"][-1], (tuple, list)) else v["trace"][-1])
    c, o = last["c"], last["out"]
    if slip == "stored_first" and not (c["kw"] == "noise" and c["lik"] in ("fixed", "fixedlearn")):
        ck.vacuous("counterexample of the slip run stored_first is not a fixed noise likelihood given noise=: %s" % (c,))
    if slip == "second_sees_noise" and not (c["kw"] == "noise" and c["lik"] == "fixedlearn"):
        ck.vacuous("counterexample of the slip run second_sees_noise is not a fixed + learned noise likelihood given noise=: %s" % (c,))
    if slip == "getter_reads_sibling" and o["reads"] == [t[2] for t in o["terms"]]:
        ck.vacuous("counterexample of the slip run getter_reads_sibling reads every parameter at its own rank: %s" % (c,))
    ck.extra.setdefault("zoo_slip_counterexamples", []).append(dict(slip=slip, cell=c, definition_noise=o["noise"], code_with_slip_noise=o["codeNoise"],
                                                                    terms=o["terms"], code_with_slip_reads_rank=o["reads"]))


# ---------------------------------------------------------------------------------------------
def run(ck):
    thorough = ck.tier == "thorough"
    core.setup_torch()
    import gpytorch  # noqa: F401  (imported before the workers fork)
    rnd = random.Random(ck.seed)
    ck.rule = ("assembly: every configuration TLC enumerates (module DAG plain / kernel object shared by two paths / multitask x objective x batch "
               "shape of the distribution x batch shape of the target {equal, extra leading dimensions, batch dimensions missing, unit dimensions, "
               "unit dimensions of the distribution widened, both} x N x {no prior, prior on an unbatched parameter, prior on a batched parameter} per "
               "site x added-loss menu; away from equal shapes: at most one prior site or all four of one kind, two added-loss settings), stub terms "
               "decoded per element of the broadcast batch shape from the real objective with the divisor N x tasks and compared with the declarative "
               "sum; non-trivial = at least one prior or added loss term present.  "
               "sum: every sequence of member models up to the bound; non-trivial = more than one member.  rational: seeded integer instances, "
               "distinct by construction; non-trivial = n >= 2 and a non-diagonal kernel matrix.  dense: every lattice cell (kernel x mean x "
               "likelihood x batch x prior assignment x objective x solver setting x {priors given to the constructors, registered by parameter name} x "
               "{fresh, deep copy then other hyperparameters, fresh model that loaded a state_dict} + batch shape of the modules {(), (2), (1)} x batch "
               "shape of the target (same classes as the assembly) x {inputs carry the batch shape, one set of inputs shared by the batch}) x seeds, "
               "value per broadcast batch element against [log N + log priors] / (N x tasks) and gradient of a weighted sum over the batch elements "
               "w.r.t. every raw hyperparameter; non-trivial = all; distinct = cells.  history: every reachable state of the machine of part \"history\" (registration "
               "menu over {none, constructor argument, closure + setting closure, parameter name} per site x module DAG x batch shape x every sequence "
               "of <= 3 operations from {set hyperparameters, copy.deepcopy, fresh model + load_state_dict, pickle round trip} on <= 3 objects), for "
               "EVERY live object: stub digits of both objectives (objective object made with the model / made at evaluation) against the values of "
               "that object's own parameters, and the gradient w.r.t. every raw hyperparameter against autograd of the dense definition; non-trivial = "
               "at least one prior and at least one operation.  zoo: every cell of part \"zoo\" ({homoskedastic, fixed, fixed + learned "
               "additional noise} x {noise= given with one entry per training point, not given} x {train inputs passed as *params, not passed} x batch {(), (2)} "
               "x objective, over RBF and Periodic kernels; every class of ZooClasses (RBF, Matern, RQ, PiecewisePolynomial, Periodic, Cosine, Linear, "
               "Polynomial, Constant, Cylindrical, Arc) under a ScaleKernel with ConstantMean and GaussianLikelihood, EVERY *_prior constructor argument "
               "given, prior families rotated), every parameter set to a value of its own through its public setter; value and gradient w.r.t. every raw "
               "hyperparameter against [log N(y; m, K + S) + closed-form log densities at the public parameter properties] / N with S summed by hand "
               "from the components the specification lists; non-trivial = all; distinct = cells")
    ck.assumptions = [
        "exact Cholesky paths only: gpytorch.settings.fast_computations(log_prob=False) and the default setting below max_cholesky_size; the stochastic "
        "CG/Lanczos estimate 'within its statistical tolerance' is not decided",
        "LOO is defined for single-output models (LeaveOneOutPseudoLikelihood cannot consume multitask targets); its prior / added-loss terms enter divided by N",
        "SumMarginalLogLikelihood is read as the mean over the member models of their objectives (its docstring's reading, which the code satisfies)",
        "a parameter is either unbatched or carries the full batch shape of the marginal distribution (no partially batched parameters); the target's "
        "batch shape is any shape of ExactObjective.tla TargetShapes that broadcasts against it; 'per batch element' is read as per element of the "
        "broadcast of the two shapes and 'the number of observations' as that of one batch element (N x tasks), whatever the two shapes are",
        "the float64 lattice stays on the cells where the prior-shape inference of _add_other_terms is right (DenseConventional); the others are "
        "decided exactly by the assembly part",
        "the same added-loss term object registered on two modules is not enumerated",
        "missing observations (observation_nan_policy) belong to C16",
        "a noise= keyword given to the objective is the observation noise of that evaluation: it replaces the stored noise of a fixed noise likelihood "
        "(FixedNoiseGaussianLikelihood documents it) and the learned noise of a homoskedastic one (HomoskedasticNoise.forward documents it; its prior "
        "term stays); the learned additional noise of a fixed noise likelihood is added in either case.  LeaveOneOutPseudoLikelihood.forward takes no "
        "keywords, so noise= is enumerated for the marginal log likelihood only; train inputs as *params for both",
        "SpectralMixtureKernel (its constructor states that priors are not implemented), HammingKernel (categorical inputs) and the multitask classes' "
        "task priors are not in the zoo; MultitaskGaussianLikelihood's noise priors are in the dense lattice",
        "float64, 4-7 points (dense) / 2-3 points (assembly), noise >= 0.3 of a signal variance <= 2.7, cond(K+S) <= 1e4 verified on the oracle side",
        "real priors are constructed with float64 tensor parameters (with python floats LogNormalPrior evaluates log(scale) in float32; that is the prior's business)",
        "stub priors are linear in the value they are given, so a prior evaluated at the raw instead of the constrained value decodes to a non-integer",
        "histories: single-output models (one kernel / one kernel object on two paths), every registered prior on a parameter that carries the batch "
        "shape of the objective; the closure form uses importable functions (a lambda cannot be pickled - the user's business)",
        "pickle round trips are enumerated for models without name-registered priors only: the function Module.register_prior makes for a parameter "
        "name is local to it and pickle refuses it on the unchanged tree (known finding of C18, not a statement of C02)",
        "a model object whose parameters do not read back the values its history leaves them at is a machinery failure here (persistence is C18's subject)",
    ]
    wd = os.path.join(tlc.BUILD, PID)
    archs = ("plain", "shared", "mtask")
    # batch shapes of the distribution; against each of them the target takes every batch shape of TargetShapes (equal, extra
    # leading dimensions of the sizes `extras`, missing batch dimensions, unit dimensions, widened unit dimensions, both)
    batches = ((), (2,), (3,), (2, 2), (1,), (2, 1), (1, 2)) if thorough else ((), (2,), (2, 2), (1,), (2, 1))
    pattern_batches = batches if thorough else ((), (2,), (1,), (2, 1))
    extras = (1, 2, 3) if thorough else (1, 3)
    lattice_extras = (1, 3) if thorough else (3,)
    ns = (2, 3) if thorough else (3,)
    ninst = 2000 if thorough else 300
    parts = 4 if thorough else 2
    insts = gen_instances(rnd, ninst)
    jobs, labels = [], []

    def job(name, label, part, dump, **kw):
        inv = kw.pop("invariants")
        workers = kw.pop("workers", 4)
        mod, cfg = write_mc(wd, name, part, invariants=inv, **kw)
        jobs.append(((mod, cfg), dict(name=PID + "/" + name, dump=dump, check=False, workers=workers, timeout=1500)))
        labels.append(label)

    cur_inv = ["ConventionalOK"] + (["PredictionsSharp"] if not REPAIRS_IN_TREE else [])
    for a in archs:
        job("asm_" + a, "assembly %s (model of the code in the tree + repaired model)" % a, "assembly", True, repairs=REPAIRS_IN_TREE, archs=(a,), batches=batches,
            ns=ns, extras=extras, patternbatches=pattern_batches, invariants=cur_inv + ["AssemblyOK", "DivisorOK"], workers=4)
    # the same lattice with the slip "the number of observations is read off the target's shape": DivisorOK must fail
    job("asm_slip", "assembly with the slip num_data_from_target (a counterexample is required)", "assembly", False, repairs=ALL_REPAIRS, archs=("plain", "mtask"),
        batches=((), (2,)), patternbatches=((), (2,)), ns=(3,), extras=(3,), invariants=["DivisorOK"], workers=1, divslips=("num_data_from_target",))
    job("sum", "SumMarginalLogLikelihood", "sum", True, repairs=REPAIRS_IN_TREE, ns=(2, 3), maxmodels=3 if thorough else 2, invariants=["SumOK"], workers=2)
    job("lattice", "dense lattice", "lattice", True, invariants=["LatticeOK"], workers=2, extras=lattice_extras)
    # ---- zoo: noise structure x forwarded arguments; every class with *_prior arguments, every parameter at its own value
    zoo_kw = dict(ns=(4, 6) if thorough else (5,), zookernels=ZOO_CLASSES, noisekernels=ZOO_NOISE_KERNELS, rots=(0, 1, 2) if thorough else (0, 1))
    job("zoo", "zoo (noise structure x forwarded arguments, classes with prior arguments)", "zoo", True, invariants=["ZooNoiseOK", "ZooPriorsOK", "ZooDistinct"],
        workers=2, **zoo_kw)
    for slip in ("stored_first", "second_sees_noise", "getter_reads_sibling"):
        job("zoo_slip_" + slip, "zoo with the slip %s (a counterexample is required)" % slip, "zoo", False, invariants=["ZooNoiseOK", "ZooPriorsOK", "ZooDistinct"],
            workers=1, zooslips=(slip,), **dict(zoo_kw, ns=(5,), rots=(0,)))
    # ---- history machine: registration forms x operations on the model objects
    hist_archs = ("plain", "shared") if "prior_memo" in REPAIRS_IN_TREE else ("plain",)
    hist_kw = dict(repairs=REPAIRS_IN_TREE, ns=(3,), regmenu=REG_MENU_THOROUGH if thorough else REG_MENU, histlen=3, maxobjs=3, maxgen=2,
                   sethows=("setter", "raw", "state_dict") if thorough else ("setter",))
    for a in hist_archs:
        for b in ((((), (2,), (2, 2)) if a == "plain" else ((), (2,))) if thorough else (((2,),) if a == "plain" else ((),))):
            job("hist_%s_B%d" % (a, len(b)), "history %s batch %s" % (a, list(b)), "history", True, archs=(a,), batches=(b,),
                invariants=["HistoryOK", "ReadsThis"], workers=2, **hist_kw)
    # the same machine with the slip "the function made for a parameter name reads the registering module": HistoryOK must fail
    job("hist_slip", "history with the slip name_captures_self (a counterexample is required)", "history", False, archs=("plain",), batches=((),),
        invariants=["HistoryOK"], workers=1, slips=("name_captures_self",), **dict(hist_kw, regmenu=REG_MENU, sethows=("setter",)))
    for p in range(parts):
        job("rational_%d" % p, "rational instances %d" % p, "rational", True, instances=insts[p::parts], invariants=["RationalOK"], workers=3)
    import time
    t_tlc = time.time()
    rs = tlc.run_many(jobs, parallel=int(os.environ.get("VERIF_C02_TLC_PARALLEL", len(jobs))))
    t_tlc = time.time() - t_tlc
    by = dict(zip([j[1]["name"].split("/", 1)[1] for j in jobs], rs))
    for lab, r, jb in zip(labels, rs, jobs):
        ck.add_tlc(r, "ExactObjective " + lab)
        if jb[1]["name"].endswith("/hist_slip"):
            check_slip_counterexample(ck, r)
            continue
        if jb[1]["name"].endswith("/asm_slip"):
            check_div_slip_counterexample(ck, r)
            continue
        if "/zoo_slip_" in jb[1]["name"]:
            check_zoo_slip_counterexample(ck, r, jb[1]["name"].split("/zoo_slip_", 1)[1])
            continue
        if r.violation:
            # every invariant is a statement about the specification alone (the transcribed code of the tree enters the replay as data: out.agree)
            raise tlc.TLCError("ExactObjective.tla %s violates %s: %s" % (lab, r.violation["name"], str(r.violation["trace"][-1:])[:600]))
        if r.rc != 0:
            raise tlc.TLCError("TLC failed on ExactObjective %s:\n%s" % (lab, r.stdout[-1500:]))
        ck.require_coverage(r, ["Operate" if "/hist_" in jb[1]["name"] else "Evaluate"])
    r_asm = [by["asm_" + a] for a in archs]
    r_sum, r_lat = by["sum"], by["lattice"]
    r_rat = [by["rational_%d" % p] for p in range(parts)]
    ck.extra["exhaustive_parts"] = ["assembly lattice", "SumMarginalLogLikelihood member sequences up to the bound", "cells of the dense lattice",
                                    "histories up to 3 operations / 3 objects / 2 changes of the hyperparameters over the registration menu",
                                    "cells of the zoo (noise structure x forwarded arguments; classes with prior arguments)"]
    ck.extra["sampled_parts"] = ["rational instances (seeded)", "float64 data / hyperparameters per dense cell (seeded)"]

    def evaluated(res):
        return [st for st in res.states() if st["out"] != () and st["out"] != []]

    cases = []
    # ---- assembly
    npred, asm_patterns = 0, {}
    for r in r_asm:
        for st in evaluated(r):
            cf, out = plain(st["c"]), plain(st["out"])
            cf.pop("stub", None)
            npred += 0 if out["agree"] else 1
            if not out["divisor"]:
                raise core.Machinery("assembly state with a wrong divisor passed the invariant: %s" % (cf,))
            pat = out["exp"]["pattern"]
            asm_patterns[pat] = asm_patterns.get(pat, 0) + 1
            cases.append(dict(kind="asm", cf=cf, exp=out["exp"], code=out["code"], agree=bool(out["agree"]), why=out["why"], seed=ck.seed * 7919 + len(cases)))
    nasm = len(cases)
    if nasm == 0:
        ck.vacuous("no assembly configurations generated")
    if set(asm_patterns) != set(PATTERNS):
        ck.vacuous("assembly lattice: (distribution batch, target batch) patterns reached: %s of %s" % (sorted(asm_patterns), list(PATTERNS)))
    ck.section("assembly", configurations=nasm, predicted_to_fail_by_model=npred, configurations_by_batch_pattern=dict(sorted(asm_patterns.items())))
    # ---- sum
    nsum = 0
    for st in evaluated(r_sum):
        cases.append(dict(kind="sum", sc=plain(st["c"]), exp=plain(st["out"])["exp"], seed=ck.seed * 7919 + len(cases)))
        nsum += 1
    if nsum == 0:
        ck.vacuous("no SumMarginalLogLikelihood configurations generated")
    ck.section("sum", configurations=nsum)
    # ---- rational
    nrat = 0
    by_key = {repr((i["X"], i["s"], i["mc"], i["y"])): i for i in insts}
    for r in r_rat:
        for st in evaluated(r):
            c = plain(st["c"])
            inst = by_key.get(repr((c["X"], c["s"], c["mc"], c["y"])))
            if inst is None:
                raise core.Machinery("TLC returned an instance that was not generated: %s" % c)
            o = plain(st["out"])
            if not (o["pd"] and o["looAgree"] and o["elimAgree"]):
                raise core.Machinery("rational instance with a false clause passed the invariant: %s" % o)
            cases.append(dict(kind="rat", inst=inst, out=dict(det=o["det"], quad=o["quad"], mu=o["mu"], s2=o["s2"])))
            nrat += 1
    if nrat != len(insts):
        ck.vacuous("TLC evaluated %d of %d rational instances" % (nrat, len(insts)))
    ck.section("rational", instances=nrat)
    # ---- dense lattice
    ncell, cell_patterns = 0, {}
    nseeds = 4 if thorough else 1
    for st in evaluated(r_lat):
        cell, out = plain(st["c"]), plain(st["out"])
        ncell += 1
        pat = out["pattern"] + ("/shared inputs" if cell["xb"] == "shared" else "")
        cell_patterns[pat] = cell_patterns.get(pat, 0) + 1
        for k in range(nseeds):
            cases.append(dict(kind="dense", cell=cell, exp=out, seed=(ck.seed * 104729 + ncell * 31 + k * 7) % (2 ** 31)))
    if ncell == 0:
        ck.vacuous("no dense lattice cells generated")
    if not set(PATTERNS) - {"mixed"} <= set(cell_patterns) or "equal/shared inputs" not in cell_patterns:
        ck.vacuous("dense lattice: (distribution batch, target batch) patterns reached: %s" % sorted(cell_patterns))
    ck.section("dense", cells=ncell, seeds_per_cell=nseeds, cells_by_batch_pattern=dict(sorted(cell_patterns.items())))
    # ---- zoo
    nzoo, zoo_seen = 0, dict(classes=set(), noise=set(), forwarded=set(), prior_arguments=set())
    for st in evaluated(by["zoo"]):
        cell, out = plain(st["c"]), plain(st["out"])
        if out["codeNoise"] != out["noise"] or out["reads"] != [t[2] for t in out["terms"]]:
            raise core.Machinery("zoo state with a false clause passed the invariants: %s" % (out,))
        nzoo += 1
        zoo_seen["classes"].add(cell["kernel"])
        zoo_seen["noise"].add("+".join(k for k in ("call", "stored", "learned", "second") for _ in range(out["noise"][k])))
        zoo_seen["forwarded"].add("%s/%s/%s" % (cell["lik"], "noise=" if cell["kw"] == "noise" else "-", "inputs" if cell["args"] == "inputs" else "-"))
        zoo_seen["prior_arguments"].update(t[0] for t in out["terms"])
        for k in range(2 if thorough else 1):
            cases.append(dict(kind="zoo", cell=cell, exp=dict(params=out["params"], terms=out["terms"], noise=out["noise"], shape=out["shape"], div=out["div"]),
                              seed=(ck.seed * 15485863 + nzoo * 37 + k * 11) % (2 ** 31)))
    if zoo_seen["classes"] != set(ZOO_CLASSES) or zoo_seen["noise"] != {"call", "stored", "learned", "call+second", "stored+second"} or len(zoo_seen["forwarded"]) != 12:
        ck.vacuous("zoo: classes %s / noise structures %s / forwarded argument combinations %s reached" % (
            sorted(zoo_seen["classes"]), sorted(zoo_seen["noise"]), sorted(zoo_seen["forwarded"])))
    ck.section("zoo", cells=nzoo, classes=sorted(zoo_seen["classes"]), noise_structures=sorted(zoo_seen["noise"]),
               forwarded=sorted(zoo_seen["forwarded"]), parameters_with_prior_argument=sorted(zoo_seen["prior_arguments"]))
    # ---- histories: every reachable state of the machine is one history
    nhist, forms_seen, ops_seen = 0, set(), set()
    for name_, r in by.items():
        if not name_.startswith("hist_") or name_ == "hist_slip":
            continue
        for st in r.states():
            c, out = plain(st["c"]), plain(st["out"])
            if any(o["code"] != o["exp"] for o in out["objs"]):
                raise core.Machinery("history state with a misread prior passed the invariant: %s" % out)
            forms_seen.update(c["h"]["reg"])
            ops_seen.update(o["op"] for o in c["hist"])
            cases.append(dict(kind="hist", h=c["h"], hist=c["hist"], exp=dict(objs=[dict(gen=o["gen"], exp=o["exp"]) for o in out["objs"]], div=out["div"], made=out["made"]),
                              seed=ck.seed * 7919 + len(cases)))
            nhist += 1
    if forms_seen != {"none", "ctor", "closure", "name"} or ops_seen != {"set", "copy", "load", "pickle"}:
        ck.vacuous("history machine: registration forms %s / operations %s reached" % (sorted(forms_seen), sorted(ops_seen)))
    ck.section("history", histories=nhist, registration_forms=sorted(forms_seen), operations=sorted(ops_seen))

    rnd.shuffle(cases)
    chunk = 12
    items = [cases[i:i + chunk] for i in range(0, len(cases), chunk)]
    t_rep = time.time()
    results = core.pmap(_worker, items, chunksize=1)
    ck.extra["phase_wall_s"] = dict(tlc=round(t_tlc, 1), replay=round(time.time() - t_rep, 1))
    cpu = {}
    for r in results:
        k, t = r.pop("cpu", ("?", 0.0))
        cpu[k] = cpu.get(k, 0.0) + t
    ck.extra["replay_cpu_s_by_kind"] = {k: round(v, 1) for k, v in sorted(cpu.items())}
    # failures outside the classes the specification predicts for the tree are reported first (the list of cells that is printed is cut)
    predicted_classes = ("C02/loo-mean-reshaped-to-target/", "C02/assembly/unbatched-prior-taken-for-batched/", "C02/assembly/shared-module/")
    results.sort(key=lambda r: 1 if r.get("ok", True) or str(r.get("sig", "")).startswith(predicted_classes) else 0)
    ck.absorb(results)
    failing = {}
    for r in results:
        if not r.get("ok", True):
            failing[r["sig"]] = failing.get(r["sig"], 0) + 1
    ck.extra["failing_cells_by_signature"] = dict(sorted(failing.items()))
    # ---- predictions of the code-shaped model vs the real code
    asm = [r for r in results if r.get("key", [None])[0] == "asm"]
    confirmed = sum(1 for r in asm if r.get("predicted") and not r.get("ok", True))
    refuted = sum(1 for r in asm if r.get("predicted") and r.get("ok", True))
    unpredicted = sum(1 for r in asm if not r.get("predicted") and not r.get("ok", True))
    mismatch = sum(1 for r in asm if r.get("code_matches_model") is False)
    ck.extra["predictions"] = dict(repairs_modelled=list(REPAIRS_IN_TREE), cells_predicted_to_fail=npred, confirmed_on_real_code=confirmed,
                                   refuted=refuted, failures_not_predicted_by_model=unpredicted, cells_where_model_of_code_differs_from_real_result=mismatch)
    if refuted:
        ck.model_drift("%d assembly cells predicted to fail by ExactObjective.tla (Repairs = %s) pass on the real code: a repair is in the tree, "
                       "add its name to REPAIRS_IN_TREE in checks/c02.py" % (refuted, list(REPAIRS_IN_TREE)))
    if mismatch and not unpredicted:
        ck.model_drift("%d assembly cells: the real objective differs from the transcribed code's result in ExactObjective.tla (property verdicts are unaffected)" % mismatch)


def replay(rep):
    torch = core.setup_torch()
    import gpytorch
    case = rep["case"]
    r = dense.run_cell(torch, gpytorch, case) if case["kind"] == "dense" else dense.run_zoo(torch, gpytorch, case) if case["kind"] == "zoo" \
        else RUNNERS[case["kind"]](torch, gpytorch, case)
    if not r["ok"]:
        print("VIOLATION property=C02 replay=- :: %s :: %s" % (r["sig"], r["detail"]))
        return 1
    print("replay passed")
    return 0
