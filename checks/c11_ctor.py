"""C11, constructor part: from_batch_mvn / from_repeated_mvn / from_independent_mvns over the lattice of MTCtor.tla
(batch rank up to 4, every position of task_dim in both spellings plus the two nearest invalid values, sizes all equal /
pairwise distinct / with ones, broadcast batch shapes of the independent MVNs).

Spec: MTCtor.tla - the denotation SrcOf(g, a) = (source s, batch member f) in explicit index arithmetic, checked by TLC against
the literal permute / expand / stack calls of the code.  Replay: every TLC case is built with LABELLED sources (mean entries
1000*s + f*n + i, covariances with entries unique per (s, f, i, j)), handed to the real constructor, and the result is
compared per batch member with the directly written joint of independent tasks: mean (exact), covariance over (point, task)
pairs in the result's own storage order, log_prob against the sum of the tasks' densities."""
import os

from harness import core, tlc
from checks.c11_layout import ref_logpdf, var_order

PID = "C11"
INVARIANTS = ["RaisesIffInvalid", "CodeMeanIsDenotation", "CodeCovIsDenotation", "KeepsBatchOrder", "LabelsFit", "LabelsUnique"]


def write_mc(workdir, variant, consts):
    os.makedirs(workdir, exist_ok=True)
    mod = "MC_MTCtor_" + variant
    with open(os.path.join(workdir, mod + ".tla"), "w") as f:
        f.write("---- MODULE %s ----\nEXTENDS MTCtor\nNSetDef == {%s}\nTSetDef == {%s}\n====\n" % (
            mod, ", ".join(map(str, consts["NSet"])), ", ".join(map(str, consts["TSet"]))))
    cfg = os.path.join(workdir, mod + ".cfg")
    cs = {k: v for k, v in consts.items() if k not in ("NSet", "TSet")}
    cs.update(NSet="<- NSetDef", TSet="<- TSetDef", Variant=variant)
    tlc.write_cfg(cfg, spec="Spec", constants=cs, invariants=INVARIANTS)
    return os.path.join(workdir, mod + ".tla"), cfg


# ---- labelled sources (the harness side of MTCtor.tla's MeanLabel) -------------------------------------------
U = 1 << 17


def source(torch, s, shape, n):
    """source s (1-based): mean[f, i] = 1000*s + f*n + i; K[f][i, j] unique per (s, f, {i, j}), strictly diagonally dominant"""
    nb = 1
    for b in shape:
        nb *= b
    mean = (1000.0 * s + torch.arange(nb * n, dtype=torch.float64)).reshape(*shape, n)
    ident = (s * 1000 + torch.arange(nb)).reshape(nb, 1, 1)
    i = torch.arange(n).reshape(1, n, 1)
    j = torch.arange(n).reshape(1, 1, n)
    lo, hi = torch.minimum(i, j), torch.maximum(i, j)
    u = 1 + (ident * n + lo) * n + hi
    if int(u.max()) >= U:
        raise core.Machinery("covariance labels overflow")
    K = u.double() / U + (n + 1.0) * torch.eye(n, dtype=torch.float64)
    return mean, K.reshape(*shape, n, n)


def describe(c):
    if c["ctor"] == "from_batch_mvn":
        return "from_batch_mvn(batch MVN %s x n=%d, task_dim=%d)" % (list(c["shapes"][0]), c["n"], c["td"])
    if c["ctor"] == "from_repeated_mvn":
        return "from_repeated_mvn(MVN %s x n=%d, num_tasks=%d)" % (list(c["shapes"][0]), c["n"], c["t"])
    return "from_independent_mvns(MVNs with batch shapes %s, n=%d)" % ([list(s) for s in c["shapes"]], c["n"])


def cell(c):
    r = len(c["shapes"][0])
    if c["ctor"] == "from_batch_mvn":
        td = c["td"]
        if not (-r <= td < r):
            return "task_dim=%s" % ("rank" if td == r else "-rank-1")
        pos = td % r
        return "rank=%d/dims-after-task=%d" % (r, r - 1 - pos)
    if c["ctor"] == "from_repeated_mvn":
        return "rank=%d" % r
    same = all(list(s) == list(c["shapes"][0]) for s in c["shapes"])
    return "rank=%d/%s" % (max(len(s) for s in c["shapes"]), "same-shapes" if same else "broadcast")


def one_case(torch, c, e, seed):
    from gpytorch.distributions import MultitaskMultivariateNormal, MultivariateNormal
    ctor, n = c["ctor"], c["n"]
    shapes = [tuple(s) for s in c["shapes"]]
    desc = describe(c)
    key = [ctor, [list(s) for s in shapes], c["td"], c["t"], n]
    out = []

    def res(aspect, ok, detail="", nontrivial=True, sample=None):
        r = dict(key=key + [aspect], ok=ok, nontrivial=nontrivial, sig="C11/ctor/%s/%s/%s" % (ctor, aspect, cell(c)), detail="%s: %s" % (desc, detail))
        if not ok:
            r["case"] = dict(ctor_case=c, expect=e, seed=seed)
        if sample is not None:
            r["sample"] = sample
        out.append(r)

    srcs = {s + 1: source(torch, s + 1, sh, n) for s, sh in enumerate(shapes)}
    mvns = {s: MultivariateNormal(m, K) for s, (m, K) in srcs.items()}
    if ctor == "from_batch_mvn":
        call = lambda: MultitaskMultivariateNormal.from_batch_mvn(mvns[1], task_dim=c["td"])  # noqa: E731
    elif ctor == "from_repeated_mvn":
        call = lambda: MultitaskMultivariateNormal.from_repeated_mvn(mvns[1], num_tasks=c["t"])  # noqa: E731
    else:
        call = lambda: MultitaskMultivariateNormal.from_independent_mvns([mvns[s + 1] for s in range(len(shapes))])  # noqa: E731
    ok, r = core.guarded(call)
    if e["err"]:
        if ok:
            got = core.guarded(lambda: (list(r.mean.shape), list(r.covariance_matrix.shape)))[1]
            res("accepts-invalid-task_dim", False, "task_dim names no batch dimension of a batch shape of rank %d, but a distribution came back (mean / covariance shapes %s)" % (
                len(shapes[0]), got), nontrivial=False)
        else:
            res("rejects-invalid-task_dim", True, nontrivial=False)
        return out
    if not ok:
        res("raises", False, r)
        return out
    bshape, t = list(e["bshape"]), e["t"]
    nb = 1
    for b in bshape:
        nb *= b
    src = [tuple(x) for x in e["src"]]
    if len(src) != nb * t:
        raise core.Machinery("MTCtor.tla: src has %d entries for %d members x %d tasks" % (len(src), nb, t))
    want_mean = torch.tensor(list(e["mean"]), dtype=torch.float64).reshape(*bshape, n, t)
    # harness-side self check: the spec's mean labels are the labels of the source members it names
    flatm = {s: m.reshape(-1, n) for s, (m, K) in srcs.items()}
    flatK = {s: K.reshape(-1, n, n) for s, (m, K) in srcs.items()}
    wm = want_mean.reshape(nb, n, t)
    for g in range(nb):
        for a in range(t):
            s, f = src[g * t + a]
            if not torch.equal(wm[g, :, a], flatm[s][f]):
                raise core.Machinery("MTCtor.tla mean labels disagree with the harness labelling on %s member %d task %d" % (desc, g, a))
    nontrivial = nb * t > 1
    sample = dict(case=desc, result_batch_shape=bshape, tasks=t, member_of_source_for_each_result_member_and_task=[list(x) for x in src[:12]])
    ok, got = core.guarded(lambda: (r.mean, r.covariance_matrix, bool(r._interleaved), list(r.batch_shape), list(r.event_shape), r.variance))
    if not ok:
        res("raises", False, "the result cannot be evaluated: %s" % got)
        return out
    mean, cov, inter, bs, es, var = got
    if list(mean.shape) != bshape + [n, t] or bs != bshape or es != [n, t]:
        res("shape", False, "mean shape %s, batch_shape %s, event_shape %s; expected batch shape %s and event shape %s" % (
            list(mean.shape), bs, es, bshape, [n, t]), nontrivial)
        return out
    if not torch.equal(mean.double(), want_mean):
        bad = (mean.double() != want_mean).nonzero()[0].tolist()
        lab = int(mean[tuple(bad)])
        res("mean", False, "mean%s = %s is the mean of source %d member %d point %d; it must be that of member %d point %d (label %d): the entries of the source are permuted" % (
            bad, lab, lab // 1000, (lab % 1000) // n, (lab % 1000) % n, (int(want_mean[tuple(bad)]) % 1000) // n, (int(want_mean[tuple(bad)]) % 1000) % n,
            int(want_mean[tuple(bad)])), nontrivial)
        return out
    res("mean", True, nontrivial=nontrivial, sample=sample)
    # covariance over (point, task) pairs in the result's own storage order (MTLayout.tla VarAt)
    order = var_order(n, t, inter)
    want = torch.zeros(nb, n * t, n * t, dtype=torch.float64)
    rows = [torch.tensor([p for p, (i, b) in enumerate(order) if b == a]) for a in range(t)]     # rows of task a, by point
    for g in range(nb):
        for a in range(t):
            s, f = src[g * t + a]
            want[g][rows[a].unsqueeze(-1), rows[a].unsqueeze(0)] = flatK[s][f]
    want = want.reshape(*bshape, n * t, n * t)
    good, why = core.close(cov, want, 1e-10, 0)
    res("cov", good, "the covariance of some batch member is not that of independent tasks taken from the source members the mean comes from (interleaved=%s): %s" % (inter, why), nontrivial)
    if not good:
        return out
    want_var = torch.stack([torch.stack([torch.diagonal(flatK[src[g * t + a][0]][src[g * t + a][1]]) for a in range(t)], -1) for g in range(nb)]).reshape(*bshape, n, t)
    good, why = core.close(var, want_var, 1e-10, 0)
    res("variance", good, "variance[g, i, a] is not the variance of point i of the source member that is task a of member g: %s" % why, nontrivial)
    gen = torch.Generator().manual_seed(seed)
    Y = want_mean + torch.randn(*bshape, n, t, generator=gen, dtype=torch.float64)
    ok, lp = core.guarded(lambda: r.log_prob(Y))
    if not ok:
        res("log_prob", False, lp, nontrivial)
        return out
    Yf = Y.reshape(nb, n, t)
    ref = torch.stack([sum(ref_logpdf(torch, Yf[g, :, a], flatm[src[g * t + a][0]][src[g * t + a][1]], flatK[src[g * t + a][0]][src[g * t + a][1]]) for a in range(t))
                       for g in range(nb)]).reshape(bshape)
    good, why = core.close(lp, ref, 1e-9, 1e-9)
    res("log_prob", good, "log_prob of some batch member is not the sum of the log densities of its tasks: %s" % why, nontrivial)
    return out


def _worker(item):
    torch = core.setup_torch()
    out = []
    for c, e in item["cases"]:
        out.extend(one_case(torch, c, e, item["seed"]))
    return out


def constants(thorough):
    if thorough:
        return dict(MaxRank=4, FullRank=3, MaxSize=4, DistinctLo=2, IndepRank=3, NSet=[1, 2, 3], TSet=[1, 2, 3])
    return dict(MaxRank=4, FullRank=3, MaxSize=3, DistinctLo=1, IndepRank=2, NSet=[2, 3], TSet=[1, 2, 3])


def run(ck):
    thorough = ck.tier == "thorough"
    wd = os.path.join(tlc.BUILD, PID, "ctor")
    consts = constants(thorough)
    small = dict(consts, MaxRank=3, FullRank=3, MaxSize=2, IndepRank=1, NSet=[2], TSet=[1, 2])
    jobs = []
    mod, cfg = write_mc(wd, "fixed", consts)
    jobs.append(((mod, cfg), dict(name=PID + "/ctor_fixed", timeout=1800, dump=True, check=False, workers=2, coverage=False)))
    for variant in ("pinned", "swap"):
        mod, cfg = write_mc(wd, variant, small)
        jobs.append(((mod, cfg), dict(name=PID + "/ctor_" + variant, timeout=600, check=False, workers=1, coverage=False)))
    res, res_pinned, res_swap = tlc.run_many(jobs, parallel=3)
    ck.add_tlc(res, "MTCtor (denotation and model of the current code)")
    ck.add_tlc(res_pinned, "MTCtor pinned-variant (task_dim = rank accepted)")
    ck.add_tlc(res_swap, "MTCtor swap-variant (task dimension moved by two transposes)")
    preds = ck.extra.setdefault("pinned_variant_predictions", {})
    preds["ctor_task_dim_range"] = (res_pinned.violation or {}).get("name")
    preds["ctor_swap_instead_of_move"] = (res_swap.violation or {}).get("name")
    if res_swap.violation is None or res_swap.violation["name"] != "CodeMeanIsDenotation":
        ck.vacuous("MTCtor.tla: the lattice does not separate moving the task dimension from swapping it (swap variant: %s)" % (res_swap.violation,))
    if res.violation is not None:
        ck.model_drift("MTCtor.tla (model of the current code) violates %s" % res.violation["name"])
    elif res.rc != 0:
        raise tlc.TLCError("TLC failed on MTCtor:\n%s" % res.stdout[-1500:])
    cases = []
    for st in res.states():
        c, h = st["c"], st["hist"]
        cases.append((dict(ctor=c["ctor"], shapes=[list(s) for s in c["shapes"]], td=c["td"], t=c["t"], n=c["n"]),
                      dict(err=h["err"], bshape=list(h["bshape"]), t=h["t"], src=[list(x) for x in h["src"]], mean=list(h["mean"]))))
    if not cases:
        ck.vacuous("MTCtor.tla generated no cases")
    by = {}
    for c, e in cases:
        by[c["ctor"]] = by.get(c["ctor"], 0) + 1
    deep = sum(1 for c, e in cases if c["ctor"] == "from_batch_mvn" and not e["err"] and len(c["shapes"][0]) - 1 - (c["td"] % len(c["shapes"][0])) >= 2)
    if deep == 0:
        ck.vacuous("MTCtor.tla: no from_batch_mvn case with two or more batch dimensions after the task dimension")
    ck.section("ctor", cases=len(cases), task_dim_followed_by_2_or_more_batch_dims=deep, **by)
    cases.sort(key=lambda ce: core.digest(ce[0]))      # spread the large cases over the chunks
    items = [dict(cases=cases[i::24], seed=ck.seed * 1000 + 7) for i in range(24)]
    results = core.pmap(_worker, [it for it in items if it["cases"]], chunksize=1)
    ck.absorb(results)
    ck.section("ctor", comparisons=len(results))


def replay(rep):
    torch = core.setup_torch()
    case = rep["case"]
    res = one_case(torch, case["ctor_case"], case["expect"], case["seed"])
    bad = [r for r in res if not r["ok"]]
    for r in bad:
        print("VIOLATION property=C11 replay=- :: %s :: %s" % (r["sig"], r["detail"]))
    if not bad:
        print("replay passed")
    return 1 if bad else 0
