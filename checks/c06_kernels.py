"""C06 helpers: the kernel zoo (every kernel exported by gpytorch.kernels that can be built with simple arguments on
CPU without KeOps), the label stub kernel that binds LazyKernel.tla to the real _getitem code exactly, and input
generators.  Everything is float64; hyperparameters are randomised (seeded) and PAIRWISE DISTINCT over the whole kernel
instance (every ARD component, every batch element, every member of a composition: assert_distinct), so that no
relation can hold by a symmetry of the parameters; c06.py additionally probes that the distinct values are visible
(permuting the input columns of an ARD kernel / swapping the batch elements changes the matrix).

Data geometry (LazyKernel.tla, "the data lattice"): geo_inputs realises the point classes of the spec (origin, unit, lattice,
generic; coincident = the same point twice in an input, shared = the same point in x1 and x2) in the input space of every
zoo kernel - the origin and the unit point live in the ACTIVE subspace of the kernel, the lattice point is the kernel's own
(a whole number of periods away from generic point 3, an exact grid node, an inducing point, the boundary of the support
around point 3, the largest task index, another one-hot row, otherwise the antipode of point 3).  Every realised point is a
point of the kernel's domain (the one-hot kernel gets one-hot rows only: its origin is the first word of the vocabulary)."""
import zlib

import torch
from torch.nn import Parameter

import gpytorch
from gpytorch import kernels as gk

D_FULL = 3  # feature columns of every generated input
AD = (2, 0)  # the active_dims used throughout: NOT ascending on purpose (the order of the selected columns is part of the meaning)


def seed_of(*parts):
    return zlib.crc32(repr(parts).encode()) & 0x7FFFFFFF


def randomise(k, g):
    """Distinct, moderate values for every raw parameter (all constraints are softplus / sigmoid transforms of raw values)."""
    for name, p in k.named_parameters():
        v = torch.rand(p.shape, generator=g, dtype=torch.float64) * 1.5 - 0.75
        if name.endswith("raw_mixture_means"):
            v = v * 0.3 - 1.5
        p.data = v.to(p.dtype)
    return k


def assert_distinct(k, gap=1e-6):
    """No two raw parameter entries of the kernel instance are equal (a draw that collides is a machinery failure: the
    generator is seeded, so this never depends on chance at run time)."""
    ps = [p.detach().reshape(-1).double() for p in k.parameters()]
    if not ps:
        return k
    v = torch.cat(ps).sort().values
    if v.numel() > 1 and float((v[1:] - v[:-1]).min()) < gap:
        from harness import core
        raise core.Machinery("two hyperparameter entries of %s coincide (gap %.2e): the instance is symmetric" % (type(k).__name__, float((v[1:] - v[:-1]).min())))
    return k


# ---------------------------------------------------------------------------------------------------------------
# label stub: entries are the integer labels of LazyKernel.tla
class LabelKernel(gk.Kernel):
    """forward(x1, x2)[b, i*t+a, j*t+c] = ((((p*32 + u)*4 + a)*32 + v)*4 + c) with u = x1[b, i, 0], v = x2[b, j, 0] and
    p = sum_k 8^k * parameter_k[b]: exactly the label LazyKernel.tla assigns.  Parameters are evaluated by plain
    broadcasting against the data, like the lengthscale of a stationary kernel."""

    def __init__(self, t=1, tails=((1, 1),), batch_shape=torch.Size([]), active_dims=None, sens=()):
        super().__init__(batch_shape=batch_shape, active_dims=active_dims)
        self.t = t
        # the components of the environment this kernel's meaning depends on (Sens of LazyKernel.tla): read WHEN forward runs
        self.sens = tuple(sens)
        self.tails = [tuple(x) for x in tails]
        for i, tail in enumerate(self.tails):
            n = 1
            for b in batch_shape:
                n *= b
            self.register_parameter("raw_p%d" % i, Parameter(torch.arange(n, dtype=torch.float64).reshape(*batch_shape, *tail)))

    def num_outputs_per_input(self, x1, x2):
        return self.t

    def _plabel(self):
        tot = None
        for i, tail in enumerate(self.tails):
            p = getattr(self, "raw_p%d" % i)
            if len(tail) == 0:
                p = p.unsqueeze(-1).unsqueeze(-1)
            tot = p * (8 ** i) if tot is None else tot + p * (8 ** i)
        return tot + 64 * self.env_code()  # (*prefix, 1, 1)

    def env_code(self):
        """EnvCode of LazyKernel.tla for the environment in force now"""
        return ((1 if "mode" in self.sens and not self.training else 0) + (2 if "corr" in self.sens and gpytorch.settings.sgpr_diagonal_correction.off() else 0)
                + (4 if "toep" in self.sens and gpytorch.settings.use_toeplitz.off() else 0))

    def forward(self, x1, x2, diag=False, last_dim_is_batch=False, **params):
        t = self.t
        u = x1[..., 0].repeat_interleave(t, dim=-1)  # (..., n1*t)
        v = x2[..., 0].repeat_interleave(t, dim=-1)
        a = torch.arange(t, dtype=x1.dtype).repeat(x1.shape[-2])
        c = torch.arange(t, dtype=x1.dtype).repeat(x2.shape[-2])
        p = self._plabel()
        if diag:
            return (((p[..., 0] * 32 + u) * 4 + a) * 32 + v) * 4 + c
        return (((p * 32 + u.unsqueeze(-1)) * 4 + a.unsqueeze(-1)) * 32 + v.unsqueeze(-2)) * 4 + c


def label_inputs(shape_b, n, col=0):
    """x of shape (*shape_b, n, D_FULL): column `col` holds the row label (row-major over batch and rows), like Iota in the
    spec.  col = active_dims[0] for a stub with active_dims: the stub reads column 0 of the SELECTED columns."""
    tot = n
    for b in shape_b:
        tot *= b
    x = torch.zeros(*shape_b, n, D_FULL, dtype=torch.float64)
    for c, v in zip(range(D_FULL), (0.75, 0.25, -0.5)):
        x[..., c] = v
    x[..., col] = torch.arange(tot, dtype=torch.float64).reshape(*shape_b, n)
    return x


# ---------------------------------------------------------------------------------------------------------------
# the zoo.  make(PB, ad, d) -> kernel over d feature columns (after active_dims selection the kernel sees len(ad)).
class Z:
    def __init__(self, name, make, t=1, batch=True, xkind="real", ad=True, sym=True, diag=True, stack=True, quick=False, eval_mode=False, d=D_FULL, ard=False, xscale=1.0,
                 unit="axis", cusp=False, struct="plain", dvar=False):
        # struct: the composite / multi-output structure (CompositeStructs of LazyKernel.tla) or "plain"; dvar: the diagonal k(x, x) VARIES over
        # the points (declared here, stated by ZooDiagCover, probed on the real kernel by c06.py diag_probe)
        self.struct, self.dvar = struct, dvar
        self.name, self.make, self.t, self.batch, self.xkind, self.d = name, make, t, batch, xkind, d
        # not differentiable at distance 0 (exp(-d/l) with d = sqrt(squared distance)): between two rows that are the SAME point the rounding
        # error of the squared distance (1e-17, different in every call: mean centring) enters with its square root (3e-9)
        self.cusp = cusp
        self.unit = unit  # the unit point: a coordinate axis vector (a one-hot row), or - "sphere" - a point of norm 1 without zero coordinates
        self.xscale = xscale  # inputs are drawn from [-xscale, xscale]^d (compactly supported kernels need points closer than a lengthscale)
        self.ard = ard  # per-dimension parameters: permuting the input columns must change the matrix (probe of c06.py)
        self.ad, self.sym, self.diag, self.stack, self.quick, self.eval_mode = ad, sym, diag, stack, quick, eval_mode
        self.inner_ad = False


def _bs(PB):
    return torch.Size(PB)


def _kw(PB, ad):
    kw = dict(batch_shape=_bs(PB))
    if ad is not None:
        kw["active_dims"] = tuple(ad)
    return kw


def _dim(d, ad):
    return d if ad is None else len(ad)


def zoo():
    out = []

    def add(name, fn, inner_ad=False, **kw):
        out.append(Z(name, fn, **kw))
        out[-1].inner_ad = inner_ad

    add("RBF", lambda PB, ad, d: gk.RBFKernel(**_kw(PB, ad)), quick=True)
    add("RBF-ard", lambda PB, ad, d: gk.RBFKernel(ard_num_dims=_dim(d, ad), **_kw(PB, ad)), ard=True)
    add("Matern0.5", lambda PB, ad, d: gk.MaternKernel(nu=0.5, **_kw(PB, ad)), cusp=True)
    add("Matern1.5", lambda PB, ad, d: gk.MaternKernel(nu=1.5, **_kw(PB, ad)))
    add("Matern2.5-ard", lambda PB, ad, d: gk.MaternKernel(nu=2.5, ard_num_dims=_dim(d, ad), **_kw(PB, ad)), quick=True, ard=True)
    add("RQ", lambda PB, ad, d: gk.RQKernel(**_kw(PB, ad)))
    add("Periodic", lambda PB, ad, d: gk.PeriodicKernel(**_kw(PB, ad)))
    add("Cosine", lambda PB, ad, d: gk.CosineKernel(**_kw(PB, ad)))
    add("Linear", lambda PB, ad, d: gk.LinearKernel(**_kw(PB, ad)), quick=True)
    add("Linear-ard", lambda PB, ad, d: gk.LinearKernel(ard_num_dims=_dim(d, ad), **_kw(PB, ad)), ard=True)
    add("Polynomial", lambda PB, ad, d: gk.PolynomialKernel(power=2, **_kw(PB, ad)))
    add("PiecewisePolynomial", lambda PB, ad, d: gk.PiecewisePolynomialKernel(q=2, **_kw(PB, ad)), xscale=0.15)
    add("Constant", lambda PB, ad, d: gk.ConstantKernel(**_kw(PB, ad)))
    add("SpectralMixture", lambda PB, ad, d: gk.SpectralMixtureKernel(num_mixtures=2, ard_num_dims=_dim(d, ad), **_kw(PB, ad)))
    add("RFF", lambda PB, ad, d: gk.RFFKernel(num_samples=4, num_dims=_dim(d, ad), **_kw(PB, ad)))
    add("Arc", lambda PB, ad, d: gk.ArcKernel(gk.MaternKernel(nu=2.5), ard_num_dims=_dim(d, ad), **_kw(PB, ad)))
    # the cylindrical kernel lives on the unit ball: generic points well inside, the unit point on the sphere, the origin at the centre
    add("Cylindrical(Matern)", lambda PB, ad, d: gk.CylindricalKernel(3, gk.MaternKernel(nu=2.5, batch_shape=_bs(PB)), **_kw(PB, ad)), xscale=0.5, quick=True, unit="sphere")
    add("Cylindrical(Scale(RBF))", lambda PB, ad, d: gk.CylindricalKernel(4, gk.ScaleKernel(gk.RBFKernel(batch_shape=_bs(PB)), batch_shape=_bs(PB)), **_kw(PB, ad)),
        xscale=0.5, unit="sphere")
    add("SpectralDelta", lambda PB, ad, d: gk.SpectralDeltaKernel(num_dims=_dim(d, ad), num_deltas=5, **_kw(PB, ad)))
    add("GaussianSymmetrizedKL", lambda PB, ad, d: gk.GaussianSymmetrizedKLKernel(batch_shape=_bs(PB)), ad=False, d=4)
    add("Scale(RBF)", lambda PB, ad, d: gk.ScaleKernel(gk.RBFKernel(batch_shape=_bs(PB)), **_kw(PB, ad)), quick=True)
    add("Scale(Matern[ad])", lambda PB, ad, d: gk.ScaleKernel(gk.MaternKernel(nu=1.5, **_kw(PB, ad)), batch_shape=_bs(PB)))
    add("Sum(RBF,Linear)", lambda PB, ad, d: gk.AdditiveKernel(gk.RBFKernel(**_kw(PB, ad)), gk.LinearKernel(**_kw(PB, ad))))
    add("Product(RBF,Periodic)", lambda PB, ad, d: gk.ProductKernel(gk.RBFKernel(**_kw(PB, ad)), gk.PeriodicKernel(**_kw(PB, ad))), quick=True)
    add("Scale(Sum(Matern,Product(RBF,Cosine)))",
        lambda PB, ad, d: gk.ScaleKernel(gk.MaternKernel(nu=2.5, **_kw(PB, ad)) + gk.RBFKernel(**_kw(PB, ad)) * gk.CosineKernel(**_kw(PB, ad)), batch_shape=_bs(PB)))
    add("Index", lambda PB, ad, d: gk.IndexKernel(num_tasks=4, rank=2, **_kw(PB, ad)), xkind="index")
    add("Hamming", lambda PB, ad, d: gk.HammingIMQKernel(vocab_size=3, batch_shape=_bs(PB)), xkind="onehot", ad=False, batch=False)
    add("GridInterpolation(RBF)",
        lambda PB, ad, d: gk.GridInterpolationKernel(gk.RBFKernel(), grid_size=8, num_dims=_dim(d, ad), grid_bounds=[(-2.0, 2.0)] * _dim(d, ad),
                                                      **({} if ad is None else dict(active_dims=tuple(ad)))), batch=False)
    add("InducingPoint(RBF)",
        lambda PB, ad, d: gk.InducingPointKernel(gk.RBFKernel(), inducing_points=torch.linspace(-1, 1, 4 * _dim(d, ad), dtype=torch.float64).reshape(4, _dim(d, ad)).sin(),
                                                 likelihood=gpytorch.likelihoods.GaussianLikelihood(), **({} if ad is None else dict(active_dims=tuple(ad)))),
        batch=False, eval_mode=True)
    # multi-output kernels
    # multi-output kernels (active_dims on the multitask kernel itself; on the DATA kernel in the [ad] variants).
    # batch=False: a MultitaskKernel with a parameter batch cannot be evaluated on batched data at all (covar_i.repeat in its
    # forward; batch-mode support is property C08's question), so only its unbatched form is in the domain here
    add("Multitask(RBF,t=2)", lambda PB, ad, d: gk.MultitaskKernel(gk.RBFKernel(batch_shape=_bs(PB)), num_tasks=2, rank=1, **_kw(PB, ad)), t=2, quick=True, batch=False)
    add("Multitask(Scale(Matern),t=2)",
        lambda PB, ad, d: gk.MultitaskKernel(gk.ScaleKernel(gk.MaternKernel(nu=1.5, batch_shape=_bs(PB)), batch_shape=_bs(PB)), num_tasks=2, rank=2, **_kw(PB, ad)), t=2, batch=False)
    add("Multitask(RBF[ad],t=2)", lambda PB, ad, d: gk.MultitaskKernel(gk.RBFKernel(**_kw(PB, ad)), num_tasks=2, rank=1, batch_shape=_bs(PB)), t=2, inner_ad=True, batch=False)
    add("LCM(RBF,Matern,t=2)", lambda PB, ad, d: gk.LCMKernel([gk.RBFKernel(), gk.MaternKernel(nu=2.5)], num_tasks=2, rank=1), t=2, batch=False, ad=False)
    add("LCM(RBF[ad],Matern[ad],t=2)", lambda PB, ad, d: gk.LCMKernel([gk.RBFKernel(**_kw(PB, ad)), gk.MaternKernel(nu=2.5, **_kw(PB, ad))], num_tasks=2, rank=1),
        t=2, batch=False, inner_ad=True)
    add("RBFGrad(d=1)", lambda PB, ad, d: gk.RBFKernelGrad(batch_shape=_bs(PB)), t=2, ad=False, d=1)
    add("Multitask(RBF,t=3)", lambda PB, ad, d: gk.MultitaskKernel(gk.RBFKernel(batch_shape=_bs(PB)), num_tasks=3, rank=1, **_kw(PB, ad)), t=3, batch=False)
    add("RBFGrad(d=2)", lambda PB, ad, d: gk.RBFKernelGrad(batch_shape=_bs(PB)), t=3, ad=False, d=2)
    add("Matern52Grad(d=1)", lambda PB, ad, d: gk.Matern52KernelGrad(batch_shape=_bs(PB)), t=2, ad=False, d=1)
    add("PolynomialGrad(d=1)", lambda PB, ad, d: gk.PolynomialKernelGrad(power=2, batch_shape=_bs(PB)), t=2, ad=False, d=1)
    # derivative kernels over d >= 2 input dimensions with ARD lengthscales (pairwise distinct): the layout of their outputs
    # (value, d/dx_1, ..., d/dx_d per point) is only visible when the dimensions are distinguishable
    add("RBFGrad-ard(d=2)", lambda PB, ad, d: gk.RBFKernelGrad(ard_num_dims=2, batch_shape=_bs(PB)), t=3, ad=False, d=2, ard=True)
    add("Matern52Grad-ard(d=2)", lambda PB, ad, d: gk.Matern52KernelGrad(ard_num_dims=2, batch_shape=_bs(PB)), t=3, ad=False, d=2, ard=True)
    add("PolynomialGrad(d=2)", lambda PB, ad, d: gk.PolynomialKernelGrad(power=3, batch_shape=_bs(PB)), t=3, ad=False, d=2)
    add("Scale(RBFGrad-ard(d=2))", lambda PB, ad, d: gk.ScaleKernel(gk.RBFKernelGrad(ard_num_dims=2, batch_shape=_bs(PB)), batch_shape=_bs(PB)), t=3, ad=False, d=2, ard=True)
    add("RBFGradGrad(d=1)", lambda PB, ad, d: gk.RBFKernelGradGrad(batch_shape=_bs(PB)), t=3, ad=False, d=1)
    add("RBFGradGrad-ard(d=2)", lambda PB, ad, d: gk.RBFKernelGradGrad(ard_num_dims=2, batch_shape=_bs(PB)), t=5, ad=False, d=2, ard=True)
    add("RBFGrad-ard(d=3)", lambda PB, ad, d: gk.RBFKernelGrad(ard_num_dims=3, batch_shape=_bs(PB)), t=4, ad=False, ard=True)
    # per-dimension parameters of the remaining stationary kernels, and a multitask kernel over an ARD data kernel
    add("RQ-ard", lambda PB, ad, d: gk.RQKernel(ard_num_dims=_dim(d, ad), **_kw(PB, ad)), ard=True)
    add("Periodic-ard", lambda PB, ad, d: gk.PeriodicKernel(ard_num_dims=_dim(d, ad), **_kw(PB, ad)), ard=True)
    add("PiecewisePolynomial-ard", lambda PB, ad, d: gk.PiecewisePolynomialKernel(q=1, ard_num_dims=_dim(d, ad), **_kw(PB, ad)), ard=True, xscale=0.15)
    add("Multitask(Matern-ard,t=2)", lambda PB, ad, d: gk.MultitaskKernel(gk.MaternKernel(nu=2.5, ard_num_dims=_dim(d, ad), batch_shape=_bs(PB)), num_tasks=2, rank=1, **_kw(PB, ad)),
        t=2, batch=False, ard=True)
    # a sum / product whose members do not all own a parameter batch (kernel[i] of the unbatched member is the member itself)
    add("Sum(Matern-ard,Linear0)", lambda PB, ad, d: gk.AdditiveKernel(gk.MaternKernel(nu=1.5, ard_num_dims=_dim(d, ad), **_kw(PB, ad)), gk.LinearKernel(**_kw((), ad))), ard=True, quick=True)
    add("Product(Scale(RBF),RQ0)", lambda PB, ad, d: gk.ProductKernel(gk.ScaleKernel(gk.RBFKernel(**_kw(PB, ad)), batch_shape=_bs(PB)), gk.RQKernel(**_kw((), ad))))
    # every composite / multi-output structure with a member whose DIAGONAL VARIES over the points (dot-product kernels): with a stationary
    # member k(x, x) is one constant, and a diag relation (the Kronecker / block layout of a multi-output diagonal, a diagonal shortcut of a
    # wrapper) holds by symmetry.  ZooDiagCover of LazyKernel.tla states the coverage, c06.diag_probe checks the declared class.
    add("Scale(Linear-ard)", lambda PB, ad, d: gk.ScaleKernel(gk.LinearKernel(ard_num_dims=_dim(d, ad), **_kw(PB, ad)), batch_shape=_bs(PB)), ard=True)
    add("Product(Polynomial,RBF)", lambda PB, ad, d: gk.ProductKernel(gk.PolynomialKernel(power=2, **_kw(PB, ad)), gk.RBFKernel(**_kw(PB, ad))))
    add("Scale(Product(Linear,Sum(RBF,Polynomial)))",
        lambda PB, ad, d: gk.ScaleKernel(gk.LinearKernel(**_kw(PB, ad)) * (gk.RBFKernel(**_kw(PB, ad)) + gk.PolynomialKernel(power=2, **_kw(PB, ad))), batch_shape=_bs(PB)))
    add("Multitask(Linear,t=2)", lambda PB, ad, d: gk.MultitaskKernel(gk.LinearKernel(batch_shape=_bs(PB)), num_tasks=2, rank=1, **_kw(PB, ad)), t=2, batch=False, quick=True)
    add("Multitask(Sum(Scale(RBF),Polynomial),t=3)",
        lambda PB, ad, d: gk.MultitaskKernel(gk.ScaleKernel(gk.RBFKernel()) + gk.PolynomialKernel(power=2), num_tasks=3, rank=2, **_kw(PB, ad)), t=3, batch=False)
    add("LCM(RBF,Linear,t=2)", lambda PB, ad, d: gk.LCMKernel([gk.RBFKernel(), gk.LinearKernel()], num_tasks=2, rank=1), t=2, batch=False, ad=False)
    for z in out:
        if z.name not in STRUCT:
            from harness import core
            raise core.Machinery("zoo kernel %s has no declared structure / diagonal class (c06_kernels.STRUCT)" % z.name)
        z.struct, z.dvar = STRUCT[z.name]
    return out


def _decl():
    """name -> (structure, the diagonal k(x, x) varies over the points)"""
    T = {}
    for n in ("RBF RBF-ard Matern0.5 Matern1.5 Matern2.5-ard RQ Periodic Cosine PiecewisePolynomial Constant SpectralMixture RFF Arc Cylindrical(Matern) "
              "Cylindrical(Scale(RBF)) SpectralDelta GaussianSymmetrizedKL Hamming RQ-ard Periodic-ard PiecewisePolynomial-ard").split():
        T[n] = ("plain", False)
    for n in "Linear Linear-ard Polynomial Index".split():
        T[n] = ("plain", True)
    T.update({"Scale(RBF)": ("scale", False), "Scale(Matern[ad])": ("scale", False), "Scale(Linear-ard)": ("scale", True),
              "Sum(RBF,Linear)": ("sum", True), "Sum(Matern-ard,Linear0)": ("sum", True),
              "Product(RBF,Periodic)": ("product", False), "Product(Scale(RBF),RQ0)": ("product", False), "Product(Polynomial,RBF)": ("product", True),
              "Scale(Sum(Matern,Product(RBF,Cosine)))": ("nested", False), "Scale(Product(Linear,Sum(RBF,Polynomial)))": ("nested", True),
              "GridInterpolation(RBF)": ("gridinterp", True),  # (the interpolation weights make the diagonal depend on the position in the grid cell)
              # (the Nystrom diagonal k_xz Kzz^-1 k_zx varies over the points; the eval-mode diagonal correction, when switched on, replaces it by the
              # constant diagonal of the base kernel: the class is probed with the correction off, one of the enumerated environments)
              "InducingPoint(RBF)": ("inducing", True),
              "Multitask(RBF,t=2)": ("multitask", False), "Multitask(Scale(Matern),t=2)": ("multitask", False), "Multitask(RBF[ad],t=2)": ("multitask", False),
              "Multitask(RBF,t=3)": ("multitask", False), "Multitask(Matern-ard,t=2)": ("multitask", False), "Multitask(Linear,t=2)": ("multitask", True),
              "Multitask(Sum(Scale(RBF),Polynomial),t=3)": ("multitask", True),
              "LCM(RBF,Matern,t=2)": ("lcm", False), "LCM(RBF[ad],Matern[ad],t=2)": ("lcm", False), "LCM(RBF,Linear,t=2)": ("lcm", True),
              "PolynomialGrad(d=1)": ("grad", True), "PolynomialGrad(d=2)": ("grad", True)})
    for n in ("RBFGrad(d=1) RBFGrad(d=2) Matern52Grad(d=1) RBFGrad-ard(d=2) Matern52Grad-ard(d=2) Scale(RBFGrad-ard(d=2)) RBFGradGrad(d=1) RBFGradGrad-ard(d=2) "
              "RBFGrad-ard(d=3)").split():
        T[n] = ("grad", False)
    return T


STRUCT = _decl()


_ZOO = None


def by_name(name):
    global _ZOO
    if _ZOO is None:
        _ZOO = {z.name: z for z in zoo()}
    return _ZOO[name]


def build(z, PB, ad, seed):
    """A float64 kernel with seeded, batch-distinct hyperparameters (and seeded RFF weights)."""
    g = torch.Generator().manual_seed(seed)
    torch.manual_seed(seed)
    k = z.make(tuple(PB), ad, D_FULL).double()
    randomise(k, g)
    assert_distinct(k)
    if z.eval_mode:
        k.eval()
    return k


def twin(z, PB, seed, src):
    """The same kernel without active_dims, carrying the hyperparameters (and buffers other than active_dims) of src."""
    torch.manual_seed(seed)
    k = z.make(tuple(PB), None, len(AD)).double()
    sp = dict(src.named_parameters())
    for n, p in k.named_parameters():
        p.data = sp[n].data.clone()
    sb = dict(src.named_buffers())
    for n, b in k.named_buffers():
        if not n.endswith("active_dims") and n in sb and sb[n].shape == b.shape:
            b.data = sb[n].data.clone()
    if z.eval_mode:
        k.eval()
    return k


def inputs(z, shape_b, n, seed):
    """Inputs of shape (*shape_b, n, D_FULL) in the domain of the kernel."""
    g = torch.Generator().manual_seed(seed)
    if z.xkind == "index":
        x = torch.randint(0, 4, (*shape_b, n, D_FULL), generator=g).double()
        return x
    if z.d != D_FULL:
        return torch.rand(*shape_b, n, z.d, generator=g, dtype=torch.float64) * 2.0 - 1.0
    if z.xkind == "onehot":
        idx = torch.randint(0, 3, (*shape_b, n), generator=g)
        return torch.nn.functional.one_hot(idx, 3).double()
    return (torch.rand(*shape_b, n, D_FULL, generator=g, dtype=torch.float64) * 2.0 - 1.0) * z.xscale


# ---------------------------------------------------------------------------------------------------------------
# data geometry: the point classes of LazyKernel.tla realised in the input space of a zoo kernel
POINT_CLASS = {0: "origin", 1: "unit", 2: "lattice", 3: "generic", 4: "generic"}


def _generic(z, g, n, dfull):
    if z.xkind == "index":
        return torch.randint(0, 4, (n, dfull), generator=g).double()
    if z.xkind == "onehot":
        return torch.nn.functional.one_hot(torch.randint(0, 3, (n,), generator=g), 3).double()
    return (torch.rand(n, dfull, generator=g, dtype=torch.float64) * 2.0 - 1.0) * z.xscale


def _first(t):
    """the parameter of the first batch element as a 1-d tensor"""
    t = t.detach()
    return t.reshape(-1, t.shape[-1])[0] if t.dim() > 0 else t.reshape(1)


def lattice_point(z, k, anchor):
    """The kernel's own special position relative to the generic point `anchor` (a vector of the ACTIVE subspace)."""
    da = anchor.shape[0]
    if z.xkind == "index":
        return torch.full((da,), 3.0, dtype=torch.float64)  # the largest task index
    if z.xkind == "onehot":
        return anchor.roll(1)  # another row of the vocabulary
    mods = list(k.modules())
    for m in mods:
        if isinstance(m, gk.GridInterpolationKernel):
            return torch.stack([m.grid[j][min(3 + j, m.grid[j].numel() - 2)].detach().double() for j in range(da)])  # an exact grid node
        if isinstance(m, gk.InducingPointKernel):
            return m.inducing_points.detach().double()[1].clone()  # an inducing point
    for m in mods:
        if hasattr(m, "period_length"):
            e0 = torch.zeros(da, dtype=torch.float64)
            e0[0] = 2.0 * float(_first(m.period_length)[0])
            return anchor + e0  # two whole periods away along the first active dimension (a resonance of the periodic and of the cosine kernel)
    for m in mods:
        if isinstance(m, gk.PiecewisePolynomialKernel):
            e0 = torch.zeros(da, dtype=torch.float64)
            e0[0] = float(_first(m.lengthscale)[0])
            return anchor + e0  # exactly on the boundary of the support around the anchor
    return -anchor  # the antipode (cosine similarity -1)


def unit_point(z, da, b):
    if z.xkind == "onehot":
        return torch.eye(da, dtype=torch.float64)[1 + b % 2].clone()  # another word of the vocabulary
    if z.unit == "sphere" and da > 1:
        v = torch.tensor([2.0, 1.0 + (b % 2), 2.0][:da], dtype=torch.float64)
        v = v / v.norm()
        while float(v.norm()) > 1.0 - 2.0 ** -50:  # on the sphere up to a few ulp, never outside the ball in whatever order the norm is summed
            v = v * (1.0 - 2.0 ** -51)
        return v
    return torch.eye(da, dtype=torch.float64)[(da - 1 - b) % da].clone()


def geo_points(z, k, ad, nb, seed):
    """coordinates[b][id] (full rows of width dfull) of the five points in each of nb batch elements"""
    dfull = z.d if z.d != D_FULL else D_FULL
    cols = list(ad) if ad is not None else list(range(dfull))
    out = []
    g0 = torch.Generator().manual_seed(seed_of("geo-origin", seed))
    row0 = _generic(z, g0, 1, dfull)[0]
    row0[cols] = 0.0
    if z.xkind == "onehot":
        row0[0] = 1.0  # a one-hot kernel is defined on one-hot rows only: its 'origin' is the first word of the vocabulary, not the zero row
    for b in range(nb):
        g = torch.Generator().manual_seed(seed_of("geo", seed, b))
        base = _generic(z, g, 5, dfull)  # generic rows; rows 0..2 donate the inactive coordinates of the special points
        pts = {0: row0.clone(), 3: base[3].clone(), 4: base[4].clone()}
        u = base[1].clone()
        u[cols] = unit_point(z, len(cols), b)
        pts[1] = u
        l = base[2].clone()
        l[cols] = lattice_point(z, k, base[3][cols].clone())
        pts[2] = l
        out.append(pts)
    return out


def geo_inputs(z, k, ad, shape_b, rows, seed):
    """x of shape (*shape_b, len(rows), dfull): batch element b (flat) holds the points rows[(i + b) % n] of that batch element (GeoX of
    LazyKernel.tla).  The same (kernel, seed) gives the same points for x1 and x2, so that equal ids are equal rows."""
    n = len(rows)
    nb = 1
    for s in shape_b:
        nb *= s
    pts = geo_points(z, k, ad, nb, seed)
    x = torch.stack([torch.stack([pts[b][int(rows[(i + b) % n])] for i in range(n)]) for b in range(nb)])
    return x.reshape(*shape_b, n, x.shape[-1])


def label_rows(shape_b, rows):
    """the labels GeoX of LazyKernel.tla gives the rows: tensor of shape (*shape_b, n)"""
    n = len(rows)
    nb = 1
    for s in shape_b:
        nb *= s
    lab = [[(0 if int(rows[(i + b) % n]) == 0 else int(rows[(i + b) % n]) + 8 * b) for i in range(n)] for b in range(nb)]
    return torch.tensor(lab, dtype=torch.float64).reshape(*shape_b, n)


def label_inputs_from(labels, col=0):
    """x of shape (*labels.shape, D_FULL) whose column `col` holds the given row labels"""
    x = torch.zeros(*labels.shape, D_FULL, dtype=torch.float64)
    for c, v in zip(range(D_FULL), (0.75, 0.25, -0.5)):
        x[..., c] = v
    x[..., col] = labels
    return x
