"""C06 helpers: the kernel zoo (every kernel exported by gpytorch.kernels that can be built with simple arguments on
CPU without KeOps), the label stub kernel that binds LazyKernel.tla to the real _getitem code exactly, and input
generators.  Everything is float64; hyperparameters are randomised (seeded) and PAIRWISE DISTINCT over the whole kernel
instance (every ARD component, every batch element, every member of a composition: assert_distinct), so that no
relation can hold by a symmetry of the parameters; c06.py additionally probes that the distinct values are visible
(permuting the input columns of an ARD kernel / swapping the batch elements changes the matrix)."""
import zlib

import torch
from torch.nn import Parameter

import gpytorch
from gpytorch import kernels as gk

D_FULL = 3  # feature columns of every generated input
AD = (2, 0)  # the active_dims used throughout: NOT ascending on purpose (the order of the selected columns is part of the meaning)


def seed_of(*parts):
    return zlib.crc32(repr(parts).encode()) & 0x7FFFFFFF


def randomise(k, g):
    """Distinct, moderate values for every raw parameter (all constraints are softplus / sigmoid transforms of raw values)."""
    for name, p in k.named_parameters():
        v = torch.rand(p.shape, generator=g, dtype=torch.float64) * 1.5 - 0.75
        if name.endswith("raw_mixture_means"):
            v = v * 0.3 - 1.5
        p.data = v.to(p.dtype)
    return k


def assert_distinct(k, gap=1e-6):
    """No two raw parameter entries of the kernel instance are equal (a draw that collides is a machinery failure: the
    generator is seeded, so this never depends on chance at run time)."""
    ps = [p.detach().reshape(-1).double() for p in k.parameters()]
    if not ps:
        return k
    v = torch.cat(ps).sort().values
    if v.numel() > 1 and float((v[1:] - v[:-1]).min()) < gap:
        from harness import core
        raise core.Machinery("two hyperparameter entries of %s coincide (gap %.2e): the instance is symmetric" % (type(k).__name__, float((v[1:] - v[:-1]).min())))
    return k


# ---------------------------------------------------------------------------------------------------------------
# label stub: entries are the integer labels of LazyKernel.tla
class LabelKernel(gk.Kernel):
    """forward(x1, x2)[b, i*t+a, j*t+c] = ((((p*32 + u)*4 + a)*32 + v)*4 + c) with u = x1[b, i, 0], v = x2[b, j, 0] and
    p = sum_k 8^k * parameter_k[b]: exactly the label LazyKernel.tla assigns.  Parameters are evaluated by plain
    broadcasting against the data, like the lengthscale of a stationary kernel."""

    def __init__(self, t=1, tails=((1, 1),), batch_shape=torch.Size([]), active_dims=None):
        super().__init__(batch_shape=batch_shape, active_dims=active_dims)
        self.t = t
        self.tails = [tuple(x) for x in tails]
        for i, tail in enumerate(self.tails):
            n = 1
            for b in batch_shape:
                n *= b
            self.register_parameter("raw_p%d" % i, Parameter(torch.arange(n, dtype=torch.float64).reshape(*batch_shape, *tail)))

    def num_outputs_per_input(self, x1, x2):
        return self.t

    def _plabel(self):
        tot = None
        for i, tail in enumerate(self.tails):
            p = getattr(self, "raw_p%d" % i)
            if len(tail) == 0:
                p = p.unsqueeze(-1).unsqueeze(-1)
            tot = p * (8 ** i) if tot is None else tot + p * (8 ** i)
        return tot  # (*prefix, 1, 1)

    def forward(self, x1, x2, diag=False, last_dim_is_batch=False, **params):
        t = self.t
        u = x1[..., 0].repeat_interleave(t, dim=-1)  # (..., n1*t)
        v = x2[..., 0].repeat_interleave(t, dim=-1)
        a = torch.arange(t, dtype=x1.dtype).repeat(x1.shape[-2])
        c = torch.arange(t, dtype=x1.dtype).repeat(x2.shape[-2])
        p = self._plabel()
        if diag:
            return (((p[..., 0] * 32 + u) * 4 + a) * 32 + v) * 4 + c
        return (((p * 32 + u.unsqueeze(-1)) * 4 + a.unsqueeze(-1)) * 32 + v.unsqueeze(-2)) * 4 + c


def label_inputs(shape_b, n, col=0):
    """x of shape (*shape_b, n, D_FULL): column `col` holds the row label (row-major over batch and rows), like Iota in the
    spec.  col = active_dims[0] for a stub with active_dims: the stub reads column 0 of the SELECTED columns."""
    tot = n
    for b in shape_b:
        tot *= b
    x = torch.zeros(*shape_b, n, D_FULL, dtype=torch.float64)
    for c, v in zip(range(D_FULL), (0.75, 0.25, -0.5)):
        x[..., c] = v
    x[..., col] = torch.arange(tot, dtype=torch.float64).reshape(*shape_b, n)
    return x


# ---------------------------------------------------------------------------------------------------------------
# the zoo.  make(PB, ad, d) -> kernel over d feature columns (after active_dims selection the kernel sees len(ad)).
class Z:
    def __init__(self, name, make, t=1, batch=True, xkind="real", ad=True, sym=True, diag=True, stack=True, quick=False, eval_mode=False, d=D_FULL, ard=False, xscale=1.0):
        self.name, self.make, self.t, self.batch, self.xkind, self.d = name, make, t, batch, xkind, d
        self.xscale = xscale  # inputs are drawn from [-xscale, xscale]^d (compactly supported kernels need points closer than a lengthscale)
        self.ard = ard  # per-dimension parameters: permuting the input columns must change the matrix (probe of c06.py)
        self.ad, self.sym, self.diag, self.stack, self.quick, self.eval_mode = ad, sym, diag, stack, quick, eval_mode
        self.inner_ad = False


def _bs(PB):
    return torch.Size(PB)


def _kw(PB, ad):
    kw = dict(batch_shape=_bs(PB))
    if ad is not None:
        kw["active_dims"] = tuple(ad)
    return kw


def _dim(d, ad):
    return d if ad is None else len(ad)


def zoo():
    out = []

    def add(name, fn, inner_ad=False, **kw):
        out.append(Z(name, fn, **kw))
        out[-1].inner_ad = inner_ad

    add("RBF", lambda PB, ad, d: gk.RBFKernel(**_kw(PB, ad)), quick=True)
    add("RBF-ard", lambda PB, ad, d: gk.RBFKernel(ard_num_dims=_dim(d, ad), **_kw(PB, ad)), ard=True)
    add("Matern0.5", lambda PB, ad, d: gk.MaternKernel(nu=0.5, **_kw(PB, ad)))
    add("Matern1.5", lambda PB, ad, d: gk.MaternKernel(nu=1.5, **_kw(PB, ad)))
    add("Matern2.5-ard", lambda PB, ad, d: gk.MaternKernel(nu=2.5, ard_num_dims=_dim(d, ad), **_kw(PB, ad)), quick=True, ard=True)
    add("RQ", lambda PB, ad, d: gk.RQKernel(**_kw(PB, ad)))
    add("Periodic", lambda PB, ad, d: gk.PeriodicKernel(**_kw(PB, ad)))
    add("Cosine", lambda PB, ad, d: gk.CosineKernel(**_kw(PB, ad)))
    add("Linear", lambda PB, ad, d: gk.LinearKernel(**_kw(PB, ad)), quick=True)
    add("Linear-ard", lambda PB, ad, d: gk.LinearKernel(ard_num_dims=_dim(d, ad), **_kw(PB, ad)), ard=True)
    add("Polynomial", lambda PB, ad, d: gk.PolynomialKernel(power=2, **_kw(PB, ad)))
    add("PiecewisePolynomial", lambda PB, ad, d: gk.PiecewisePolynomialKernel(q=2, **_kw(PB, ad)), xscale=0.15)
    add("Constant", lambda PB, ad, d: gk.ConstantKernel(**_kw(PB, ad)))
    add("SpectralMixture", lambda PB, ad, d: gk.SpectralMixtureKernel(num_mixtures=2, ard_num_dims=_dim(d, ad), **_kw(PB, ad)))
    add("RFF", lambda PB, ad, d: gk.RFFKernel(num_samples=4, num_dims=_dim(d, ad), **_kw(PB, ad)))
    add("Arc", lambda PB, ad, d: gk.ArcKernel(gk.MaternKernel(nu=2.5), ard_num_dims=_dim(d, ad), **_kw(PB, ad)))
    add("Scale(RBF)", lambda PB, ad, d: gk.ScaleKernel(gk.RBFKernel(batch_shape=_bs(PB)), **_kw(PB, ad)), quick=True)
    add("Scale(Matern[ad])", lambda PB, ad, d: gk.ScaleKernel(gk.MaternKernel(nu=1.5, **_kw(PB, ad)), batch_shape=_bs(PB)))
    add("Sum(RBF,Linear)", lambda PB, ad, d: gk.AdditiveKernel(gk.RBFKernel(**_kw(PB, ad)), gk.LinearKernel(**_kw(PB, ad))))
    add("Product(RBF,Periodic)", lambda PB, ad, d: gk.ProductKernel(gk.RBFKernel(**_kw(PB, ad)), gk.PeriodicKernel(**_kw(PB, ad))), quick=True)
    add("Scale(Sum(Matern,Product(RBF,Cosine)))",
        lambda PB, ad, d: gk.ScaleKernel(gk.MaternKernel(nu=2.5, **_kw(PB, ad)) + gk.RBFKernel(**_kw(PB, ad)) * gk.CosineKernel(**_kw(PB, ad)), batch_shape=_bs(PB)))
    add("Index", lambda PB, ad, d: gk.IndexKernel(num_tasks=4, rank=2, **_kw(PB, ad)), xkind="index")
    add("Hamming", lambda PB, ad, d: gk.HammingIMQKernel(vocab_size=3, batch_shape=_bs(PB)), xkind="onehot", ad=False, batch=False)
    add("GridInterpolation(RBF)",
        lambda PB, ad, d: gk.GridInterpolationKernel(gk.RBFKernel(), grid_size=8, num_dims=_dim(d, ad), grid_bounds=[(-2.0, 2.0)] * _dim(d, ad),
                                                      **({} if ad is None else dict(active_dims=tuple(ad)))), batch=False)
    add("InducingPoint(RBF)",
        lambda PB, ad, d: gk.InducingPointKernel(gk.RBFKernel(), inducing_points=torch.linspace(-1, 1, 4 * _dim(d, ad), dtype=torch.float64).reshape(4, _dim(d, ad)).sin(),
                                                 likelihood=gpytorch.likelihoods.GaussianLikelihood(), **({} if ad is None else dict(active_dims=tuple(ad)))),
        batch=False, eval_mode=True)
    # multi-output kernels
    # multi-output kernels (active_dims on the multitask kernel itself; on the DATA kernel in the [ad] variants).
    # batch=False: a MultitaskKernel with a parameter batch cannot be evaluated on batched data at all (covar_i.repeat in its
    # forward; batch-mode support is property C08's question), so only its unbatched form is in the domain here
    add("Multitask(RBF,t=2)", lambda PB, ad, d: gk.MultitaskKernel(gk.RBFKernel(batch_shape=_bs(PB)), num_tasks=2, rank=1, **_kw(PB, ad)), t=2, quick=True, batch=False)
    add("Multitask(Scale(Matern),t=2)",
        lambda PB, ad, d: gk.MultitaskKernel(gk.ScaleKernel(gk.MaternKernel(nu=1.5, batch_shape=_bs(PB)), batch_shape=_bs(PB)), num_tasks=2, rank=2, **_kw(PB, ad)), t=2, batch=False)
    add("Multitask(RBF[ad],t=2)", lambda PB, ad, d: gk.MultitaskKernel(gk.RBFKernel(**_kw(PB, ad)), num_tasks=2, rank=1, batch_shape=_bs(PB)), t=2, inner_ad=True, batch=False)
    add("LCM(RBF,Matern,t=2)", lambda PB, ad, d: gk.LCMKernel([gk.RBFKernel(), gk.MaternKernel(nu=2.5)], num_tasks=2, rank=1), t=2, batch=False, ad=False)
    add("LCM(RBF[ad],Matern[ad],t=2)", lambda PB, ad, d: gk.LCMKernel([gk.RBFKernel(**_kw(PB, ad)), gk.MaternKernel(nu=2.5, **_kw(PB, ad))], num_tasks=2, rank=1),
        t=2, batch=False, inner_ad=True)
    add("RBFGrad(d=1)", lambda PB, ad, d: gk.RBFKernelGrad(batch_shape=_bs(PB)), t=2, ad=False, d=1)
    add("Multitask(RBF,t=3)", lambda PB, ad, d: gk.MultitaskKernel(gk.RBFKernel(batch_shape=_bs(PB)), num_tasks=3, rank=1, **_kw(PB, ad)), t=3, batch=False)
    add("RBFGrad(d=2)", lambda PB, ad, d: gk.RBFKernelGrad(batch_shape=_bs(PB)), t=3, ad=False, d=2)
    add("Matern52Grad(d=1)", lambda PB, ad, d: gk.Matern52KernelGrad(batch_shape=_bs(PB)), t=2, ad=False, d=1)
    add("PolynomialGrad(d=1)", lambda PB, ad, d: gk.PolynomialKernelGrad(power=2, batch_shape=_bs(PB)), t=2, ad=False, d=1)
    # derivative kernels over d >= 2 input dimensions with ARD lengthscales (pairwise distinct): the layout of their outputs
    # (value, d/dx_1, ..., d/dx_d per point) is only visible when the dimensions are distinguishable
    add("RBFGrad-ard(d=2)", lambda PB, ad, d: gk.RBFKernelGrad(ard_num_dims=2, batch_shape=_bs(PB)), t=3, ad=False, d=2, ard=True)
    add("Matern52Grad-ard(d=2)", lambda PB, ad, d: gk.Matern52KernelGrad(ard_num_dims=2, batch_shape=_bs(PB)), t=3, ad=False, d=2, ard=True)
    add("PolynomialGrad(d=2)", lambda PB, ad, d: gk.PolynomialKernelGrad(power=3, batch_shape=_bs(PB)), t=3, ad=False, d=2)
    add("Scale(RBFGrad-ard(d=2))", lambda PB, ad, d: gk.ScaleKernel(gk.RBFKernelGrad(ard_num_dims=2, batch_shape=_bs(PB)), batch_shape=_bs(PB)), t=3, ad=False, d=2, ard=True)
    add("RBFGradGrad(d=1)", lambda PB, ad, d: gk.RBFKernelGradGrad(batch_shape=_bs(PB)), t=3, ad=False, d=1)
    add("RBFGradGrad-ard(d=2)", lambda PB, ad, d: gk.RBFKernelGradGrad(ard_num_dims=2, batch_shape=_bs(PB)), t=5, ad=False, d=2, ard=True)
    add("RBFGrad-ard(d=3)", lambda PB, ad, d: gk.RBFKernelGrad(ard_num_dims=3, batch_shape=_bs(PB)), t=4, ad=False, ard=True)
    # per-dimension parameters of the remaining stationary kernels, and a multitask kernel over an ARD data kernel
    add("RQ-ard", lambda PB, ad, d: gk.RQKernel(ard_num_dims=_dim(d, ad), **_kw(PB, ad)), ard=True)
    add("Periodic-ard", lambda PB, ad, d: gk.PeriodicKernel(ard_num_dims=_dim(d, ad), **_kw(PB, ad)), ard=True)
    add("PiecewisePolynomial-ard", lambda PB, ad, d: gk.PiecewisePolynomialKernel(q=1, ard_num_dims=_dim(d, ad), **_kw(PB, ad)), ard=True, xscale=0.15)
    add("Multitask(Matern-ard,t=2)", lambda PB, ad, d: gk.MultitaskKernel(gk.MaternKernel(nu=2.5, ard_num_dims=_dim(d, ad), batch_shape=_bs(PB)), num_tasks=2, rank=1, **_kw(PB, ad)),
        t=2, batch=False, ard=True)
    # a sum / product whose members do not all own a parameter batch (kernel[i] of the unbatched member is the member itself)
    add("Sum(Matern-ard,Linear0)", lambda PB, ad, d: gk.AdditiveKernel(gk.MaternKernel(nu=1.5, ard_num_dims=_dim(d, ad), **_kw(PB, ad)), gk.LinearKernel(**_kw((), ad))), ard=True, quick=True)
    add("Product(Scale(RBF),RQ0)", lambda PB, ad, d: gk.ProductKernel(gk.ScaleKernel(gk.RBFKernel(**_kw(PB, ad)), batch_shape=_bs(PB)), gk.RQKernel(**_kw((), ad))))
    return out


_ZOO = None


def by_name(name):
    global _ZOO
    if _ZOO is None:
        _ZOO = {z.name: z for z in zoo()}
    return _ZOO[name]


def build(z, PB, ad, seed):
    """A float64 kernel with seeded, batch-distinct hyperparameters (and seeded RFF weights)."""
    g = torch.Generator().manual_seed(seed)
    torch.manual_seed(seed)
    k = z.make(tuple(PB), ad, D_FULL).double()
    randomise(k, g)
    assert_distinct(k)
    if z.eval_mode:
        k.eval()
    return k


def twin(z, PB, seed, src):
    """The same kernel without active_dims, carrying the hyperparameters (and buffers other than active_dims) of src."""
    torch.manual_seed(seed)
    k = z.make(tuple(PB), None, len(AD)).double()
    sp = dict(src.named_parameters())
    for n, p in k.named_parameters():
        p.data = sp[n].data.clone()
    sb = dict(src.named_buffers())
    for n, b in k.named_buffers():
        if not n.endswith("active_dims") and n in sb and sb[n].shape == b.shape:
            b.data = sb[n].data.clone()
    if z.eval_mode:
        k.eval()
    return k


def inputs(z, shape_b, n, seed):
    """Inputs of shape (*shape_b, n, D_FULL) in the domain of the kernel."""
    g = torch.Generator().manual_seed(seed)
    if z.xkind == "index":
        x = torch.randint(0, 4, (*shape_b, n, D_FULL), generator=g).double()
        return x
    if z.d != D_FULL:
        return torch.rand(*shape_b, n, z.d, generator=g, dtype=torch.float64) * 2.0 - 1.0
    if z.xkind == "onehot":
        idx = torch.randint(0, 3, (*shape_b, n), generator=g)
        return torch.nn.functional.one_hot(idx, 3).double()
    return (torch.rand(*shape_b, n, D_FULL, generator=g, dtype=torch.float64) * 2.0 - 1.0) * z.xscale
